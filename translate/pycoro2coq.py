"""Fail-closed COROUTINE-TO-STEP translator for the index bookkeeping of psiaudio/pipeline.py (property C12).

A generator function decorated with @coroutine becomes Gallina over the block representation of coq/Stages/Model.v:
    locals set up before `while True:`          -> the initial state (tuple of the state variables, in SPEC order)
    one pass of the loop from `(yield)` to the  -> <name>_gen_step : params -> state -> blk A -> option (state * list (blk A))
    next `(yield)`                                 (None = the code raises; target calls collected in order in `outs`)
statement by statement: assignment -> `let`, `if` -> `if` / `match` (joined on the variables assigned in it), inner
`while` -> a fuelled Fixpoint (out of fuel = None), `x = concat(..)` / `x = a % b` -> a `match` on an option.
ANY statement, expression, call, name, keyword or yield position that is not listed here raises TranslatorGap; the few
statements that are not index bookkeeping are PINNED by their `ast.unparse` text (SPEC[..]['pinned']) and mapped to a
fixed Coq text or dropped; a pinned text that no longer occurs exactly once also raises.  Nothing is skipped silently
(docstrings are the only statements ignored)."""
import ast
import os


class TranslatorGap(Exception):
    """The source contains something the tables do not cover: the tie is broken, never skipped."""


def gap(node, why):
    where = f' (line {node.lineno})' if hasattr(node, 'lineno') else ''
    raise TranslatorGap(f'{why}{where}: `{ast.unparse(node)[:120]}`' if isinstance(node, ast.AST) else f'{why}: {node}')


# ---- the fixed vocabulary the emitted text uses besides Stages/Model.v (getitem concat2 concat_list s0_of set_s0) -------
HEADER = '''From PV Require Import Stages.Model.
Open Scope Z_scope.

(* vocabulary of translate/pycoro2coq.py (fixed text) *)
Definition py_mod (a b : Z) : option Z := if b =? 0 then None else Some (a mod b).        (* ZeroDivisionError *)
Definition py_floordiv (a b : Z) : option Z := if b =? 0 then None else Some (a / b).
(* truth of len(x): samples of a 1-D array, channels (never 0) of a 2-D one *)
Definition py_len_true {A} (x : blk A) : bool := if two x then true else negb (zlen (dat x) =? 0).
(* PipelineData(arr, fs, s0, channel, metadata) *)
Definition new_pd {A} (x : blk A) (fsd s0 : Z) (ch : option (list Z)) (md : Z) : blk A :=
  Blk (dat x) (two x) (Some (An s0 fsd ch md)).
(* np.full(shape of `like` with last axis 1, fill_value=v): a plain array *)
Definition np_full1 {A} (like : blk A) (v : A) : blk A := Blk [v] (two like) None.
(* np.diff(x) * x.fs for annotated x: x[..., 1:] - x[..., :-1], annotations of x[..., 1:]; `* fs` is part of sub *)
Definition np_diff_fs {A} (sub : A -> A -> A) (x : blk A) : blk A :=
  let hi := getitem (Some 1) None None x in
  Blk (match dat x with [] => [] | p :: t => diff_from sub p t end) (two hi) (an hi).
(* signal.lfilter(b, a, y, zi=zf, axis=-1): (plain array of the filtered samples, final state) *)
Definition lfilter {F A} (filt : F -> A -> F * A) (zf : F) (y : blk A) : blk A * F :=
  let '(z, yf) := mapAccum filt zf (dat y) in (Blk yf (two y) None, z).
(* second batch: rms, event_rate, transform, mc_reference, iirfilter *)
Definition set_ch {A} (c : option (list Z)) (b : blk A) : blk A :=
  Blk (dat b) (two b) (option_map (fun a => An (a_s0 a) (a_fsd a) c (a_md a)) (an b)).
Definition py_last {X} (l : list X) : option X := match rev l with [] => None | x :: _ => Some x end.  (* l[-1]: IndexError *)
Definition sum_len {A} (l : list (blk A)) : Z := fold_right (fun d acc => zlen (dat d) + acc) 0 l.
(* np.mean(d ** 2, axis=-1) ** 0.5 for d reshaped to [.., n_blocks, n] (integer samples squared in double): one value per
   block (abstract agg); PipelineData.mean divides fs and the float s0 by n (s0div); a reshaped 1-D array carries the
   channel list [None] * n_blocks *)
Definition rms_value {A O} (agg : list A -> O) (s0div : Z -> Z) (n n_blocks : Z) (d : blk A) : blk O :=
  Blk (map agg (chop (Z.to_nat n_blocks) (Z.to_nat n) (dat d))) (two d)
      (option_map (fun a => An (s0div (a_s0 a)) (a_fsd a * n)
                               (if two d then a_ch a else Some (repeat 0 (Z.to_nat n_blocks))) (a_md a)) (an d)).
(* function(data) for an elementwise function / matrix @ data (one column of all channels = one sample) *)
Definition map_blk {A O} (g : A -> O) (x : blk A) : blk O := Blk (map g (dat x)) (two x) (an x).
'''
RESERVED = set('''py_mod py_floordiv py_len_true new_pd np_full1 np_diff_fs lfilter getitem concat2 concat_list s0_of set_s0
  dat two an zlen length Blk An Some None outs chunk fuel st A F a_s0 a_fsd a_ch a_md mapAccum diff_from negb true false
  if then else let in match with end fun forall exists Definition Fixpoint Type Prop Set as return fix cofix at using
  where mod set_ch py_last sum_len rms_value map_blk iir_init get_range combine_events trim_left e_lo e_hi evs Rb Ev
  Events events rblk blk ann hdr unit tt concat PipelineData getattr isinstance len np signal list coroutine Ellipsis'''.split())

COROUTINE_SRC = ("def coroutine(func):\n    \"\"\"Decorator to auto-start a coroutine.\"\"\"\n\n    def start(*args, **kwargs):\n"
                 "        cr = func(*args, **kwargs)\n        next(cr)\n        return cr\n    return start")

ELLIPSIS_NOTE = 'the `is Ellipsis` restart branch is pinned and dropped (the model has no restart message)'

# per target: params (python name -> (coq binder text, type or None for the callback)), state variables (in order,
# with the type they are declared with), fuel of each inner `while` (in order), pinned statements
#   ('drop',)                                   the statement is not index bookkeeping and has no effect on the step
#   ('let', var, type, coq)                     var := coq
#   ('raw', template with {K}, {var: type})     template around the continuation; sets the types of the listed variables
SPEC = {
    'discard': {
        'params': {'discard_samples': ('(discard_samples : Z)', 'Z'), 'cb': (None, 'target')},
        'state': [('to_discard', 'Z')],
        'pinned': {'if samples is Ellipsis:\n    to_discard = discard_samples\n    cb(samples)\n    continue': ('drop',)},
        'notes': [ELLIPSIS_NOTE]},
    'blocked': {
        'params': {'block_size': ('(block_size : Z)', 'Z'), 'target': (None, 'target')},
        'state': [('data', 'listblk'), ('n', 'Z')],
        'fuel': ['length (dat merged)'],
        'pinned': {'if d is Ellipsis:\n    data = []\n    target(d)\n    continue': ('drop',)},
        'notes': [ELLIPSIS_NOTE, 'fuel of the inner loop: the number of samples of `merged` (each pass must remove one)']},
    'downsample': {
        'params': {'q': ('(q : Z)', 'Z'), 'target': (None, 'target')},
        'state': [('y_remainder', 'optblk'), ('s0', 'optZ')],
        'pinned': {}, 'notes': []},
    'derivative': {
        'params': {'initial_state': ('(sub : A -> A -> A) (init : A)', None), 'target': (None, 'target')},
        'state': [('initial_state', 'blk')],
        'pinned': {
            'initial_shape = list(new_samples.shape)': ('drop',),
            'initial_shape[-1] = 1': ('drop',),
            'initial_state = np.full(initial_shape, fill_value=initial_state)':
                ('let', 'initial_state', 'blk', 'np_full1 new_samples init'),
            'target(np.diff(samples) * samples.fs)':
                ('raw', 'match an samples with\n| None => None (* AttributeError: .fs *)\n| Some _ =>\n'
                        '  let outs := outs ++ [np_diff_fs sub samples] in\n{K}\nend', {})},
        'notes': ['np.full(..) of the first chunk\'s shape with last axis 1 -> np_full1; np.diff(x) * x.fs -> np_diff_fs '
                  '(abstract subtraction `sub`, AttributeError on a plain array)']},
    'decimate': {
        'params': {'q': ('(filt : F -> A -> F * A) (zf0 : F) (q : Z)', 'Z'), 'target': (None, 'target')},
        'tparams': '{F A : Type}',
        'state': [('s0', 'Z'), ('zf', 'F'), ('y_remainder', 'optblk')],
        'pinned': {
            'b, a = signal.cheby1(4, 0.05, 0.8 / q)': ('drop',),
            "if np.any(np.abs(np.roots(a)) > 1):\n    raise ValueError('Unstable filter coefficients')": ('drop',),
            'zf = signal.lfilter_zi(b, a)': ('let', 'zf', 'F', 'zf0'),
            'if y.ndim == 2:\n    zf = zf[np.newaxis]': ('drop',),
            'y_filt, zf = signal.lfilter(b, a, y, zi=zf, axis=-1)':
                ('raw', "let '(y_filt, zf) := lfilter filt zf y in\n{k}", {'y_filt': 'blk', 'zf': 'F'})},
        'notes': ['filter design / stability test / lfilter_zi are pinned: abstract initial state zf0; lfilter -> mapAccum '
                  'of the abstract one-sample recurrence `filt` (plain result, final state)']},
    'rms': {
        'params': {'fs': ('(agg : list A -> O) (s0div : Z -> Z) (s0add : Z -> Z -> Z) (n : Z)', None),
                   'duration': (None, None), 'target': (None, 'target')},
        'tparams': '{A O : Type}', 'out': 'oblk', 'zvars': ['n'],
        'state': [('data', 'listblk'), ('samples', 'Z'), ('out_s0', 'optZ')],
        'pinned': {
            'n = int(round(fs * duration))': ('drop',),
            'samples = sum((d.shape[-1] for d in data))': ('let', 'samples', 'Z', 'sum_len data'),
            'shape = list(data.shape[:-1]) + [n_blocks, n]': ('drop',),
            'd.shape = shape': ('drop',),
            "if d.dtype.kind in 'biu':\n    d = d.astype(np.double)": ('drop',),
            'result = np.mean(d ** 2, axis=-1) ** 0.5': ('let', 'result', 'oblk', 'rms_value agg s0div n n_blocks d'),
            'out_s0 = out_s0 + n_blocks': ('let', 'out_s0', 'Z', 's0add out_s0 n_blocks'),
            'samples += data[-1].shape[-1]':
                ('raw', 'match py_last data with\n| None => None (* IndexError *)\n| Some data_last =>\n'
                        '  let samples := samples + zlen (dat data_last) in\n{K}\nend', {})},
        'notes': ['n = int(round(fs * duration)) -> abstract input n; the reshape / astype(double) / np.mean(d ** 2) ** 0.5 lines '
                  '-> rms_value (abstract block value agg; s0 of the mean = s0div of the s0 of d); the float counter '
                  '`out_s0 + n_blocks` -> abstract s0add (s0div, s0add = s / n, + when n divides the first s0; = s, + n * k '
                  'with s0 kept in input samples, i.e. n times the exact rational value, for every first s0)']},
    'event_rate': {
        'params': {'block_size': ('(block_size : Z)', 'Z'), 'block_step': ('(block_step : Z)', 'Z'),
                   'target': (None, 'target'), 's0_mode': (None, None)},
        'defaults': ["'center'"], 'tparams': '', 'out': 'rblk', 'chunk': 'ev',
        'rename': {'events': 'evts'},
        'state': [('evts', 'ev'), ('s0', 'Z')], 'types': {'blocks': 'listev'},
        'fuel': ['Z.to_nat (e_hi evts - e_lo evts)'],
        'pinned': {
            's0 = events.start + block_size * 0.5': ('let', 's0', 'Z', '2 * e_lo evts + block_size'),
            'fs = events.fs / block_step': ('drop',),
            "keep = events.events['sample'] >= start": ('drop',),
            'events = Events(events.events[keep], start, events.end, events.fs)':
                ('let', 'evts', 'ev', 'trim_left evts start'),
            'rate = [b.rate() for b in blocks]': ('let', 'rate', 'listZ', 'map (fun b => zlen (evs b)) blocks'),
            'data = PipelineData([rate], s0=s0, fs=fs)': ('let', 'data', 'rblk', 'Rb rate s0 block_step'),
            's0 += len(rate)': ('let', 's0', 'Z', 's0 + 2 * zlen rate')},
        'notes': ['Events: .start / .end / .range_samples -> e_lo / e_hi / their difference, get_range_samples -> get_range, '
                  'combine_events -> combine_events of Stages/Model.v; the half-sample s0 (start + block_size * 0.5, += len(rate)) '
                  'is kept DOUBLED as in the model; keep = sample >= start + Events(events[keep], start, end, fs) -> trim_left; '
                  'b.rate() -> the number of events of the window (the factor fs / block_size is not modelled); the emitted '
                  'PipelineData([rate], s0, fs = events.fs / block_step) -> Rb counts s0x2 block_step; fuel of the window '
                  'loop: the span of the held events (block_step >= 1 removes one sample per pass)']},
    'transform': {
        'params': {'function': ('(g : A -> O)', None), 'target': (None, 'target')},
        'tparams': '{A O : Type}', 'out': 'oblk', 'state': [],
        'pinned': {'target(function(data))': ('raw', 'let outs := outs ++ [map_blk g data] in\n{k}', {})},
        'notes': ['function(data) -> map_blk g (an elementwise function g; annotations kept)']},
    'mc_reference': {
        'params': {'matrix': ('(g : A -> O)', None), 'target': (None, 'target')},
        'tparams': '{A O : Type}', 'out': 'oblk', 'state': [],
        'pinned': {'data = matrix @ (yield)': ('let', 'data', 'oblk', 'map_blk g chunk')},
        'notes': ['matrix @ chunk -> map_blk g (a sample = the column of all channels, g = the matrix product)']},
    'iirfilter': {
        'params': {'fs': ('(filt : F -> A -> F * A) (finit : A -> F)', None), 'N': (None, None), 'Wn': (None, None),
                   'rp': (None, None), 'rs': (None, None), 'btype': (None, None), 'ftype': (None, None),
                   'target': (None, 'target')},
        'tparams': '{F A : Type}', 'state': [('zo', 'F')],
        'pinned': {
            'b, a = signal.iirfilter(N, Wn, rp, rs, btype, ftype=ftype, fs=fs)': ('drop',),
            "if np.any(np.abs(np.roots(a)) > 1):\n    raise ValueError('Unstable filter coefficients')": ('drop',),
            'zi = signal.lfilter_zi(b, a)': ('drop',),
            'zo = zi * y[..., :1]':
                ('raw', 'match dat y with\n| [] => None (* no first sample to scale the state with *)\n| y_first :: _ =>\n'
                        '  let zo := finit y_first in\n{K}\nend', {'zo': 'F'}),
            'y_filt, zo = signal.lfilter(b, a, y, zi=zo, axis=-1)':
                ('raw', "let '(y_filt, zo) := lfilter filt zo y in\n{k}", {'y_filt': 'blk', 'zo': 'F'})},
        'notes': ['filter design / stability test / lfilter_zi pinned; zi * y[..., :1] -> the abstract initial state finit of '
                  'the first sample; lfilter -> mapAccum of the abstract recurrence; `while y.shape[-1] == 0: y = (yield)` -> '
                  'the step keeps waiting (state None) on empty chunks']},
    'auto_th': {
        'params': {'n': ('(thr : list A -> T) (ge : T -> A -> O) (baseline_samples : Z)', None), 'baseline': (None, None),
                   'target': (None, 'target'), 'fs': (None, None), 'mode': (None, None), 'auto_th_cb': (None, None),
                   'current_th_cb': (None, None)},
        'defaults': ["'auto'", "'positive'", 'None', 'None'],
        'tparams': '{A T O : Type}', 'out': 'oblk', 'zvars': ['baseline_samples'],
        'state': [('auto_th', 'T')],
        'pinned': {
            "if fs is None or fs == 'auto':\n    fs = data.fs": ('drop',),
            'baseline_samples = int(np.round(baseline * fs))': ('drop',),
            'auto_th = data[..., :baseline_samples].view(np.ndarray).std() * n':
                ('let', 'auto_th', 'T', 'thr (py_slice None (Some baseline_samples) (dat data))'),
            "log.info('Automatic threshold set to %f', auto_th)": ('drop',),
            'if auto_th_cb is not None:\n    auto_th_cb(auto_th)': ('drop',),
            'th = (lambda: auto_th) if current_th_cb is None else current_th_cb': ('drop',),
            "if mode == 'positive':\n    th_cb = lambda d, th=th: d >= th()\nelif mode == 'negative':\n"
            "    th_cb = lambda d, th=th: d <= -th()\nelif mode == 'both':\n"
            "    th_cb = lambda d, th=th: (d >= th()) | (d <= -th())\nelse:\n"
            "    raise ValueError(f'Unsupported mode: \"{mode}\"')": ('drop',),
            'result = th_cb(data)': ('let', 'result', 'oblk', 'map_blk (ge auto_th) data'),
            "if isinstance(result, PipelineData):\n    result.metadata['auto_th'] = th": ('drop',)},
        'notes': ['baseline_samples = int(np.round(baseline * fs)) (fs possibly read from the first chunk) -> abstract input; the '
                  'threshold `data[..., :baseline_samples].std() * n` -> abstract thr of the first baseline_samples samples; the '
                  'comparison lambdas / current_th_cb -> abstract ge; log, auto_th_cb and the metadata entry are dropped; '
                  'state: inl None (nothing received), inl (Some data) (spooling), inr threshold (running)']},
}
# the executable instance (stream positions as sample values, Stages/Model.v) used by the self-test of every translation
CHECKS = {
    'discard': 'Definition gcheck_discard (d : Z) h s0 sizes got : bool :=\n'
               '  eqb_outs (outs_of (run (discard_gen_step d) (@discard_gen_init Z d) (inputs h s0 sizes))) got.',
    'blocked': 'Definition gcheck_blocked (bs : Z) h s0 sizes got : bool :=\n'
               '  eqb_outs (outs_of (run (blocked_gen_step bs) (blocked_gen_init bs) (inputs h s0 sizes))) got.',
    'downsample': 'Definition gcheck_downsample (q : Z) h s0 sizes got : bool :=\n'
                  '  eqb_outs (outs_of (run (downsample_gen_step q) (downsample_gen_init q) (inputs h s0 sizes))) got.',
    'derivative': 'Definition gcheck_derivative h s0 sizes got : bool :=\n'
                  '  eqb_outs (outs_of (run (derivative_gen_step ssub (-1)) None (inputs h s0 sizes))) got.',
    'decimate': 'Definition gcheck_decimate (q : Z) h s0 sizes got : bool :=\n'
                '  eqb_outs (outs_of (run (decimate_gen_step sfilt 0 q) None (inputs h s0 sizes))) got.',
    'rms': 'Definition gcheck_rms (n : Z) h s0 sizes got : bool :=\n'
           '  eqb_outs (outs_of (run (rms_gen_step (sagg n) (fun s => s / n) Z.add n) None (inputs h s0 sizes))) got.\n'
           'Definition gcheck_rms_x (n : Z) h s0 sizes got : bool :=\n'
           '  eqb_outs (outs_of (run (rms_gen_step (sagg n) (fun s => s) (fun t k => t + n * k) n) None (inputs h s0 sizes))) got.',
    'event_rate': 'Definition gcheck_event_rate (bsz stp : Z) (cs : list events) (got : option (list rblk)) : bool :=\n'
                  '  eqb_option (eqb_list eqb_rblk) (outs_of (run (event_rate_gen_step bsz stp) None cs)) got.',
    'transform': 'Definition gcheck_transform h s0 sizes got : bool :=\n'
                 '  eqb_outs (outs_of (run (transform_gen_step (fun x : Z => x)) (transform_gen_init (fun x : Z => x)) (inputs h s0 sizes))) got.',
    'mc_reference': 'Definition gcheck_mc_reference h s0 sizes got : bool :=\n'
                    '  eqb_outs (outs_of (run (mc_reference_gen_step (fun x : Z => x)) (mc_reference_gen_init (fun x : Z => x)) (inputs h s0 sizes))) got.',
    'iirfilter': 'Definition gcheck_iirfilter h s0 sizes got : bool :=\n'
                 '  eqb_outs (outs_of (run (iirfilter_gen_step sfilt sfinit) None (inputs h s0 sizes))) got.',
    'auto_th': 'Definition gcheck_auto_th (Bn : Z) (table : list Z) h s0 sizes got : bool :=\n'
               '  eqb_outs (outs_of (run (auto_th_gen_step (sthr Bn) (sge table) Bn) (inl None) (inputs h s0 sizes))) got.',
}
TYPES = {'Z': 'Z', 'blk': 'blk A', 'optblk': 'option (blk A)', 'optZ': 'option Z', 'listblk': 'list (blk A)', 'F': 'F',
         'oblk': 'blk O', 'ev': 'events', 'listev': 'list events', 'listZ': 'list Z', 'rblk': 'rblk', 'T': 'T',
         'listoblk': 'list (blk O)', 'listrblk': 'list rblk'}
OPT_OF = {'blk': 'optblk', 'Z': 'optZ'}
ARR = ('blk', 'oblk')                                  # arrays (plain or annotated)
LIST_OF = {'blk': 'listblk', 'ev': 'listev', 'Z': 'listZ', 'oblk': 'listoblk', 'rblk': 'listrblk'}
EV_ATTR = {'start': 'e_lo {}', 'end': 'e_hi {}', 'range_samples': '(e_hi {0} - e_lo {0})'}
ANN_ATTR = {'s0': ('a_s0', 'Z'), 'fs': ('a_fsd', 'fsd'), 'channel': ('a_ch', 'ch'), 'metadata': ('a_md', 'md')}
CMP = {ast.Eq: '({} =? {})', ast.NotEq: 'negb ({} =? {})', ast.Lt: '({} <? {})', ast.LtE: '({} <=? {})',
       ast.Gt: '({} >? {})', ast.GtE: '({} >=? {})'}
ARITH = {ast.Add: '+', ast.Sub: '-', ast.Mult: '*'}


class Env:
    """flow-sensitive: variable -> type for the variables DEFINED on this path; ann: variables known to be
    PipelineData here (inside `if isinstance(x, PipelineData)`) -> the name of their annotation record"""
    def __init__(self, ty, ann=None):
        self.ty, self.ann = dict(ty), dict(ann or {})

    def copy(self):
        return Env(self.ty, self.ann)

    def set(self, v, t):
        if v in RESERVED or not v.isidentifier():
            raise TranslatorGap(f'variable name `{v}` collides with the emitted vocabulary')
        self.ty[v] = t
        self.ann.pop(v, None)


def coerce(v, have, want):
    if have == want:
        return v
    if OPT_OF.get(have) == want:
        return f'Some {v}'
    raise TranslatorGap(f'`{v}` has type {have} where {want} is needed')


def join(a, b, v):
    if a == b:
        return a
    if OPT_OF.get(a) == b:
        return b
    if OPT_OF.get(b) == a:
        return a
    raise TranslatorGap(f'`{v}` has types {a} and {b} on two branches')


def ind(text):
    return '\n'.join('  ' + l for l in text.split('\n'))


def par(x):
    return f'({x})' if ' ' in x and not (x.startswith('(') and x.endswith(')') and x.count('(') == 1) else x


def tup(names):
    return 'tt' if not names else par(names[0]) if len(names) == 1 else '(' + ', '.join(names) + ')'


def pat(names):
    return '_' if not names else names[0] if len(names) == 1 else "'(" + ', '.join(names) + ')'


def is_yield(s):
    return (isinstance(s, ast.Assign) and len(s.targets) == 1 and isinstance(s.targets[0], ast.Name)
            and isinstance(s.value, ast.Yield) and s.value.value is None)


def has_yield(nodes):
    return any(isinstance(n, (ast.Yield, ast.YieldFrom, ast.Await)) for s in nodes for n in ast.walk(s))


def assigned(stmts):
    out = set()
    for s in stmts:
        for n in ast.walk(s):
            if isinstance(n, ast.Name) and isinstance(n.ctx, ast.Store):
                out.add(n.id)
            elif isinstance(n, ast.Attribute) and isinstance(n.ctx, ast.Store) and isinstance(n.value, ast.Name):
                out.add(n.value.id)
            elif isinstance(n, ast.Call) and isinstance(n.func, ast.Attribute) and isinstance(n.func.value, ast.Name):
                out.add(n.func.value.id)        # x.append(..)
    return out


class Coro:
    def __init__(self, name, fn, spec):
        self.name, self.fn, self.spec = name, fn, spec
        for n in ast.walk(fn):                          # pinned statements are matched by their ORIGINAL text
            if isinstance(n, ast.stmt):
                n._src = ast.unparse(n)
        for n in ast.walk(fn):                          # variables whose name is taken in Coq are renamed in the emitted text
            if isinstance(n, ast.Name) and n.id in spec.get('rename', {}):
                n.id = spec['rename'][n.id]
        self.targets = {p for p, (_, t) in spec['params'].items() if t == 'target'}
        self.zparams = [p for p, (_, t) in spec['params'].items() if t == 'Z']
        self.pinned_seen = {k: 0 for k in spec['pinned']}
        self.aux, self.nloop, self.may_fail = [], 0, False
        self.tparams = spec.get('tparams', '{A : Type}')
        self.out = spec.get('out', 'blk')                  # type of what is passed to the target
        self.chunk_type = spec.get('chunk', 'blk')
        self.declared = {**dict(spec['state']), **spec.get('types', {})}
        self.allow_yield = False
        self.binders = ' '.join(b for b, _ in spec['params'].values() if b)
        self.args = ' '.join(w.split(':')[0].strip() for b, _ in spec['params'].values() if b
                             for w in b.strip('()').split(') ('))

    # ---------------------------------------------------------------- expressions
    def z(self, e, env):
        t, ty = self.expr(e, env)
        if ty != 'Z':
            gap(e, f'integer expected, got {ty}')
        return t

    def bound(self, e, env):
        return 'None' if e is None else f'(Some {self.z(e, env)})'

    def expr(self, e, env):
        if isinstance(e, ast.Constant) and type(e.value) is int:
            return (str(e.value) if e.value >= 0 else f'({e.value})'), 'Z'
        if isinstance(e, ast.Name):
            if e.id in env.ty:
                return e.id, env.ty[e.id]
            gap(e, 'name that is not a defined variable of a known type')
        if isinstance(e, ast.UnaryOp) and isinstance(e.op, ast.USub):
            if isinstance(e.operand, ast.Constant) and type(e.operand.value) is int and e.operand.value > 0:
                return f'(-{e.operand.value})', 'Z'
            return f'(- {self.z(e.operand, env)})', 'Z'
        if isinstance(e, ast.BinOp) and type(e.op) in ARITH:
            return f'({self.z(e.left, env)} {ARITH[type(e.op)]} {self.z(e.right, env)})', 'Z'
        if isinstance(e, ast.Compare) and len(e.ops) == 1 and type(e.ops[0]) in CMP:
            return CMP[type(e.ops[0])].format(self.z(e.left, env), self.z(e.comparators[0], env)), 'bool'
        if isinstance(e, ast.Yield) and e.value is None and self.allow_yield:
            return 'chunk', self.chunk_type
        if isinstance(e, ast.List) and e.elts and all(isinstance(x, (ast.Name, ast.Yield)) for x in e.elts):
            parts = [self.expr(x, env) for x in e.elts]
            if len({ty for _, ty in parts}) != 1 or parts[0][1] not in LIST_OF:
                gap(e, 'list literal of mixed / unknown element types')
            return '[' + '; '.join(t for t, _ in parts) + ']', LIST_OF[parts[0][1]]
        if isinstance(e, ast.Attribute) and isinstance(e.value, ast.Name) and e.attr in EV_ATTR \
                and env.ty.get(e.value.id) == 'ev':
            return EV_ATTR[e.attr].format(e.value.id), 'Z'
        if isinstance(e, ast.Subscript):
            v = e.value
            # x.shape[-1]
            if (isinstance(v, ast.Attribute) and v.attr == 'shape' and isinstance(v.value, ast.Name)
                    and ast.unparse(e.slice) == '-1'):
                return f'zlen (dat {self.blk(v.value, env)})', 'Z'
            # x[..., a:b:c]
            if (isinstance(v, ast.Name) and isinstance(e.slice, ast.Tuple) and len(e.slice.elts) == 2
                    and isinstance(e.slice.elts[0], ast.Constant) and e.slice.elts[0].value is Ellipsis
                    and isinstance(e.slice.elts[1], ast.Slice)):
                s = e.slice.elts[1]
                return (f'getitem {self.bound(s.lower, env)} {self.bound(s.upper, env)} {self.bound(s.step, env)} '
                        f'{self.blk(v, env)}'), 'blk'
            gap(e, 'subscript other than x.shape[-1] / x[..., a:b:c]')
        if isinstance(e, ast.Attribute) and isinstance(e.value, ast.Name) and e.attr in ANN_ATTR:
            if e.value.id not in env.ann:
                gap(e, 'annotation read outside `if isinstance(.., PipelineData)`')
            f, ty = ANN_ATTR[e.attr]
            return f'{f} {env.ann[e.value.id]}', ty
        if isinstance(e, ast.Call) and isinstance(e.func, ast.Name):
            f, a, kw = e.func.id, e.args, {k.arg: k.value for k in e.keywords}
            if f == 'getattr' and len(a) == 3 and not kw and ast.unparse(a[1]) == "'s0'" and ast.unparse(a[2]) == '0':
                return f's0_of {self.blk(a[0], env)}', 'Z'
            if f == 'PipelineData' and None not in kw:
                names = ['arr', 'fs', 's0', 'channel', 'metadata']
                got = dict(zip(names, a))
                if set(got) & set(kw) or set(got) | set(kw) != set(names):
                    gap(e, 'PipelineData(..) must be given arr, fs, s0, channel, metadata exactly once each')
                got.update(kw)
                parts = [self.blk(got['arr'], env)]
                for k, want in (('fs', 'fsd'), ('s0', 'Z'), ('channel', 'ch'), ('metadata', 'md')):
                    t, ty = self.expr(got[k], env)
                    if ty != want:
                        gap(got[k], f'{k}= of PipelineData: {want} expected, got {ty}')
                    parts.append(t if t.startswith('(') else f'({t})')
                return 'new_pd ' + ' '.join(parts), 'blk'
        gap(e, 'expression not covered')

    def blk(self, e, env, want=('blk',)):
        t, ty = self.expr(e, env)
        if ty not in want:
            gap(e, f'{"/".join(want)} expected, got {ty}')
        return t if isinstance(e, (ast.Name, ast.Yield)) else f'({t})'

    # ---------------------------------------------------------------- statements
    def block(self, stmts, env, ret):
        """Coq text of the statements followed by ret(env) (the continuation at the end of the block)"""
        if not stmts:
            return ret(env)
        s, rest = stmts[0], stmts[1:]
        K = lambda e: self.block(rest, e, ret)
        text = s._src
        if isinstance(s, ast.Expr) and isinstance(s.value, ast.Constant) and isinstance(s.value.value, str):
            return K(env)                                             # docstring
        if text in self.spec['pinned']:
            self.pinned_seen[text] += 1
            act = self.spec['pinned'][text]
            if act[0] == 'drop':
                return K(env)
            env = env.copy()
            if act[0] == 'let':
                _, v, ty, coq = act
                env.set(v, ty)
                return f'let {v} := {coq} in\n' + K(env)
            _, tmpl, sets = act
            for v, ty in sets.items():
                env.set(v, ty)
            k = K(env)
            return tmpl.replace('{K}', ind(k)).replace('{k}', k)
        if isinstance(s, (ast.Assign, ast.AugAssign, ast.Expr)):
            for n in ast.walk(s):
                if (isinstance(n, ast.Attribute) and isinstance(n.ctx, ast.Load) and n.attr in ANN_ATTR
                        and isinstance(n.value, ast.Name) and env.ty.get(n.value.id) in ARR and n.value.id not in env.ann):
                    x = n.value.id                  # x.fs / .s0 / .channel / .metadata of something not known to be annotated
                    env = env.copy()
                    env.ann[x] = x + '_an'
                    self.may_fail = True
                    return (f'match an {x} with\n| None => None (* AttributeError *)\n| Some {x}_an =>\n' +
                            ind(self.block(stmts, env, ret)) + '\nend')
        if has_yield([s]):
            if is_yield(s):                                           # x = (yield): positions were checked by shape()
                env = env.copy()
                env.set(s.targets[0].id, self.chunk_type)
                if rest and isinstance(rest[0], ast.Continue):
                    if len(rest) != 1 or not self.rotated:
                        gap(rest[0], '`continue` only directly after the `(yield)` that ends a step')
                    if s.targets[0].id != self.chunk_var:
                        gap(s, 'every (yield) of a rotated loop must assign the same variable')
                    return self.end_step(env)                         # the step ends here; the next one starts the loop
                if self.rotated and not self.allow_yield:
                    gap(s, '(yield) in an unknown position')
                return f'let {s.targets[0].id} := chunk in\n' + K(env)
            if not isinstance(s, ast.If) and not self.allow_yield:
                gap(s, '(yield) in an unknown position')
        if isinstance(s, ast.Assign) and len(s.targets) == 1:
            tg, val = s.targets[0], s.value
            if isinstance(tg, ast.Attribute) and tg.attr in ('s0', 'channel') and isinstance(tg.value, ast.Name):
                x = tg.value.id                                       # x.s0 = e / x.channel = e (only on a known PipelineData)
                if x not in env.ann:
                    gap(s, 'x.s0 / x.channel = .. outside `if isinstance(x, PipelineData)`')
                t, ty = self.expr(val, env)
                if ty != ANN_ATTR[tg.attr][1]:
                    gap(s, f'value of type {ty} stored in .{tg.attr}')
                a, xty = env.ann[x], env.ty[x]
                env = env.copy()
                env.set(x, xty)
                text = f'let {x} := {"set_s0" if tg.attr == "s0" else "set_ch"} {par(t)} {x} in\n'
                if any(isinstance(n, ast.Attribute) and isinstance(n.value, ast.Name) and n.value.id == x
                       and n.attr in ANN_ATTR and n.lineno > s.lineno for n in ast.walk(self.fn)):
                    # x is used as a PipelineData again: its annotation record with the stored field replaced
                    f = ' '.join(par(t) if k == tg.attr else f'({ANN_ATTR[k][0]} {a})'
                                 for k in ('s0', 'fs', 'channel', 'metadata'))
                    text += f'let {a} := An {f} in\n'
                    env.ann[x] = a
                return text + K(env)
            if not isinstance(tg, ast.Name):
                gap(s, 'assignment target not covered')
            v = tg.id
            if isinstance(val, ast.List) and not val.elts:
                ty = self.declared.get(v)
                if ty not in LIST_OF.values():
                    gap(s, '`= []` for a variable that is not declared as a list')
                env = env.copy()
                env.set(v, ty)
                return f'let {v} := [] in\n' + K(env)
            if isinstance(val, ast.Constant) and val.value is None:
                ty = self.declared.get(v)
                if ty not in ('optblk', 'optZ'):
                    gap(s, '`= None` for a variable that is not declared optional')
                env = env.copy()
                env.set(v, ty)
                return f'let {v} : {TYPES[ty]} := None in\n' + K(env)
            opt = self.partial(val, env)
            if opt:                                                   # x = concat(..) | a % b | a // b : may raise
                self.may_fail = True
                env = env.copy()
                env.set(v, opt[1])
                return f'match {opt[0]} with\n| None => None\n| Some {v} =>\n' + ind(K(env)) + '\nend'
            t, ty = self.expr(val, env)
            if ty not in TYPES:
                gap(s, f'value of type {ty} cannot be stored')
            env = env.copy()
            env.set(v, ty)
            return f'let {v} := {t} in\n' + K(env)
        if isinstance(s, ast.AugAssign) and isinstance(s.target, ast.Name) and type(s.op) in (ast.Add, ast.Sub):
            v = s.target.id
            if env.ty.get(v) != 'Z':
                gap(s, 'augmented assignment to something that is not a defined integer')
            t = self.z(s.value, env)
            return f'let {v} := {v} {ARITH[type(s.op)]} {t} in\n' + K(env)
        if isinstance(s, ast.Expr) and isinstance(s.value, ast.Call) and not s.value.keywords and len(s.value.args) == 1:
            c = s.value
            if isinstance(c.func, ast.Name) and c.func.id in self.targets:
                return f'let outs := outs ++ [{self.blk(c.args[0], env, (self.out,))}] in\n' + K(env)
            if (isinstance(c.func, ast.Attribute) and c.func.attr == 'append' and isinstance(c.func.value, ast.Name)
                    and env.ty.get(c.func.value.id) in LIST_OF.values()):
                v = c.func.value.id
                elem = [k for k, l in LIST_OF.items() if l == env.ty[v]]
                return f'let {v} := {v} ++ [{self.blk(c.args[0], env, elem)}] in\n' + K(env)
            gap(s, 'call statement not covered')
        if isinstance(s, ast.If):
            return self.if_(s, rest, env, ret)
        if isinstance(s, ast.While):
            return self.while_(s, rest, env, ret)
        gap(s, 'statement not covered')

    def partial(self, val, env):
        if isinstance(val, ast.BinOp) and isinstance(val.op, (ast.Mod, ast.FloorDiv)):
            f = 'py_mod' if isinstance(val.op, ast.Mod) else 'py_floordiv'
            return f'{f} ({self.z(val.left, env)}) ({self.z(val.right, env)})', 'Z'
        if (isinstance(val, ast.Call) and isinstance(val.func, ast.Attribute) and val.func.attr == 'get_range_samples'
                and isinstance(val.func.value, ast.Name) and env.ty.get(val.func.value.id) == 'ev'
                and len(val.args) == 2 and not val.keywords):       # ValueError outside the span
            return f'get_range {val.func.value.id} {par(self.z(val.args[0], env))} {par(self.z(val.args[1], env))}', 'ev'
        if (isinstance(val, ast.Call) and isinstance(val.func, ast.Name) and val.func.id == 'combine_events'
                and len(val.args) == 1 and not val.keywords and isinstance(val.args[0], ast.Tuple)
                and len(val.args[0].elts) == 2):                    # ValueError when the spans are not adjacent
            a, b = (self.blk(x, env, ('ev',)) for x in val.args[0].elts)
            return f'combine_events {a} {b}', 'ev'
        if isinstance(val, ast.Call) and isinstance(val.func, ast.Name) and val.func.id == 'concat':
            if len(val.args) != 1 or [(k.arg, ast.unparse(k.value)) for k in val.keywords] != [('axis', '-1')]:
                gap(val, 'concat must be called as concat(arrays, axis=-1)')
            a = val.args[0]
            if isinstance(a, ast.Tuple) and len(a.elts) == 2:
                return f'concat2 {self.blk(a.elts[0], env)} {self.blk(a.elts[1], env)}', 'blk'
            t, ty = self.expr(a, env)
            if ty != 'listblk':
                gap(a, 'concat of something that is not a pair / a list of arrays')
            return f'concat_list {t}', 'blk'
        return None

    def test(self, t, env):
        """(head, then-arm prefix, else-arm prefix, tail, env of then, env of else)"""
        et, ef = env.copy(), env.copy()
        if isinstance(t, ast.Compare) and len(t.ops) == 1 and isinstance(t.ops[0], (ast.Is, ast.IsNot)) \
                and isinstance(t.left, ast.Name) and ast.unparse(t.comparators[0]) == 'None':
            v = t.left.id
            ty = env.ty.get(v)
            if ty not in ('optblk', 'optZ'):
                gap(t, '`is None` on a variable that is not optional here')
            some = et if isinstance(t.ops[0], ast.IsNot) else ef
            some.set(v, {'optblk': 'blk', 'optZ': 'Z'}[ty])
            if isinstance(t.ops[0], ast.Is):
                return f'match {v} with\n| None =>\n', '', f'\n| Some {v} =>\n', '\nend', et, ef
            return f'match {v} with\n| Some {v} =>\n', '', '\n| None =>\n', '\nend', et, ef
        if isinstance(t, ast.Call) and isinstance(t.func, ast.Name) and not t.keywords:
            if t.func.id == 'isinstance' and len(t.args) == 2 and isinstance(t.args[0], ast.Name) \
                    and ast.unparse(t.args[1]) == 'PipelineData':
                v = self.blk(t.args[0], env, ARR)
                et.ann[v] = v + '_an'
                if v + '_an' in env.ty:
                    gap(t, 'name clash')
                return f'match an {v} with\n| Some {v}_an =>\n', '', '\n| None =>\n', '\nend', et, ef
            if t.func.id == 'len' and len(t.args) == 1:
                return f'if py_len_true {self.blk(t.args[0], env)} then\n', '', '\nelse\n', '', et, ef
        c, ty = self.expr(t, env)
        if isinstance(t, ast.Name) and ty in LIST_OF.values():      # truth of a list
            return f'match {c} with\n| _ :: _ =>\n', '', '\n| [] =>\n', '\nend', et, ef
        if ty != 'bool':
            gap(t, 'condition not covered')
        return f'if {c} then\n', '', '\nelse\n', '', et, ef

    def if_(self, s, rest, env, ret):
        head, pt, pf, tail, et, ef = self.test(s.test, env)
        if not rest:                                                  # last statement: both arms run into ret
            return head + ind(self.block(s.body, et, ret)) + pf + ind(self.block(s.orelse, ef, ret)) + tail
        # first pass: learn where each arm ends (types of the variables there) and whether it can raise
        seen = {0: [], 1: []}
        saved, self.may_fail = self.may_fail, False
        snap = len(self.aux), self.nloop, dict(self.pinned_seen)
        for k, (arm, e) in enumerate(((s.body, et), (s.orelse, ef))):
            self.block(arm, e, lambda e2, k=k: seen[k].append(e2) or '')
        fails = self.may_fail
        del self.aux[snap[0]:]
        self.nloop, self.pinned_seen, self.may_fail = snap[1], snap[2], saved
        if not seen[0] or not seen[1]:
            # an arm that always leaves the step (`x = (yield); continue`): the rest belongs to the other arm only
            if not seen[0] and not seen[1]:
                gap(s, 'both arms of an `if` leave the step')
            return (head + ind(self.block(s.body + (rest if seen[0] else []), et, ret)) +
                    pf + ind(self.block(s.orelse + (rest if seen[1] else []), ef, ret)) + tail)
        # joined on the variables assigned in either arm and defined at the end of both
        ends = seen[0] + seen[1]
        cand = sorted(assigned(s.body) | assigned(s.orelse) | ({'outs'} if self.calls_target(s) else set()))
        vs = [v for v in cand if all(v in e2.ty for e2 in ends)]
        if not vs:
            gap(s, '`if` that assigns nothing and is not the last statement')
        ty = {}
        for v in vs:
            ty[v] = ends[0].ty[v]
            for e2 in ends[1:]:
                ty[v] = join(ty[v], e2.ty[v], v)
        leaf = lambda e2: ('Some ' if fails else '') + tup([coerce(v, e2.ty[v], ty[v]) for v in vs])
        both = head + ind(self.block(s.body, et, leaf)) + pf + ind(self.block(s.orelse, ef, leaf)) + tail
        after = env.copy()
        for v in vs:
            after.set(v, ty[v])
        self.may_fail = self.may_fail or fails
        K = self.block(rest, after, ret)
        if fails:
            return f'match (\n{ind(both)}\n) with\n| None => None\n| Some {tup(vs)} =>\n{ind(K)}\nend'
        return f'let {pat(vs)} := (\n{ind(both)}\n) in\n{K}'

    def calls_target(self, s):
        return any(isinstance(n, ast.Call) and isinstance(n.func, ast.Name) and n.func.id in self.targets
                   for n in ast.walk(s))

    def while_(self, s, rest, env, ret):
        if s.orelse or has_yield([s]):
            gap(s, 'inner while with else / yield')
        fuels = self.spec.get('fuel', [])
        if self.nloop >= len(fuels):
            gap(s, 'inner `while` without a fuel entry')
        fuel = fuels[self.nloop]
        self.nloop += 1
        fname = f'{self.name}_gen_loop{self.nloop}'
        carried = sorted(v for v in assigned(s.body) | ({'outs'} if self.calls_target(s) else set()) if v in env.ty)
        if not carried:
            gap(s, 'loop that changes nothing')
        used = {n.id for n in ast.walk(s) if isinstance(n, ast.Name)}
        extra = sorted(v for v in used if v in env.ty and v not in carried and v not in self.spec['params'])
        c, ty = self.expr(s.test, env)
        if ty != 'bool':
            gap(s.test, 'loop condition not covered')
        inner = Env({v: env.ty[v] for v in carried + extra + self.zparams})
        call = lambda e2: (f'{fname} fuel {self.args} ' + ' '.join(extra + [
            ('(' + coerce(v, e2.ty[v], env.ty[v]) + ')') for v in carried])).replace('  ', ' ')
        body = self.block(s.body, inner, call)
        bind = ' '.join(f'({v} : {TYPES[env.ty[v]]})' for v in extra + carried)
        self.aux.append(
            f'Fixpoint {fname} {self.tparams} (fuel : nat) {self.binders} {bind}\n'
            f'  : option ({" * ".join(TYPES[env.ty[v]] for v in carried)}) :=\n'
            f'  if {c} then\n    match fuel with\n    | O => None (* the loop does not terminate *)\n    | S fuel =>\n{ind(ind(ind(body)))}\n    end\n'
            f'  else Some {tup(carried)}.')
        self.may_fail = True
        for w in fuel.replace('(', ' ').replace(')', ' ').split():
            if w not in ('length', 'dat', 'S', 'Z.to_nat', 'zlen', 'e_hi', 'e_lo', '-', '+') and w not in env.ty:
                raise TranslatorGap(f'fuel `{fuel}` mentions `{w}`, which is not defined at the loop')
        K = self.block(rest, env, ret)          # same types as at the entry (coerced at every back edge)
        return (f'match {fname} ({fuel}) {self.args} ' + ' '.join(extra + carried) +
                f' with\n| None => None\n| Some {tup(carried)} =>\n{ind(K)}\nend')

    # ---------------------------------------------------------------- coroutine shape
    def end_step(self, env):
        names = [v for v, _ in self.state if v != self.chunk_var]
        vals = []
        for v, ty in self.state:
            if v == self.chunk_var:
                continue
            if v not in env.ty:
                raise TranslatorGap(f'state variable `{v}` is not defined at the end of a step')
            vals.append(coerce(v, env.ty[v], ty))
        assert len(names) == len(vals)
        if self.spool:
            return f'Some (inr {tup(vals)}, outs)'
        return f'Some (Some {tup(vals)}, outs)' if self.rotated else f'Some ({tup(vals)}, outs)'

    def spooled(self, pro, lb, ys, penv, otype):
        """P0; x = (yield); P1; while <test on x>: x = <x joined with (yield)>; P2; while True: B; x = (yield)
        three phases: nothing received yet = inl None; spooling = inl (Some x); running = inr (state variables)"""
        yp, w = pro[ys[0]], pro[ys[1]]
        if not is_yield(yp) or not lb or not is_yield(lb[-1]) or lb[-1].targets[0].id != yp.targets[0].id \
                or any(has_yield([st_]) and not isinstance(st_, ast.If) for st_ in lb[:-1]):
            gap(w, 'a spooling coroutine must receive with the same `x = (yield)` before the spooling loop and at the end of the main loop')
        x = self.chunk_var = yp.targets[0].id
        if (w.orelse or len(w.body) != 1 or has_yield([w.test]) or not isinstance(w.body[0], ast.Assign)
                or [ast.unparse(t) for t in w.body[0].targets] != [x]):
            gap(w, 'a spooling loop must be `while <test>: x = <one statement that receives a chunk>`')
        if x in dict(self.state):
            gap(w, 'the chunk variable cannot be a state variable')
        p0, p1, p2 = pro[:ys[0]], pro[ys[0] + 1:ys[1]], pro[ys[1] + 1:]
        if any(self.calls_target(st_) for st_ in p1 + [w] + p2):
            gap(w, 'target called before the main loop')
        got = {}
        t0 = self.block(p0, penv, lambda e: got.setdefault('env', e) and '')
        if t0.strip() or set(got['env'].ty) != set(penv.ty):
            gap(self.fn, 'statements before the first (yield) must all be pinned and dropped')
        names = [v for v, _ in self.state]
        xt = TYPES[self.chunk_type]
        sty = ' * '.join(TYPES[t] for v, t in self.state) or 'unit'
        stype = f'option ({xt}) + ' + (f'({sty})' if '*' in sty else sty)
        res = f'option (({stype}) * {otype})'
        only_x = lambda e: set(e.ty) == set(penv.ty) | {x}
        # the main loop
        body = self.block(lb[:-1], Env({**penv.ty, **dict(self.state), x: self.chunk_type}), self.end_step)
        binds = ' '.join(f'({v} : {TYPES[t]})' for v, t in self.state)
        defs = list(self.aux)
        defs.append(f'Definition {self.name}_gen_body {self.tparams} {self.binders} {binds} ({x} : {xt})\n'
                    f'  : {res} :=\n' + ind(f'let outs : {otype} := [] in\n{body}') + '.')

        # the test of the spooling loop, then P2 and the first pass of the main loop
        def enter(e):
            for v in names:
                if v not in e.ty:
                    raise TranslatorGap(f'state variable `{v}` is not set when the loop is entered')
            extra_locals = set(e.ty) - set(penv.ty) - set(names) - {x}
            if extra_locals:
                raise TranslatorGap(f'locals that are not declared state: {sorted(extra_locals)}')
            return (f'{self.name}_gen_body {self.args} ' +
                    ' '.join('(' + coerce(v, e.ty[v], dict(self.state)[v]) + ')' for v in names) + f' {x}')
        e1 = penv.copy()
        e1.set(x, self.chunk_type)
        c, ty = self.expr(w.test, e1)
        if ty != 'bool':
            gap(w.test, 'condition not covered')
        go = self.block(p2, e1, enter)
        defs.append(f'Definition {self.name}_gen_spool {self.tparams} {self.binders} ({x} : {xt})\n  : {res} :=\n' +
                    ind(f'if {c} then\n  Some (inl (Some {x}), []) (* keeps spooling *)\nelse\n' + ind(go)) + '.')

        def to_spool(e):
            self.allow_yield = False
            if not only_x(e):
                raise TranslatorGap('only the chunk variable may be carried through the spooling loop')
            return f'{self.name}_gen_spool {self.args} {x}'
        self.allow_yield = True
        first = self.block([yp], penv.copy(), lambda e: (setattr(self, 'allow_yield', False), self.block(p1, e, to_spool))[1])
        self.allow_yield = True
        acc = self.block(w.body, e1.copy(), to_spool)
        self.allow_yield = False
        defs.append(f'Definition {self.name}_gen_step {self.tparams} {self.binders} (st : {stype}) (chunk : {xt})\n'
                    f'  : {res} :=\n  match st with\n  | inl None =>\n' + ind(ind(first)) +
                    f'\n  | inl (Some {x}) =>\n' + ind(ind(acc)) +
                    f'\n  | inr {pat(names).lstrip(chr(39))} =>\n    {self.name}_gen_body {self.args} {" ".join(names)} chunk\n  end.')
        return defs

    def translate(self):
        fn, spec = self.fn, self.spec
        if [ast.unparse(d) for d in fn.decorator_list] != ['coroutine']:
            gap(fn, 'not decorated with exactly @coroutine')
        a = fn.args
        if (a.vararg or a.kwarg or a.kwonlyargs or a.posonlyargs
                or [ast.unparse(d) for d in a.defaults] != spec.get('defaults', [])
                or [x.arg for x in a.args] != list(spec['params'])):
            gap(fn, f'parameters are not {list(spec["params"])}')
        body = [s for s in fn.body]
        loops = [i for i, s in enumerate(body) if isinstance(s, ast.While)]
        if not loops or loops[-1] != len(body) - 1:
            gap(fn, 'the body must end with `while True:`')
        pro, loop = body[:-1], body[-1]
        if ast.unparse(loop.test) != 'True' or loop.orelse:
            gap(loop, 'main loop is not `while True:`')
        if any(isinstance(n, (ast.Break, ast.Return)) for n in ast.walk(fn)):
            gap(fn, 'break / return')
        self.state = list(spec['state'])
        penv = Env({p: t for p, (_, t) in spec['params'].items() if t == 'Z'})
        for v in spec.get('zvars', []):                    # integers computed from float arguments: abstract inputs
            penv.ty[v] = 'Z'
        self.zparams += spec.get('zvars', [])
        penv.ty['outs'] = LIST_OF[self.out]
        otype = TYPES[LIST_OF[self.out]]
        ys = [i for i, s in enumerate(pro) if has_yield([s])]
        lb = loop.body
        self.rotated = bool(ys)
        self.spool = (len(ys) == 2 and isinstance(pro[ys[1]], ast.While) and ys[1] > ys[0] + 1)
        sty = ' * '.join(TYPES[t] for v, t in self.state) or 'unit'
        sty1 = f'option ({sty})' if self.rotated else (f'({sty})' if '*' in sty else sty)
        res = f'option ({sty1} * {otype})'
        defs = []
        if self.spool:
            defs = self.spooled(pro, lb, ys, penv, otype)
        elif not self.rotated:
            # P0; while True: x = (yield); B      or      while True: if <pure test>: x = (yield).. else: y = (yield)..
            self.chunk_var = None
            first = lb[0] if lb else None
            if is_yield(first) or (first is not None and first._src in spec['pinned']):
                ok = not has_yield(lb[1:])
            else:
                ok = (isinstance(first, ast.If) and first.orelse and is_yield(first.body[0]) and is_yield(first.orelse[0])
                      and not has_yield(first.body[1:] + first.orelse[1:] + lb[1:])
                      and not has_yield([first.test]) and not any(isinstance(n, ast.Call) for n in ast.walk(first.test)))
            if not ok:
                gap(loop, 'every pass of the loop must start by receiving exactly one chunk with `x = (yield)`')
            got = {}
            init = self.block(pro, penv, lambda e: got.setdefault('env', e) and '')
            e0 = got['env']
            for v, ty in self.state:
                if v not in e0.ty:
                    raise TranslatorGap(f'state variable `{v}` is not set before the loop')
            extra_locals = set(e0.ty) - set(penv.ty) - {v for v, _ in self.state}
            if extra_locals:
                raise TranslatorGap(f'locals before the loop that are not declared state: {sorted(extra_locals)}')
            ret0 = lambda e: tup([coerce(v, e.ty[v], ty) for v, ty in self.state])
            init = self.block(pro, penv, ret0)
            for k in self.pinned_seen:
                self.pinned_seen[k] = 0
            del self.aux[:]
            self.nloop = 0
            senv = Env({**penv.ty, **dict(self.state)})
            step = self.block(lb, senv, self.end_step)
            names = [v for v, _ in self.state]
            defs.append(f'Definition {self.name}_gen_init {self.tparams} {self.binders} : {sty} :=\n{ind(init)}.')
            defs += self.aux
            defs.append(f'Definition {self.name}_gen_step {self.tparams} {self.binders} (st : {sty}) (chunk : {TYPES[self.chunk_type]})\n'
                        f'  : {res} :=\n' + ind(f'let {pat(names)} := st in\nlet outs : {otype} := [] in\n{step}') + '.')
        else:
            # P0; <receive the first chunk>; [while <test>: x = (yield)]; P1;
            # while True: B_pre; <receive the next chunk>; B_post          (a step runs from one (yield) to the next)
            yp = pro[ys[0]]
            ks = [i for i, st_ in enumerate(lb) if has_yield([st_]) and not isinstance(st_, (ast.If, ast.While))]
            if len(ks) != 1 or has_yield(lb[ks[0] + 1:]) or isinstance(yp, (ast.If, ast.While)):
                gap(loop, 'a loop primed before `while True:` must receive the next chunk in exactly one top-level statement')
            yl, b_pre, b_post = lb[ks[0]], lb[:ks[0]], lb[ks[0] + 1:]
            self.chunk_var = x = yl.targets[0].id if is_yield(yl) else None
            plain = is_yield(yl) and is_yield(yp) and yp.targets[0].id == x and not b_post
            if x is not None and not plain:
                gap(loop, 'a loop that ends with `x = (yield)` must be primed with the same `x = (yield)`')
            if x in dict(self.state):
                gap(loop, 'the chunk variable cannot be a state variable')
            wait = None
            if len(ys) == 2 and ys[1] == ys[0] + 1 and isinstance(pro[ys[1]], ast.While) and is_yield(yp):
                wait = pro[ys[1]]                              # while <test on x>: x = (yield)
                if wait.orelse or len(wait.body) != 1 or not is_yield(wait.body[0]) \
                        or wait.body[0].targets[0].id != yp.targets[0].id or has_yield([wait.test]):
                    gap(wait, 'a waiting loop must be `while <test>: x = (yield)` for the chunk variable')
            elif len(ys) != 1:
                gap(fn, '(yield) before the loop in an unknown position')
            p0, p1 = pro[:ys[0]], pro[ys[0] + (2 if wait else 1):]
            if any(self.calls_target(st_) for st_ in p1 + [yl] + b_post):
                gap(fn, 'target called outside the part of the loop that precedes the (yield)')
            got = {}
            t0 = self.block(p0, penv, lambda e: got.setdefault('env', e) and '')
            if t0.strip() or set(got['env'].ty) != set(penv.ty):
                gap(fn, 'statements before the first (yield) must all be pinned and dropped')
            names = [v for v, _ in self.state]
            benv = Env({**penv.ty, **dict(self.state)})
            if x:
                benv.ty[x] = self.chunk_type
            body = self.block(b_pre, benv, self.end_step)
            binds = ' '.join(f'({v} : {TYPES[t]})' for v, t in self.state)
            xbind = f' ({x} : {TYPES[self.chunk_type]})' if x else ''
            defs += self.aux
            defs.append(f'Definition {self.name}_gen_body {self.tparams} {self.binders} {binds}{xbind}\n'
                        f'  : {res} :=\n' + ind(f'let outs : {otype} := [] in\n{body}') + '.')

            def enter(e):
                for v in names:
                    if v not in e.ty:
                        raise TranslatorGap(f'state variable `{v}` is not set when the loop is entered')
                extra_locals = set(e.ty) - set(penv.ty) - set(names) - {x}
                if extra_locals:
                    raise TranslatorGap(f'locals that are not declared state: {sorted(extra_locals)}')
                return (f'{self.name}_gen_body {self.args} ' +
                        ' '.join('(' + coerce(v, e.ty[v], dict(self.state)[v]) + ')' for v in names) + (f' {x}' if x else ''))

            def after_first(e):
                self.allow_yield = False
                rest_ = self.block(p1, e, enter)
                if wait is None:
                    return rest_
                c, ty = self.expr(wait.test, e)
                if ty != 'bool':
                    gap(wait.test, 'condition not covered')
                return f'if {c} then\n  Some (None, []) (* keeps waiting *)\nelse\n' + ind(rest_)
            self.allow_yield = True
            first = self.block([yp], penv.copy(), after_first)
            if plain:
                nxt = f'{self.name}_gen_body {self.args} {" ".join(names)} chunk'
            else:
                def after_next(e):
                    self.allow_yield = False
                    return self.block(b_post, e, enter)
                self.allow_yield = True
                nxt = self.block([yl], Env({**penv.ty, **dict(self.state)}), after_next)
            self.allow_yield = False
            ctype = TYPES[self.chunk_type]
            defs.append(f'Definition {self.name}_gen_step {self.tparams} {self.binders} (st : option ({sty})) (chunk : {ctype})\n'
                        f'  : {res} :=\n  match st with\n  | None =>\n' + ind(ind(first)) +
                        f'\n  | Some {pat(names).lstrip(chr(39))} =>\n' + ind(ind(nxt)) + '\n  end.')
        for k, n in self.pinned_seen.items():
            if n != 1:
                raise TranslatorGap(f'{self.name}: pinned statement occurs {n} times instead of once: `{k[:80]}`')
        return '\n\n'.join(defs)


ALL = ('discard', 'blocked', 'downsample', 'derivative', 'decimate', 'rms', 'event_rate', 'transform',
       'mc_reference', 'iirfilter', 'auto_th')


def translate(repo, targets=ALL):
    """Coq text of coq/gen/StagesStepGen.v for the current <repo>/psiaudio/pipeline.py, and an info dict"""
    path = os.path.join(repo, 'psiaudio', 'pipeline.py')
    tree = ast.parse(open(path).read())
    fns = {}
    for n in tree.body:
        if isinstance(n, ast.FunctionDef):
            if n.name in fns:
                raise TranslatorGap(f'{n.name} is defined twice')
            fns[n.name] = n
    if 'coroutine' not in fns or ast.unparse(fns['coroutine']) != COROUTINE_SRC:
        raise TranslatorGap('the @coroutine decorator is not the pinned one (create the generator, advance it to its first yield)')
    bound = []
    for n in tree.body:                     # coroutine / concat / PipelineData: bound exactly once, by their def / class
        if isinstance(n, (ast.FunctionDef, ast.ClassDef, ast.AsyncFunctionDef)):
            bound.append(n.name)
        elif isinstance(n, (ast.Import, ast.ImportFrom)):
            bound += [(a.asname or a.name).split('.')[0] for a in n.names]
        else:
            bound += [t.id for t in ast.walk(n) if isinstance(t, ast.Name) and isinstance(t.ctx, (ast.Store, ast.Del))]
    for name in ('coroutine', 'concat', 'PipelineData'):
        if bound.count(name) != 1 or '*' in bound:
            raise TranslatorGap(f'{name} is not bound exactly once at module level')
    parts, info = [], {'functions': {}, 'notes': []}
    for name in targets:
        if name not in fns:
            raise TranslatorGap(f'pipeline.{name} not found')
        c = Coro(name, fns[name], SPEC[name])
        parts.append(f'(* ---------------- pipeline.{name} (line {fns[name].lineno}) ---------------- *)\n' + c.translate())
        info['functions'][name] = {'line': fns[name].lineno, 'state': [v for v, _ in SPEC[name]['state']],
                                   'pinned': len(SPEC[name]['pinned'])}
        info['notes'] += [f'{name}: {x}' for x in SPEC[name]['notes']]
    checks = '(* ---------------- self-test instances ---------------- *)\n' + '\n'.join(CHECKS[t] for t in targets)
    return HEADER + '\n' + '\n\n'.join(parts) + '\n\n' + checks + '\n', info


if __name__ == '__main__':
    import sys
    text, info = translate(sys.argv[1] if len(sys.argv) > 1 else '/repo',
                           tuple(sys.argv[3:]) or ALL)
    if len(sys.argv) > 2:
        open(sys.argv[2], 'w').write(text)
    else:
        print(text)
