"""pystim2coq - fail-closed translator of the INTEGER / INDEX BOOKKEEPING of psiaudio/stim.py to coq/gen/StimIdxGen.v.

Every target of TARGETS is read from the CURRENT source with `ast` and turned, statement by statement, into a small IR
(assignment -> let, `self.x = e` -> record update, `if` -> if, `raise` -> None, `while` -> fuelled Fixpoint, slices and slice
assignments -> Common/PySlice.v).  The IR is (a) printed as Gallina and (b) run by the few-line interpreter `ev` below in
the self-test, against the real function / method of the real object.  Anything the tables do not cover raises Gap:
nothing is skipped.  What is not integer bookkeeping (float time conversions, window look-up, the SAM formula, the input
factory's call) is PINNED: the statement / expression must have exactly the `ast.unparse` text listed in the target's table and
is then dropped, mapped to an abstract input, or mapped to the symbolic recipe of coq/Stim/Model.v; any other text is a Gap.
Vocabulary taken from Stim/Model.v: factor, sample, fzero, fone, szero, zrepeat (np.zeros / np.ones), np_clip, zrange."""
import ast
import os


class Gap(Exception):
    """The source contains something the tables do not cover: the tie is broken, never skipped."""


def gap(node, why, fn=''):
    src = ast.unparse(node) if isinstance(node, ast.AST) else str(node)
    raise Gap(f'{fn} line {getattr(node, "lineno", "?")}: {why}: `{src[:140]}`')


# ---------------------------------------------------------------------------------------------------------- tables
# records of the objects' integer fields: class key -> (coq record name, [(python field, type)]); 'nid' is the symbolic id
RECORDS = {
    'gate': ('gate_st', [('start_samples', 'Z'), ('duration_samples', 'Z'), ('total_samples', 'Z'), ('offset', 'Z')]),
    'fixed': ('fixed_st', [('waveform', 'L'), ('offset', 'Z')]),
    'xform': ('xform_st', [('offset', 'Z')]),
    'square': ('square_st', [('nid', 'Z'), ('cycle_samples', 'Z'), ('on_samples', 'Z'), ('offset', 'Z')]),
}
RAMP = ('zrange (fun j => (2, nid, j)) 0 (2 * i_rise_time)', lambda v: list(v['_ramp'](max(2 * v['i_rise_time'], 0))))
SAM = ('zrange (fun k => (4, nid, k)) sam_offset sam_n', lambda v: [v['_sam'](v['sam_offset'] + k) for k in range(max(v['sam_n'], 0))])
INT = {'samples = int(samples)': ('bind', 'samples', 'Z', ('samples', lambda v: int(v['samples'])))}
TOKEN = {'token = self.input_factory.next(samples)': ('input', 'token', 'L')}
# target: qual, coq, cls (record key or None), params [(name, type)] = python parameters kept, inputs [(name, type)] = abstract
# inputs introduced by pins, elem (element type of lists), ret (type of the returned value or None for a procedure),
# raises (result in option), pins {statement text: None (dropped) | ('input', v, ty) | ('bind', v, ty, (coq, py))},
# pin_exprs {expression text: (abstract input, ty) | ('sym', ty, coq, py)}, pin_tests {if-test text: ('optdefault', var)},
# inline {call statement text: qual of the method whose body is translated in place}, fuel (coq, py) for a while loop.
TARGETS = [
    dict(qual='envelope', coq='gen_envelope', cls=None, elem='factor', ret='L', raises=True,
         lead=[('nid', 'Z'), ('i_env_lb', 'Z'), ('i_duration', 'Z'), ('i_rise_time', 'Z')],
         params=[('offset', 'Z'), ('samples', 'OZ')], inputs=[],
         pins={'i_env_lb = int(round(start_time * fs))': ('input', 'i_env_lb', 'Z'),
               'i_duration = int(round(duration * fs))': ('input', 'i_duration', 'Z'),
               'if rise_time is None:\n    i_rise_time = int(np.floor(i_duration / 2))\n    rise_time = i_rise_time / fs\n'
               'else:\n    i_rise_time = int(round(rise_time * fs))': ('input', 'i_rise_time', 'Z'),
               "if window == 'cosine-squared':\n    ramp = cos2ramp(2 * i_rise_time)\nelse:\n"
               "    ramp = getattr(signal.windows, window)(2 * i_rise_time)": ('bind', 'ramp', 'L', RAMP),
               'if transform is not None:\n    env = transform(env)': None},
         pin_tests={"samples == 'auto'": ('optdefault', 'samples')}),
    dict(qual='GateFactory.__init__', coq='gen_gate_init', cls='gate', elem='sample', ret=None, raises=False, fresh=True,
         lead=[('start_samples', 'Z'), ('duration_samples', 'Z')], params=[], inputs=[],
         pins={'vars(self).update(locals())': None,
               'self.start_samples = int(round(start_time * fs))': ('field', 'start_samples', 'start_samples'),
               'self.duration_samples = int(round(self.duration * fs))': ('field', 'duration_samples', 'duration_samples'),
               'self.input_factory.reset()': None},
         inline={'self.reset()': 'Transform.reset'}),
    dict(qual='GateFactory.next', coq='gen_gate_next', cls='gate', elem='sample', ret='L', raises=False,
         params=[('samples', 'Z')], inputs=[('token', 'L')], pins={**INT, **TOKEN}),
    dict(qual='GateFactory.n_samples_remaining', coq='gen_gate_n_samples_remaining', cls='gate', elem='sample', ret='Z',
         raises=False, pure=True, params=[], inputs=[], pins={}),
    dict(qual='GateFactory.n_samples', coq='gen_gate_n_samples', cls='gate', elem='sample', ret='Z', raises=False, pure=True,
         params=[], inputs=[], pins={}),
    dict(qual='GateFactory.is_complete', coq='gen_gate_is_complete', cls='gate', elem='sample', ret='B', raises=False,
         pure=True, params=[], inputs=[], pins={}),
    dict(qual='EnvelopeFactory.next', coq='gen_env_next', cls='gate', elem='sample', ret='L', raises=True,
         lead=[('nid', 'Z'), ('i_rise_time', 'Z')], params=[('samples', 'Z')], inputs=[('token', 'L')],
         pins={**INT, **TOKEN,
               'env = envelope(window=self.envelope, fs=self.fs, duration=self.duration, rise_time=self.rise_time, '
               'offset=self.offset, start_time=self.start_time, samples=samples, transform=self.transform)':
                   ('bindopt', 'env', 'F', ('gen_envelope nid (gate_start_samples self) (gate_duration_samples self) i_rise_time '
                                            '(gate_offset self) (Some samples)',
                                            lambda v: call(v['_defs'], 'gen_envelope', nid=v['nid'], i_env_lb=v['self']['start_samples'],
                                                           i_duration=v['self']['duration_samples'], i_rise_time=v['i_rise_time'],
                                                           offset=v['self']['offset'], samples=v['samples'], _ramp=v['_ramp']))),
               'waveform = env * token': ('bindopt', 'waveform', 'L', (
                   'map2_mul env token', lambda v: ('some', [a * b for a, b in zip(v['env'], v['token'])])
                   if len(v['env']) == len(v['token']) else None))}),
    dict(qual='FixedWaveform.next', coq='gen_fixed_next', cls='fixed', elem='sample', ret='L', raises=False,
         params=[('samples', 'Z')], inputs=[], pins={**INT}),
    dict(qual='FixedWaveform.n_samples_remaining', coq='gen_fixed_n_samples_remaining', cls='fixed', elem='sample', ret='Z',
         raises=False, pure=True, params=[], inputs=[], pins={}),
    dict(qual='FixedWaveform.n_samples', coq='gen_fixed_n_samples', cls='fixed', elem='sample', ret='Z', raises=False,
         pure=True, params=[], inputs=[], pins={}),
    dict(qual='FixedWaveform.is_complete', coq='gen_fixed_is_complete', cls='fixed', elem='sample', ret='B', raises=False,
         pure=True, params=[], inputs=[], pins={}),
    dict(qual='SquareWaveFactory.next', coq='gen_square_next', cls='square', elem='sample', ret='L', raises=False,
         params=[('samples', 'Z')], inputs=[], pins={**INT},
         pin_exprs={'self.sf': ('sym', 'E', '[(5, square_nid self, 0)]', lambda v: 7.0)},
         fuel=('(Z.to_nat samples + 2)%nat', lambda v: max(v['samples'], 0) + 2)),
    dict(qual='_sam_envelope', coq='gen_sam_envelope', cls=None, elem='factor', ret='L', raises=False,
         lead=[('nid', 'Z'), ('D', 'Z')], params=[('offset', 'Z'), ('samples', 'Z')], inputs=[],
         pin_exprs={'int(delay * fs)': ('D', 'Z')},
         pins={'delay_n = int(np.round(delay_n))': ('bind', 'delay_n', 'Z', ('delay_n', lambda v: int(v['delay_n']))),
               't = (np.arange(sam_n, dtype=np.double) + sam_offset) / fs': None,
               'sam_envelope = depth / 2.0 * np.cos(2.0 * np.pi * fm * t + eq_phase) + 1.0 - depth / 2.0':
                   ('bind', 'sam_envelope', 'L', SAM),
               'sam_envelope *= 1.0 / eq_power': None}),
    # ---- repeat() / RepeatFactory.reset / Transform.next / Transform.reset (tie: Stim/ProofsTieRep.v)
    dict(qual='repeat', coq='gen_repeat', cls=None, elem='sample', ret='L', raises=True,
         lead=[('s_period', 'Z'), ('s_delay', 'Z')], params=[('waveform', 'L'), ('n', 'Z'), ('skip_n', 'Z')], inputs=[],
         pins={'s_period = int(round(fs / rate))': ('input', 's_period', 'Z'),
               's_delay = int(round(fs * delay))': ('input', 's_delay', 'Z'),
               't_waveform = s_waveform / fs': None, 't_period = s_period / fs': None, 't_delay = s_delay / fs': None,
               'result = np.zeros((n + skip_n, s_period))':
                   ('bind', 'result', 'L2', ('np_zeros2 szero (n + skip_n) s_period',
                                             lambda v: [[0.0] * max(v['s_period'], 0) for _ in range(max(v['n'] + v['skip_n'], 0))])),
               'result[skip_n:, s_delay:s_delay + s_waveform] = waveform':
                   ('bind', 'result', 'L2', ('np_set_rows skip_n s_delay (s_delay + s_waveform) waveform result', lambda v: [
                       r if k < v['skip_n'] else r[:v['s_delay']] + list(v['waveform']) + r[v['s_delay'] + v['s_waveform']:]
                       for k, r in enumerate(v['result'])]))},
         pin_exprs={'result.ravel()': ('sym', 'L', 'np_ravel result', lambda v: [x for r in v['result'] for x in r])}),
    dict(qual='RepeatFactory.reset', coq='gen_repeat_reset', cls='fixed', elem='sample', ret=None, raises=True,
         lead=[('s_period', 'Z'), ('s_delay', 'Z'), ('n', 'Z'), ('skip_n', 'Z')], params=[], inputs=[('waveform', 'L')],
         pins={'self.input_factory.reset()': None,
               'waveform = self.input_factory.get_samples_remaining()': ('input', 'waveform', 'L'),
               'self.waveform = repeat(waveform, self.fs, self.n, self.skip_n, self.rate, self.delay)':
                   ('fieldopt', 'waveform', ('gen_repeat s_period s_delay waveform n skip_n',
                                             lambda v: call(v['_defs'], 'gen_repeat', s_period=v['s_period'], s_delay=v['s_delay'],
                                                            waveform=v['waveform'], n=v['n'], skip_n=v['skip_n'])))}),
    dict(qual='Transform.next', coq='gen_transform_next', cls='xform', elem='sample', ret='L', raises=False,
         params=[('samples', 'Z')], inputs=[('waveform', 'L'), ('transformed', 'L')],
         pins={'waveform = self.input_factory.next(samples)': ('input', 'waveform', 'L'),
               'waveform = self.transform(waveform)': ('bind', 'waveform', 'L', ('transformed', lambda v: v['transformed']))}),
    dict(qual='Transform.reset', coq='gen_transform_reset', cls='xform', elem='sample', ret=None, raises=False,
         params=[], inputs=[], pins={'self.input_factory.reset()': None}),
]
BIN = {ast.Add: '+', ast.Sub: '-', ast.Mult: '*', ast.FloorDiv: '/', ast.Mod: 'mod'}
CMP = {ast.Lt: '<?', ast.LtE: '<=?', ast.Gt: '>?', ast.GtE: '>=?', ast.Eq: '=?'}
PYBIN = {'+': lambda a, b: a + b, '-': lambda a, b: a - b, '*': lambda a, b: a * b, '/': lambda a, b: a // b if b else 0,
         'mod': lambda a, b: a % b if b else a}       # Coq: a / 0 = 0, a mod 0 = a (8.16)
PYCMP = {'<?': lambda a, b: a < b, '<=?': lambda a, b: a <= b, '>?': lambda a, b: a > b, '>=?': lambda a, b: a >= b,
         '=?': lambda a, b: a == b}


def is_msg(s):
    """`m = f'...'` / `m = '...'`: the text of an error message (the name is then unusable in arithmetic)."""
    return isinstance(s, ast.Assign) and len(s.targets) == 1 and isinstance(s.targets[0], ast.Name) and \
        (isinstance(s.value, ast.JoinedStr) or isinstance(s.value, ast.Constant) and isinstance(s.value.value, str))


def find_def(tree, qual):
    body = tree.body
    parts = qual.split('.')
    for cls in parts[:-1]:
        found = [n for n in body if isinstance(n, ast.ClassDef) and n.name == cls]
        if not found:
            raise Gap(f'class {cls} not found for {qual}')
        body = found[-1].body
    found = [n for n in body if isinstance(n, ast.FunctionDef) and n.name == parts[-1]]
    if len(found) != 1:
        raise Gap(f'{qual}: {len(found)} definitions found, exactly one expected')
    return found[0]


# ------------------------------------------------------------------------------------------------- python ast -> IR
class Tr:
    def __init__(self, tree, t):
        self.tree, self.t, self.fn = tree, t, t['qual']
        self.fields = dict(RECORDS[t['cls']][1]) if t['cls'] else {}
        self.pins = dict(t.get('pins', {}))
        self.used, self.aux, self.local = set(), [], {}

    def run(self):
        f = find_def(self.tree, self.fn)
        a = f.args
        if a.vararg or a.kwarg or a.kwonlyargs or a.posonlyargs:
            gap(f, 'unsupported signature', self.fn)
        names = [x.arg for x in a.args]
        for p, _ in self.t['params']:
            if p not in names:
                gap(f, f'parameter {p} missing', self.fn)
        env = dict(self.t['params'])                       # abstract inputs enter the scope where their pinned statement stands
        self.abstract = {**dict(self.t.get('lead', [])), **dict(self.t['inputs'])}
        end = (lambda e: ('some', ('var', 'self')) if self.t['raises'] else ('var', 'self')) if self.t['ret'] is None else (lambda e: gap(f, 'falls off the end', self.fn))
        ir = self.block(f.body, env, end, True)
        missing = set(self.pins) - self.used
        if missing:
            raise Gap(f'{self.fn}: pinned text no longer present: {sorted(missing)[0][:100]!r}')
        return ir

    # -- statements (continuation k gives what follows the list)
    def block(self, stmts, env, k, top=False):
        if not stmts:
            return k(env)
        s, rest = stmts[0], stmts[1:]
        nxt = lambda e: self.block(rest, e, k, top)
        txt = ast.unparse(s)
        if txt in self.pins:
            self.used.add(txt)
            act = self.pins[txt]
            if act is None:
                return nxt(env)
            if act[0] == 'input':
                if self.abstract.get(act[1]) != act[2]:
                    gap(s, 'pinned input is not a parameter', self.fn)
                return nxt({**env, act[1]: act[2]})
            if act[0] == 'bindopt':
                if not self.t['raises']:
                    gap(s, 'a call that may raise in a function that may not', self.fn)
                return ('bind', act[1], ('sym', act[3][0], act[3][1]), nxt({**env, act[1]: act[2]}))
            if act[0] == 'fieldopt':
                if not self.t['raises'] or act[1] not in self.fields:
                    gap(s, 'a field set from a call that may raise', self.fn)
                return ('bind', 'v_', ('sym', act[2][0], act[2][1]), ('let', ['self'], ('upd', act[1], ('var', 'v_')), nxt(env)))
            if act[0] == 'field':
                return ('let', ['self'], ('upd', act[1], ('var', act[2])), nxt(env))
            return ('let', [act[1]], ('sym', act[3][0], act[3][1]), nxt({**env, act[1]: act[2]}))
        if txt in self.t.get('inline', {}):
            g = find_def(self.tree, self.t['inline'][txt])
            return self.block(g.body, env, lambda e: nxt(env))        # (its own statements: no return, not top)
        if isinstance(s, ast.Expr) and isinstance(s.value, ast.Constant) and isinstance(s.value.value, str):
            return nxt(env)                                                     # docstring
        if isinstance(s, ast.FunctionDef):
            return self.helper(s, nxt, env)
        if isinstance(s, ast.Assign) and len(s.targets) == 1 or isinstance(s, ast.AugAssign):
            tgt = s.targets[0] if isinstance(s, ast.Assign) else s.target
            if is_msg(s):
                return nxt({k_: v for k_, v in env.items() if k_ != tgt.id})     # message text: the name becomes unusable
            val = s.value if isinstance(s, ast.Assign) else ast.BinOp(left=tgt, op=s.op, right=s.value)
            if isinstance(tgt, ast.Name):
                e, ty = self.expr(val, env)
                if ty not in ('Z', 'L'):
                    gap(s, 'assignment of an untranslated type', self.fn)
                return ('let', [tgt.id], e, nxt({**env, tgt.id: ty}))
            if isinstance(tgt, ast.Attribute) and ast.unparse(tgt.value) == 'self' and tgt.attr in self.fields:
                e, ty = self.expr(val, env)
                if ty != self.fields[tgt.attr] or self.t.get('pure'):
                    gap(s, 'field update of the wrong type / in a query', self.fn)
                return ('let', ['self'], ('upd', tgt.attr, e), nxt(env))
            if isinstance(s, ast.Assign) and isinstance(tgt, ast.Subscript) and isinstance(tgt.value, ast.Name) \
                    and env.get(tgt.value.id) == 'L' and isinstance(tgt.slice, ast.Slice) and tgt.slice.step is None:
                lo, hi = self.bound(tgt.slice.lower, env), self.bound(tgt.slice.upper, env)
                if isinstance(s.value, ast.Constant) and s.value.value == 0 and type(s.value.value) is int:
                    v = ('zero',)
                else:
                    v, ty = self.expr(s.value, env)
                    if ty != 'E':
                        gap(s, 'slice assignment of a non-constant', self.fn)
                return ('let', [tgt.value.id], ('setc', lo, hi, v, ('var', tgt.value.id)), nxt(env))
            gap(s, 'unsupported assignment', self.fn)
        if isinstance(s, ast.If):
            ttxt = ast.unparse(s.test)
            if ttxt in self.t.get('pin_tests', {}):
                var = self.t['pin_tests'][ttxt][1]
                if s.orelse or len(s.body) != 1 or not isinstance(s.body[0], ast.Assign) or ast.unparse(s.body[0].targets[0]) != var \
                        or env.get(var) != 'OZ':
                    gap(s, 'default of an optional parameter has an unknown shape', self.fn)
                e, ty = self.expr(s.body[0].value, env)
                if ty != 'Z':
                    gap(s, 'default is not an integer', self.fn)
                return ('let', [var], ('optdef', var, e), nxt({**env, var: 'Z'}))
            c, ty = self.expr(s.test, env)
            if ty != 'B':
                gap(s.test, 'test is not a comparison of integers', self.fn)
            if isinstance(s.body[-1], ast.Raise):
                if s.orelse or not self.t['raises'] or any(not is_msg(b) and self.pins.get(ast.unparse(b), 0) is not None
                                                           for b in s.body[:-1]):
                    gap(s, 'unsupported raise', self.fn)
                self.used.update(ast.unparse(b) for b in s.body[:-1] if ast.unparse(b) in self.pins)
                return ('if', c, ('none',), nxt(env))
            def assigned(stmts):
                out = []
                for b in ast.walk(ast.Module(body=stmts, type_ignores=[])):
                    if isinstance(b, (ast.Assign, ast.AugAssign)):
                        for tg in (b.targets if isinstance(b, ast.Assign) else [b.target]):
                            nm = tg.id if isinstance(tg, ast.Name) else tg.value.id if isinstance(tg, ast.Subscript) and \
                                isinstance(tg.value, ast.Name) else 'self' if ast.unparse(tg).startswith('self.') else gap(tg, 'target', self.fn)
                            if nm not in out:
                                out.append(nm)
                return out
            A, B = assigned(s.body), assigned(s.orelse)
            # what the statement hands on: updated variables and those bound on both paths (branch-local names are not visible after)
            vs = [v for v in A + [b for b in B if b not in A] if v in env or v == 'self' or (v in A and v in B)]
            tys = {}

            def tail(e):
                for v in vs:
                    if v != 'self' and e.get(v) not in ('Z', 'L'):
                        gap(s, f'{v} is not bound on every path', self.fn)
                    if tys.setdefault(v, e.get(v)) != e.get(v):
                        gap(s, f'{v} has two types', self.fn)
                return ('tuple', [('var', v) for v in vs])
            a, b = self.block(s.body, env, tail), self.block(s.orelse, env, tail)
            return ('let', vs, ('if', c, a, b), nxt({**env, **{v: tys[v] for v in vs if v != 'self'}}))
        if isinstance(s, ast.While):
            if s.orelse or 'fuel' not in self.t:
                gap(s, 'unsupported loop', self.fn)
            c, ty = self.expr(s.test, env)
            if ty != 'B':
                gap(s.test, 'loop test', self.fn)
            vs = []
            for b in s.body:
                tg = b.targets[0] if isinstance(b, ast.Assign) and len(b.targets) == 1 else b.target if isinstance(b, ast.AugAssign) \
                    else gap(b, 'loop body statement', self.fn)
                nm = tg.id if isinstance(tg, ast.Name) else tg.value.id if isinstance(tg, ast.Subscript) and \
                    isinstance(tg.value, ast.Name) else gap(tg, 'loop target', self.fn)
                if nm not in env:
                    gap(tg, 'loop variable not initialised before the loop', self.fn)
                if nm not in vs:
                    vs.append(nm)
            name = self.t['coq'] + '_loop'
            args = (['self'] if self.t['cls'] else []) + list(env)
            body = self.block(s.body, env, lambda e: ('loopcall', name, args) if e == env else gap(s, 'loop changes types', self.fn))
            self.aux.append(('fix', name, [(a_, 'S' if a_ == 'self' else env[a_]) for a_ in args], c, body, vs))
            return ('let', vs, ('loop', name, self.t['fuel'], args), nxt(env))
        if isinstance(s, ast.Return) and s.value is not None and not rest and self.t['ret'] and top:
            e, ty = self.expr(s.value, env)
            if ty != self.t['ret']:
                gap(s, f'returns {ty}, expected {self.t["ret"]}', self.fn)
            e = e if self.t['cls'] is None or self.t.get('pure') else ('tuple', [('var', 'self'), e])
            return ('some', e) if self.t['raises'] else e
        gap(s, 'unsupported statement', self.fn)

    def helper(self, s, nxt, env):
        a = s.args
        if a.vararg or a.kwarg or a.kwonlyargs or a.defaults or len(s.body) != 1 or not isinstance(s.body[0], ast.Return):
            gap(s, 'nested helper has an unknown shape', self.fn)
        ps = [x.arg for x in a.args]
        if s.name in self.local or s.name in env or s.decorator_list:
            gap(s, 'nested helper defined twice / shadows a variable / decorated', self.fn)
        e, ty = self.expr(s.body[0].value, {p: 'Z' for p in ps})             # closed: only its own parameters are visible
        if ty != 'Z':
            gap(s, 'nested helper does not return an integer', self.fn)
        name = f'{self.t["coq"]}_{s.name}'
        self.aux.append(('def', name, ps, e))
        self.local[s.name] = (name, len(ps))
        return nxt(env)

    def bound(self, n, env):
        if n is None:
            return None
        e, ty = self.expr(n, env)
        if ty != 'Z':
            gap(n, 'slice bound is not an integer', self.fn)
        return e

    # -- expressions: (ir, type)  types: Z integer, B bool, L list, E list element, OZ optional integer
    def expr(self, n, env):
        txt = ast.unparse(n)
        pe = self.t.get('pin_exprs', {})
        if txt in pe:
            return (('sym', pe[txt][2], pe[txt][3]), pe[txt][1]) if pe[txt][0] == 'sym' else (('var', pe[txt][0]), pe[txt][1])
        Z = lambda m: self.typed(m, env, 'Z')
        if isinstance(n, ast.Constant) and type(n.value) is int:
            return ('z', n.value), 'Z'
        if isinstance(n, ast.Name):
            if env.get(n.id) in ('Z', 'L'):
                return ('var', n.id), env[n.id]
            gap(n, 'name is not an integer / array known here', self.fn)
        if isinstance(n, ast.Attribute) and ast.unparse(n.value) == 'self' and n.attr in self.fields and n.attr != 'nid':
            return ('fld', n.attr), self.fields[n.attr]
        if isinstance(n, ast.BinOp) and type(n.op) in BIN:
            return ('op', BIN[type(n.op)], Z(n.left), Z(n.right)), 'Z'
        if isinstance(n, ast.UnaryOp) and isinstance(n.op, ast.USub):
            return ('neg', Z(n.operand)), 'Z'
        if isinstance(n, ast.Compare) and len(n.ops) == 1 and type(n.ops[0]) in CMP:
            return ('cmp', CMP[type(n.ops[0])], Z(n.left), Z(n.comparators[0])), 'B'
        if isinstance(n, ast.Subscript):
            if isinstance(n.value, ast.Attribute) and n.value.attr == 'shape' and ast.unparse(n.slice) == '-1':
                return ('zlen', self.typed(n.value.value, env, 'L')), 'Z'
            if isinstance(n.slice, ast.Slice) and n.slice.step is None:
                return ('slice', self.bound(n.slice.lower, env), self.bound(n.slice.upper, env), self.typed(n.value, env, 'L')), 'L'
        if isinstance(n, ast.Call):
            f = ast.unparse(n.func)
            kw = {k.arg: ast.unparse(k.value) for k in n.keywords}
            na = len(n.args)
            if f == 'np.concatenate' and kw in ({}, {'axis': '-1'}) and na == 1 and isinstance(n.args[0], ast.Tuple):
                return ('app', [self.typed(x, env, 'L') for x in n.args[0].elts]), 'L'
            if kw or any(isinstance(x, ast.Starred) for x in n.args):
                gap(n, 'keyword / starred arguments', self.fn)
            if f in ('max', 'min') and na == 2:
                return ('prim', 'Z.' + f, [Z(x) for x in n.args]), 'Z'
            if f == 'abs' and na == 1:
                return ('prim', 'Z.abs', [Z(n.args[0])]), 'Z'
            if f == 'int' and na == 1:
                return Z(n.args[0]), 'Z'
            if f == 'len' and na == 1:
                return ('zlen', self.typed(n.args[0], env, 'L')), 'Z'
            if f == 'np.clip' and na == 3:
                if ast.unparse(n.args[2]) == 'np.inf':
                    return ('prim', 'Z.max', [Z(n.args[0]), Z(n.args[1])]), 'Z'
                return ('prim', 'np_clip', [Z(x) for x in n.args]), 'Z'
            if f in ('np.zeros', 'np.ones') and na == 1:
                return ('fill', 'zero' if f == 'np.zeros' else 'one', Z(n.args[0])), 'L'
            if f in self.local and na == self.local[f][1]:
                return ('prim', self.local[f][0], [Z(x) for x in n.args]), 'Z'
            if isinstance(n.func, ast.Attribute) and n.func.attr == 'copy' and na == 0:
                return self.typed(n.func.value, env, 'L'), 'L'
        gap(n, 'unsupported expression', self.fn)

    def typed(self, n, env, want):
        e, ty = self.expr(n, env)
        if ty != want:
            gap(n, f'expected {want}, found {ty}', self.fn)
        return e


# --------------------------------------------------------------------------------------------------- IR -> Gallina
def emit(ir, t, ind='  '):
    rec = RECORDS[t['cls']] if t['cls'] else None
    pre = t['cls'] + '_' if rec else ''
    E = lambda x: emit(x, t, ind)
    k = ir[0]
    if k == 'z':
        return str(ir[1]) if ir[1] >= 0 else f'({ir[1]})'
    if k == 'var':
        return ir[1]
    if k == 'fld':
        return f'({pre}{ir[1]} self)'
    if k == 'op':
        return f'({E(ir[2])} {ir[1]} {E(ir[3])})'
    if k == 'neg':
        return f'(- {E(ir[1])})'
    if k == 'cmp':
        return f'({E(ir[2])} {ir[1]} {E(ir[3])})'
    if k == 'prim':
        return '(' + ' '.join([ir[1]] + [E(a) for a in ir[2]]) + ')'
    if k == 'zlen':
        return f'(zlen {E(ir[1])})'
    if k == 'zero':
        return 'fzero' if t['elem'] == 'factor' else 'szero'
    if k == 'fill':
        c = {'zero': emit(('zero',), t), 'one': 'fone' if t['elem'] == 'factor' else '[fone]'}[ir[1]]
        return f'(zrepeat {c} {E(ir[2])})'
    if k == 'sym':
        return f'({ir[1]})' if ' ' in ir[1] else ir[1]
    if k in ('slice', 'setc'):
        o = lambda b: 'None' if b is None else f'(Some {E(b)})'
        return f'(py_slice {o(ir[1])} {o(ir[2])} {E(ir[3])})' if k == 'slice' else \
            f'(py_set_const {o(ir[1])} {o(ir[2])} {E(ir[3])} {E(ir[4])})'
    if k == 'app':
        return '(' + ' ++ '.join(E(a) for a in ir[1]) + ')'
    if k == 'optdef':
        return f'match {ir[1]} with Some v_ => v_ | None => {E(ir[2])} end'
    if k == 'upd':
        return '{| ' + '; '.join(f'{pre}{f} := {E(ir[2]) if f == ir[1] else f"{pre}{f} self"}' for f, _ in rec[1]) + ' |}'
    if k == 'none':
        return 'None'
    if k == 'some':
        return f'Some {E(ir[1])}'
    if k == 'tuple':
        return E(ir[1][0]) if len(ir[1]) == 1 else '(' + ', '.join(E(a) for a in ir[1]) + ')'
    if k == 'let':
        pat = ir[1][0] if len(ir[1]) == 1 else "'(" + ', '.join(ir[1]) + ')'
        return f'let {pat} := {E(ir[2])} in\n{ind}{E(ir[3])}'
    if k == 'bind':
        return f'match {E(ir[2])} with\n{ind}| None => None\n{ind}| Some {ir[1]} =>\n{ind}{E(ir[3])}\n{ind}end'
    if k == 'if':
        br = lambda x: f'({emit(x, t, ind + "  ")})' if x[0] == 'let' else emit(x, t, ind + '  ')
        return f'if {E(ir[1])} then {br(ir[2])}\n{ind}else {br(ir[3])}'
    if k == 'loopcall':
        return ' '.join([ir[1], 'fuel'] + ir[2])
    if k == 'loop':
        return ' '.join([ir[1], ir[2][0]] + ir[3])
    raise Gap(f'emit: unknown IR node {k}')


def coqty(ty, t):
    return {'Z': 'Z', 'B': 'bool', 'OZ': 'option Z', 'F': 'list factor', 'L': f'list {t["elem"]}', 'S': RECORDS[t['cls']][0] if t['cls'] else '?'}[ty]


def definition(t, ir, aux):
    out = []
    for a in aux:
        if a[0] == 'def':
            out.append(f'Definition {a[1]} ({" ".join(a[2])} : Z) : Z :=\n  {emit(a[3], t)}.\n')
        else:
            _, name, args, c, body, vs = a
            ret = ' * '.join(coqty(dict(args)[v], t) for v in vs)
            res = emit(('tuple', [('var', v) for v in vs]), t)
            out.append(f'Fixpoint {name} (fuel : nat) ' + ' '.join(f'({n} : {coqty(ty, t)})' for n, ty in args) + f' : {ret} :=\n'
                       f'  match fuel with\n  | O => {res}\n  | S fuel =>\n    if {emit(c, t)} then\n      '
                       f'{emit(body, t, "      ")}\n    else {res}\n  end.\n')
    ps = list(t.get('lead', [])) + ([('self', 'S')] if t['cls'] and not t.get('fresh') else []) + t['params'] + t['inputs']
    rty = coqty(t['ret'], t) if t['ret'] else coqty('S', t)
    if t['cls'] and t['ret'] and not t.get('pure'):
        rty = f'{coqty("S", t)} * {rty}'
    if t['raises']:
        rty = f'option ({rty})'
    if t.get('fresh'):      # a constructor: starts from a record of zeros / empty arrays, every field is then assigned
        rec = RECORDS[t['cls']]
        z = '{| ' + '; '.join(f'{t["cls"]}_{f} := {"0" if ty == "Z" else "[]"}' for f, ty in rec[1]) + ' |}'
        ir = ('let', ['self'], ('sym', z, None), ir)
    out.append(f'Definition {t["coq"]} ' + ' '.join(f'({n} : {coqty(ty, t)})' for n, ty in ps) + f' : {rty} :=\n  {emit(ir, t)}.\n')
    return '\n'.join(out)


# ------------------------------------------------------------------- the interpreter of the IR used by the self-test
def ev(ir, v, ctx):
    """v: variables (self = dict of fields, arrays = python lists of floats); ctx: {'aux': {name: aux entry}, 'zero', 'one'}"""
    k = ir[0]
    R = lambda x: ev(x, v, ctx)
    if k == 'z':
        return ir[1]
    if k == 'var':
        return v[ir[1]]
    if k == 'fld':
        return v['self'][ir[1]]
    if k == 'op':
        return PYBIN[ir[1]](R(ir[2]), R(ir[3]))
    if k == 'neg':
        return -R(ir[1])
    if k == 'cmp':
        return PYCMP[ir[1]](R(ir[2]), R(ir[3]))
    if k == 'prim':
        a = [R(x) for x in ir[2]]
        if ir[1] in ('Z.max', 'Z.min', 'Z.abs'):
            return {'Z.max': max, 'Z.min': min, 'Z.abs': abs}[ir[1]](*a)
        if ir[1] == 'np_clip':
            return min(max(a[0], a[1]), a[2])
        _, _, ps, body = ctx['aux'][ir[1]]
        return ev(body, dict(zip(ps, a)), ctx)
    if k == 'zlen':
        return len(R(ir[1]))
    if k == 'zero':
        return 0.0
    if k == 'fill':
        return [0.0 if ir[1] == 'zero' else 1.0] * max(R(ir[2]), 0)
    if k == 'sym':
        return ir[2](v)
    if k == 'slice':
        return R(ir[3])[slice(None if ir[1] is None else R(ir[1]), None if ir[2] is None else R(ir[2]))]
    if k == 'setc':
        x = list(R(ir[4]))
        for i in range(*slice(None if ir[1] is None else R(ir[1]), None if ir[2] is None else R(ir[2])).indices(len(x))):
            x[i] = R(ir[3])
        return x
    if k == 'app':
        return [y for a in ir[1] for y in R(a)]
    if k == 'optdef':
        return R(ir[2]) if v[ir[1]] is None else v[ir[1]]
    if k == 'upd':
        return {**v['self'], ir[1]: R(ir[2])}
    if k == 'none':
        return None
    if k == 'some':
        return ('some', R(ir[1]))
    if k == 'tuple':
        return R(ir[1][0]) if len(ir[1]) == 1 else tuple(R(a) for a in ir[1])
    if k == 'let':
        val = R(ir[2])
        return ev(ir[3], {**v, **({ir[1][0]: val} if len(ir[1]) == 1 else dict(zip(ir[1], val)))}, ctx)
    if k == 'bind':
        val = R(ir[2])
        return None if val is None else ev(ir[3], {**v, ir[1]: val[1]}, ctx)
    if k == 'if':
        return R(ir[2]) if R(ir[1]) else R(ir[3])
    if k == 'loop':
        _, name, args, c, body, vs = ctx['aux'][ir[1]]
        fuel, w = ir[2][1](v), dict(v)
        while fuel > 0 and ev(c, w, ctx):
            fuel -= 1
            w = ev(body, w, ctx)
        if ev(c, w, ctx):
            raise Gap(f'self-test: loop {name} ran out of fuel')
        return w[vs[0]] if len(vs) == 1 else tuple(w[x] for x in vs)
    if k == 'loopcall':
        return v                                     # one iteration done: hand the variables back to the driver above
    raise Gap(f'ev: unknown IR node {k}')


# ------------------------------------------------------------------------------------------------------- driver
HEADER = ('From PV Require Import Common.PySlice Stim.Model.\nOpen Scope Z_scope.\n\n'
          '(* 2-D NumPy primitives of repeat(), for in-range non-negative bounds with hi - lo = len v (otherwise NumPy raises):\n'
          '   np.zeros((r, c)); rows[r0:, lo:hi] = v (v broadcast over the rows); rows.ravel() *)\n'
          'Definition np_zeros2 {A} (z : A) (r c : Z) : list (list A) := zrepeat (zrepeat z c) r.\n'
          'Definition np_set_rows {A} (r0 lo hi : Z) (v : list A) (rows : list (list A)) : list (list A) :=\n'
          '  firstn (Z.to_nat r0) rows\n'
          '  ++ map (fun row => firstn (Z.to_nat lo) row ++ v ++ skipn (Z.to_nat hi) row) (skipn (Z.to_nat r0) rows).\n'
          'Definition np_ravel {A} (rows : list (list A)) : list A := concat rows.\n\n')


def records():
    out = []
    for cls, (name, fields) in RECORDS.items():
        out.append(f'Record {name} := {{ ' + '; '.join(f'{cls}_{f} : {"Z" if ty == "Z" else "list sample"}' for f, ty in fields)
                   + ' }.')
    return '\n'.join(out) + '\n\n'


def translate(repo):
    """-> (coq text, {coq name: (target, ir, aux)}); raises Gap on anything unknown."""
    path = os.path.join(repo, 'psiaudio/stim.py')
    tree = ast.parse(open(path).read())
    body, defs = HEADER + records(), {}
    for t in TARGETS:
        tr = Tr(tree, t)
        ir = tr.run()
        body += definition(t, ir, tr.aux) + '\n'
        defs[t['coq']] = (t, ir, {a[1]: a for a in tr.aux})
    return body, defs


def call(defs, name, **v):
    t, ir, aux = defs[name]
    if t.get('fresh'):
        v = {**v, 'self': {f: (0 if ty == 'Z' else []) for f, ty in RECORDS[t['cls']][1]}}
    return ev(ir, v, {'aux': aux})


def selftest(defs, rng, n=40):
    """The IR (what is printed as Gallina) run by `ev` against the REAL functions / objects; a mismatch raises Gap."""
    import numpy as np
    from psiaudio import stim
    fs, count = 1000.0, 0

    def same(what, got, want, tol=0.0):
        nonlocal count
        count += 1
        g, w = np.asarray(got, dtype=float), np.asarray(want, dtype=float)
        if g.shape != w.shape or not np.all(np.abs(g - w) <= tol):
            raise Gap(f'self-test: {what}: the translation gives {got!r}, the real code {want!r}')

    class Inner(stim.Waveform):                      # a carrier whose sample at absolute index p is 1000 + p
        def __init__(self):
            self.offset = 0

        def reset(self):
            self.offset = 0

        def next(self, samples):
            self.offset += samples
            return 1000.0 + np.arange(self.offset - samples, self.offset)
    raw = lambda f: getattr(f, '__wrapped__', f)
    saved = stim.cos2ramp
    stim.cos2ramp = lambda m: 100.0 + np.arange(m)   # distinct ramp values, so that slice bounds are visible
    try:
        for _ in range(n):
            lb, dur, o = rng.randint(0, 6), rng.randint(0, 14), rng.randint(0, 24)
            rise = rng.randint(0, dur // 2 + 1)
            ns = rng.choice([None, rng.randint(0, 24)])
            got = call(defs, 'gen_envelope', nid=0, i_env_lb=lb, i_duration=dur, i_rise_time=rise, offset=o, samples=ns,
                       _ramp=stim.cos2ramp)
            try:
                want = raw(stim.envelope)('cosine-squared', fs, dur / fs, rise / fs, o, lb / fs, 'auto' if ns is None else ns)
            except ValueError:
                want = None
            if (got is None) != (want is None):
                raise Gap(f'self-test: envelope{(lb, dur, rise, o, ns)}: raises in one of translation / real code only')
            if got is not None:
                same(f'envelope{(lb, dur, rise, o, ns)}', got[1], want)
    finally:
        stim.cos2ramp = saved
    for _ in range(n):
        start, dur = rng.randint(0, 9), rng.randint(0, 12)
        obj = stim.GateFactory(fs, start / fs, dur / fs, Inner())
        st = call(defs, 'gen_gate_init', start_samples=start, duration_samples=dur)
        inner = Inner()
        for _ in range(4):
            for q in ('n_samples_remaining', 'n_samples', 'is_complete'):
                same(f'GateFactory({start},{dur}).{q} at {st["offset"]}', call(defs, 'gen_gate_' + q, self=st), getattr(obj, q)())
            c = rng.randint(0, 12)
            st2, out = call(defs, 'gen_gate_next', self=st, samples=c, token=list(inner.next(c)))
            same(f'GateFactory({start},{dur}).next({c}) at {st["offset"]}', out, obj.next(c))
            same('GateFactory.offset', st2['offset'], obj.offset)
            st = st2
        # EnvelopeFactory.next goes through the memoised envelope(): the real ramp and a rate no other caller uses
        rise, fe = rng.randint(0, dur // 2 + 1), 977.0
        obj = stim.EnvelopeFactory('cosine-squared', fe, dur / fe, rise / fe, Inner(), start / fe)
        if (obj.start_samples, obj.duration_samples, int(round(rise / fe * fe))) != (start, dur, rise):
            raise Gap('self-test: the sample counts of the probe EnvelopeFactory are not the intended ones')
        st, inner = call(defs, 'gen_gate_init', start_samples=start, duration_samples=dur), Inner()
        for _ in range(3):
            c = rng.randint(0, 12)
            got = call(defs, 'gen_env_next', nid=0, i_rise_time=rise, self=st, samples=c, token=list(inner.next(c)),
                       _defs=defs, _ramp=stim.cos2ramp)
            try:
                want = obj.next(c)
            except ValueError:
                want = None
            if (got is None) != (want is None):
                raise Gap(f'self-test: EnvelopeFactory({start},{dur},{rise}).next({c}): raises in one of translation / real code only')
            if got is None:
                break
            same(f'EnvelopeFactory({start},{dur},{rise}).next({c}) at {st["offset"]}', got[1][1], want, 1e-9)
            same('EnvelopeFactory.offset', got[1][0]['offset'], obj.offset)
            st = got[1][0]
        L = rng.randint(0, 14)
        obj = stim.FixedWaveform(fs, 1000.0 + np.arange(L))
        st = {'waveform': list(1000.0 + np.arange(L)), 'offset': 0}
        for _ in range(4):
            for q in ('n_samples_remaining', 'n_samples', 'is_complete'):
                same(f'FixedWaveform({L}).{q} at {st["offset"]}', call(defs, 'gen_fixed_' + q, self=st), getattr(obj, q)())
            c = rng.randint(0, 9)
            st2, out = call(defs, 'gen_fixed_next', self=st, samples=c)
            same(f'FixedWaveform({L}).next({c}) at {st["offset"]}', out, obj.next(c))
            same('FixedWaveform.offset', st2['offset'], obj.offset)
            st = st2
        cyc = rng.randint(1, 7)
        on = rng.randint(0, cyc)
        obj = stim.SquareWaveFactory(fs, 7.0, 100.0, 0.5)
        obj.cycle_samples, obj.on_samples = cyc, on
        st = {'nid': 0, 'cycle_samples': cyc, 'on_samples': on, 'offset': 0}
        for _ in range(4):
            c = rng.randint(0, 15)
            st2, out = call(defs, 'gen_square_next', self=st, samples=c)
            same(f'SquareWaveFactory(cycle {cyc}, on {on}).next({c}) at {st["offset"]}', out, obj.next(c))
            same('SquareWaveFactory.offset', st2['offset'], obj.offset)
            st = st2
        D, o, c = rng.randint(0, 9), rng.randint(0, 14), rng.randint(0, 12)
        depth, fm, ph, pw = 0.7, 31.0, 0.4, 1.3
        delay = (D + 0.25) / fs
        sam = lambda k: (depth / 2.0 * np.cos(2.0 * np.pi * fm * (k / fs) + ph) + 1.0 - depth / 2.0) * (1.0 / pw)
        got = call(defs, 'gen_sam_envelope', nid=0, D=int(delay * fs), offset=o, samples=c, _sam=sam)
        same(f'_sam_envelope(offset {o}, samples {c}, D {D})', got, raw(stim._sam_envelope)(o, c, fs, depth, fm, delay, ph, pw), 1e-12)
    class Halve(stim.Transform):                     # a transform that changes the length: offset advances by len(output)
        def __init__(self, inner):
            self.input_factory = inner
            self.reset()

        def transform(self, w):
            return 2.0 * w[:(len(w) + 1) // 2]
    for _ in range(n):
        period, sdelay, L = rng.randint(1, 9), rng.randint(0, 4), rng.randint(0, 8)
        nn, skip = rng.randint(0, 3), rng.randint(0, 2)
        arr, rate, delay = 1000.0 + np.arange(L), fs / period, sdelay / fs
        sp, sd = int(round(fs / rate)), int(round(fs * delay))
        got = call(defs, 'gen_repeat', s_period=sp, s_delay=sd, waveform=list(arr), n=nn, skip_n=skip)
        try:
            want = stim.repeat(arr, fs, nn, skip, rate, delay)
        except ValueError:
            want = None
        if (got is None) != (want is None):
            raise Gap(f'self-test: repeat(len {L}, n {nn}, skip {skip}, period {sp}, delay {sd}): raises in one of translation / real code only')
        if got is not None:
            same(f'repeat(len {L}, n {nn}, skip {skip}, period {sp}, delay {sd})', got[1], want)
        got = call(defs, 'gen_repeat_reset', s_period=sp, s_delay=sd, n=nn, skip_n=skip, self={'waveform': [], 'offset': 5},
                   waveform=list(arr), _defs=defs)
        try:
            obj = stim.RepeatFactory(fs, nn, skip, rate, delay, stim.FixedWaveform(fs, arr))
        except ValueError:
            obj = None
        if (got is None) != (obj is None):
            raise Gap('self-test: RepeatFactory.reset: raises in one of translation / real code only')
        if got is not None:
            same('RepeatFactory.reset waveform', got[1]['waveform'], obj.waveform)
            same('RepeatFactory.reset offset', got[1]['offset'], obj.offset)
        obj, inner, st = Halve(Inner()), Inner(), {'offset': 0}
        for _ in range(3):
            c = rng.randint(0, 9)
            tok = inner.next(c)
            st2, out = call(defs, 'gen_transform_next', self=st, samples=c, waveform=list(tok), transformed=list(obj.transform(tok)))
            same(f'Transform.next({c})', out, obj.next(c))
            same('Transform.offset', st2['offset'], obj.offset)
            st = st2
        obj.reset()
        same('Transform.reset', call(defs, 'gen_transform_reset', self=st)['offset'], obj.offset)
    return count


GEN = 'gen/StimIdxGen.v'
PINNED = ('pinned (not translated; any change of their text breaks the tie): the float conversions int(round(t * fs)) / int(delay * fs), '
          'the rise_time-is-None branch, the window look-up, the SAM formula, `transform`, the input factory\'s next / reset calls')


def hook(repo):
    """The `translate(repo)` hook of harness/C01.py and harness/C09.py: regenerate coq/gen/StimIdxGen.v from the source under
    test and self-test the translation against the real code.  A gap or a failed self-test is written as a generated file that
    does not compile (with the reason in it), so that the driver reports the tie as broken: fail closed."""
    import random
    import vlib
    info = {'gen_files': [GEN], 'source': [os.path.join(repo, 'psiaudio/stim.py')], 'gap': None,
            'targets': [t['qual'] for t in TARGETS]}
    head = ('(* GENERATED on every run by translate/pystim2coq.py (hook of harness/C01.py, harness/C09.py) from\n'
            f'   {repo}/psiaudio/stim.py - do not edit.  Index bookkeeping of: ' + ', '.join(info['targets']) + '.\n'
            '   nid = symbolic id of the node; i_env_lb / i_duration / i_rise_time / D / start_samples / duration_samples = the\n'
            '   pinned float conversions; token = what the input factory hands out. *)\n')
    try:
        body, defs = translate(repo)
        info['selftest'] = {'comparisons': selftest(defs, random.Random(11))}
        text = head + body
    except Gap as e:
        info['gap'] = str(e)
        msg = ''.join(ch if ch.isalnum() or ch in " _.,:;()[]{}=+-*/<>'`" else ' ' for ch in str(e))
        msg = msg.replace('(*', '( *').replace('*)', '* )')[:400]
        text = head + f'From Coq Require Import ZArith String.\nDefinition translator_gap : Z :=\n  "{msg}"%string.\n'
    with open(os.path.join(vlib.COQ, GEN), 'w') as f:       # always rewritten: always re-checked
        f.write(text)
    return info
