"""pydeterm2coq - fail-closed ALIASING translator of psiaudio/stim.py to coq/gen/DetermGen.v (property C10).

For every target of TARGETS the CURRENT source is read with `ast` and turned, statement by statement, into a small IR over the
heap of coq/Determ/Model.v: which array a statement hands on is a VIEW of an existing storage, a FRESH array, or an in-place
write.  The NumPy vocabulary with its aliasing behaviour is the table VOCAB below (semantics: coq/Determ/TieLib.v; this table and
that file are the trusted part).  The IR is (a) printed as Gallina and (b) run by the few-line interpreter `ev` in the self-test
against the REAL methods on REAL arrays (values, np.shares_memory, flags.writeable, object identity).  Anything the tables do not
cover raises Gap: nothing is skipped.  What is not array handling is PINNED by its `ast.unparse` text (PINS / CONTEXT): the
statement is dropped, or mapped to an abstract input (the inner generator's call, the memoised function's call, the carrier
formula); any other text is a Gap."""
import ast
import os


class Gap(Exception):
    """The source contains something the tables do not cover: the tie is broken, never skipped."""


def gap(node, why, fn=''):
    src = ast.unparse(node) if isinstance(node, ast.AST) else str(node)
    raise Gap(f'{fn} line {getattr(node, "lineno", "?")}: {why}: `{src[:140]}`')


# ---------------------------------------------------------------------------------------------------------- tables
# the objects' fields: class key -> [(python field, type)]   (Z integer, V a view of a heap storage)
RECORDS = {'fixed': [('waveform', 'V'), ('offset', 'Z')], 'car': [('offset', 'Z')], 'silence': [('fill_value', 'Z')],
           'gate': [('start_samples', 'Z'), ('duration_samples', 'Z'), ('offset', 'Z')]}
# pinned statements: text -> (variables it (re)binds with their types, IR of the bound value or None = dropped, is an option)
INT = {'samples = int(samples)': (['samples'], ['Z'], ('var', 'samples'), False)}
TONE = ('waveform = tone(self.fs, self.frequency, self.level, self.phase, self.polarity, calibration=self.calibration, '
        'offset=self.offset, samples=samples)')
PINS = {
    'fixed_reset': {'self.complete = False': None},
    'next': INT,
    # the one-shot carrier formula: a FRESH array (see CONTEXT) holding stream positions offset .. offset+samples-1 of carrier c
    'tone_next': {**INT, TONE: (['waveform'], ['A'], ('call', 'AFresh', [('call', 'car_values', [('var', 'c'), ('fld', 'offset'), ('var', 'samples')])]), False)},
    # dynamic dispatch to the wrapped generator: whatever it hands out is an array of the heap the caller may write through
    'gate_next': {**INT, 'token = self.input_factory.next(samples)':
                  [(['input_factory', 'h', 'token_'], ['I', 'H', 'V'], ('call', 'inner_next', [('var', 'h'), ('var', 'samples')]), True),
                   (['token'], ['W'], ('call', 'AView', [('var', 'token_')]), False)]},
    'gate_reset': {'self.input_factory.reset()': (['input_factory'], ['I'], ('call', 'inner_reset', [('var', 'input_factory')]), False)},
    # the memoised function itself: its result is made of arrays nobody else holds, put into the heap as writable storages
    'memo': {'result = f(*args, **kw)': (['h', 'result'], ['H', 'O'], ('call', 'res_alloc', [('var', 'h'), ('var', 'f_result')]), False)},
}
# text that must stand around the targets (class headers decide which reset() a GateFactory runs; the closure of fast_cache;
# the carrier formula builds its result by arithmetic = a fresh array)
CONTEXT = [('class', 'FixedWaveform', 'Waveform'), ('class', 'Carrier', 'Waveform'), ('class', 'Transform', 'Waveform'),
           ('class', 'Modulator', 'Transform'), ('class', 'GateFactory', 'Modulator'), ('class', 'ToneFactory', 'Carrier'),
           ('class', 'SilenceFactory', 'Carrier'),
           ('nodef', 'GateFactory', 'reset'), ('nodef', 'Modulator', 'reset'), ('nodef', 'Modulator', 'next'),
           ('nodef', 'Carrier', 'next'), ('nodef', 'Carrier', 'reset'),
           ('outer', 'fast_cache', ['cache = {}', 'kwd_marker = object()', '<def wrapper>', 'return wrapper']),
           ('tail', 'tone', ['t = (np.arange(samples, dtype=np.double) + offset) / fs',
                             'return polarity * rms * np.sqrt(2) * np.cos(2 * np.pi * t * frequency + phase)'])]
# qual, coq name, record, kind (proc: returns the object; next: option (object * heap * view); memo), pins, extra parameters
TARGETS = [
    dict(qual='FixedWaveform.reset', coq='gen_fixed_reset', cls='fixed', kind='proc', pins='fixed_reset'),
    dict(qual='FixedWaveform.next', coq='gen_fixed_next', cls='fixed', kind='next', pins='next'),
    dict(qual='ToneFactory.reset', coq='gen_tone_reset', cls='car', kind='proc'),
    dict(qual='ToneFactory.next', coq='gen_tone_next', cls='car', kind='next', pins='tone_next', lead=[('c', 'Z')]),
    dict(qual='SilenceFactory.reset', coq='gen_silence_reset', cls='silence', kind='proc'),
    dict(qual='SilenceFactory.next', coq='gen_silence_next', cls='silence', kind='next'),
    dict(qual='Transform.reset', coq='gen_gate_reset', cls='gate', kind='proc', pins='gate_reset', inner=True),
    dict(qual='GateFactory.next', coq='gen_gate_next', cls='gate', kind='next', pins='gate_next', inner=True),
    dict(qual='fast_cache.wrapper', coq='gen_fast_cache_wrapper', cls=None, kind='memo', pins='memo'),
]
COQTY = {'Z': 'Z', 'B': 'bool', 'H': 'heap', 'A': 'aval', 'W': 'aval', 'V': 'view', 'K': 'list pyval', 'C': 'pycache',
         'O': 'pyobj', 'LO': 'list pyobj', 'I': 'I', 'KW': 'list (Z * Z)', 'R': 'pyres'}
BIN = {ast.Add: '+', ast.Sub: '-', ast.Mult: '*', ast.FloorDiv: '/', ast.Mod: 'mod'}
CMP = {ast.Lt: '<?', ast.LtE: '<=?', ast.Gt: '>?', ast.GtE: '>=?', ast.Eq: '=?'}


# ---------------------------------------------------------- the vocabulary: Coq name -> Python meaning (for the self-test)
def py_lo(n, s):
    return 0 if s is None else (max(0, s + n) if s < 0 else min(s, n))


def py_hi(n, s):
    return n if s is None else (max(0, s + n) if s < 0 else min(s, n))


def alloc(h, d, ro):
    return h + [(list(d), ro)], (len(h), 0, len(d))


def read_view(h, v):
    return h[v[0]][0][max(v[1], 0):][:max(v[2], 0)] if 0 <= v[0] < len(h) else []


def a_vals(h, a):
    return read_view(h, a[1]) if a[0] == 'V' else list(a[1])


def a_slice(lo, hi, a):
    if a[0] == 'F':
        return ('F', a[1][slice(lo, hi)])
    n = a[1][2]
    x, y = py_lo(n, lo), py_hi(n, hi)
    return ('V', (a[1][0], a[1][1] + x, max(y - x, 0)))


def a_set_zero(h, a, lo, hi):
    if a[0] == 'F':
        d = list(a[1])
        d[slice(lo, hi)] = [0] * len(d[slice(lo, hi)])
        return ('some', (h, ('F', d)))
    sid, off, n = a[1]
    x, y = py_lo(n, lo), py_hi(n, hi)
    for i in range(x, max(y, x)):
        if not 0 <= sid < len(h) or h[sid][1]:
            return None
        d = list(h[sid][0])
        if off + i < len(d):
            d[off + i] = 0
        h = h[:sid] + [(d, h[sid][1])] + h[sid + 1:]
    return ('some', (h, a))


def res_alloc(h, r):
    def one(h, e):
        if e[0] == 'arr':
            h, v = alloc(h, e[1], False)
            return h, ('arr', v)
        return h, e
    if r[0] != 'tuple':
        return one(h, r)
    out = []
    for e in r[1]:
        h, o = one(h, e)
        out.append(o)
    return h, ('tuple', out)


def cache_get(k, c):
    for k2, o in c:
        if k2 == k:
            return ('some', o)
    return None


VOCAB = {
    'a_len': lambda a: a[1][2] if a[0] == 'V' else len(a[1]),
    'a_slice': a_slice, 'a_set_zero': a_set_zero,
    'a_zeros': lambda n: ('F', [0] * max(n, 0)), 'a_full': lambda n, x: ('F', [x] * max(n, 0)),
    'a_concat': lambda h, l: ('F', [x for a in l for x in a_vals(h, a)]), 'a_copy': lambda h, a: ('F', a_vals(h, a)),
    'a_same': lambda a: a, 'a_ret': lambda h, a: (h, a[1]) if a[0] == 'V' else alloc(h, a[1], False),
    'AView': lambda v: ('V', v), 'AFresh': lambda d: ('F', d),
    'car_values': lambda c, off, n: [-(1000000 * (c + 1) + off + i) for i in range(max(n, 0))],
    'Z.max': max, 'Z.min': min, 'Z.abs': abs,
    'PMarker': lambda: 'marker', 'kw_items': lambda kw: [('pair', k, v) for k, v in kw], 'py_sorted': lambda l: sorted(l),
    'res_alloc': res_alloc, 'is_tuple': lambda o: o[0] == 'tuple', 'is_ndarray': lambda o: o[0] == 'arr',
    'tuple_elems': lambda o: o[1] if o[0] == 'tuple' else [],
    'setflags_ro': lambda h, o: h[:o[1][0]] + [(h[o[1][0]][0], True)] + h[o[1][0] + 1:] if o[0] == 'arr' else h,
    'cache_mem': lambda k, c: cache_get(k, c) is not None, 'cache_get': cache_get, 'cache_set': lambda k, o, c: [(k, o)] + c,
}
COQ_OF = {'car_values': lambda a: f'(zrange (car_code {a[0]}) {a[1]} {a[2]})', 'PMarker': lambda a: 'PMarker'}


def find_def(tree, qual):
    body = tree.body
    for part in qual.split('.')[:-1]:
        found = [n for n in body if isinstance(n, (ast.ClassDef, ast.FunctionDef)) and n.name == part]
        if len(found) != 1:
            raise Gap(f'{qual}: {len(found)} definitions of {part} found, exactly one expected')
        body = found[0].body
    found = [n for n in body if isinstance(n, ast.FunctionDef) and n.name == qual.split('.')[-1]]
    if len(found) != 1:
        raise Gap(f'{qual}: {len(found)} definitions found, exactly one expected')
    return found[0]


def check_context(tree):
    classes = {n.name: n for n in tree.body if isinstance(n, ast.ClassDef)}
    for c in CONTEXT:
        if c[0] == 'class':
            n = classes.get(c[1])
            if n is None or [ast.unparse(b) for b in n.bases] != [c[2]] or n.keywords or n.decorator_list:
                raise Gap(f'class {c[1]} is no longer declared as `class {c[1]}({c[2]})`')
        elif c[0] == 'nodef':
            if any(isinstance(b, ast.FunctionDef) and b.name == c[2] for b in classes[c[1]].body):
                raise Gap(f'class {c[1]} now defines {c[2]}(): the method the translator reads is no longer the one that runs')
        elif c[0] == 'outer':
            f = find_def(tree, c[1])
            got = ['<def wrapper>' if isinstance(s, ast.FunctionDef) and s.name == 'wrapper' else ast.unparse(s) for s in f.body]
            w = find_def(tree, c[1] + '.wrapper')
            if got != c[2] or ast.unparse(f.args) != 'f' or ast.unparse(w.args) != '*args, **kw' or \
                    [ast.unparse(d) for d in w.decorator_list] != ['wraps(f)'] or f.decorator_list:
                raise Gap(f'the closure of {c[1]} changed: {got}')
        elif c[0] == 'tail':
            got = [ast.unparse(s) for s in find_def(tree, c[1]).body[-len(c[2]):]]
            if got != c[2]:
                raise Gap(f'{c[1]}() no longer ends with the pinned arithmetic (a fresh array): {got}')


# ------------------------------------------------------------------------------------------------- python ast -> IR
class Tr:
    def __init__(self, tree, t):
        self.tree, self.t, self.fn = tree, t, t['qual']
        self.fields = dict(RECORDS[t['cls']]) if t['cls'] else {}
        self.pins, self.used = dict(PINS.get(t.get('pins'), {})), set()

    def run(self):
        f = find_def(self.tree, self.fn)
        a, t = f.args, self.t
        if t['kind'] == 'memo':
            env = {'h': 'H', 'cache': 'C', 'args': 'K', 'kw': 'KW', 'kwd_marker': 'M'}
        else:
            want = ['self'] + (['samples'] if t['kind'] == 'next' else [])
            if a.vararg or a.kwarg or a.kwonlyargs or a.posonlyargs or a.defaults or [x.arg for x in a.args] != want:
                gap(f, 'unexpected signature', self.fn)
            env = {'h': 'H', 'samples': 'Z'} if t['kind'] == 'next' else {}
            if t.get('inner') and t['kind'] == 'proc':
                env['input_factory'] = 'I'
        if f.decorator_list and t['kind'] != 'memo':
            gap(f, 'decorated method', self.fn)
        ir = self.block(f.body, env, self.end)
        missing = set(self.pins) - self.used
        if missing:
            raise Gap(f'{self.fn}: pinned text no longer present: {sorted(missing)[0][:100]!r}')
        return ir

    def end(self, env):
        if self.t['kind'] != 'proc':
            raise Gap(f'{self.fn}: falls off the end without a return')
        return ('tuple', [('var', 'self')] + ([('var', 'input_factory')] if self.t.get('inner') else []))

    def writes(self, stmts, env):
        """the variables a statement list (re)binds - what an `if` hands on"""
        out = []
        for s in stmts:
            txt = ast.unparse(s)
            if txt in self.pins:
                acts = self.pins[txt] or []
                new = [n for a in (acts if isinstance(acts, list) else [acts]) for n in a[0]]
            elif isinstance(s, (ast.Assign, ast.AugAssign)):
                tg = s.targets[0] if isinstance(s, ast.Assign) else s.target
                if isinstance(tg, ast.Name):
                    new = [tg.id]
                elif isinstance(tg, ast.Attribute):
                    new = ['self']
                elif isinstance(tg, ast.Subscript) and isinstance(tg.value, ast.Name):
                    new = [tg.value.id] if env.get(tg.value.id) == 'C' else ['h', tg.value.id]
                else:
                    gap(tg, 'assignment target', self.fn)
            elif isinstance(s, ast.If):
                new = self.writes(s.body, env) + self.writes(s.orelse, env)
            elif isinstance(s, ast.For) or self.is_freeze(s, env):
                new = ['h']
            else:
                new = []
            out += [n for n in new if n not in out]
        return out

    # -- statements (continuation k gives what follows the list)
    def block(self, stmts, env, k):
        if not stmts:
            return k(env)
        s, rest = stmts[0], stmts[1:]
        nxt = lambda e: self.block(rest, e, k)
        txt = ast.unparse(s)
        if txt in self.pins:
            self.used.add(txt)
            act = self.pins[txt]
            if act is None:
                return nxt(env)
            def chain(acts, e):
                if not acts:
                    return nxt(e)
                names, tys, val, opt = acts[0]
                return ('bind' if opt else 'let', names, val, chain(acts[1:], {**e, **dict(zip(names, tys))}))
            return chain(act if isinstance(act, list) else [act], env)
        if isinstance(s, ast.Pass) or isinstance(s, ast.Expr) and isinstance(s.value, ast.Constant) and isinstance(s.value.value, str):
            return nxt(env)
        if isinstance(s, ast.Assign) and len(s.targets) == 1 or isinstance(s, ast.AugAssign):
            tgt = s.targets[0] if isinstance(s, ast.Assign) else s.target
            val = s.value if isinstance(s, ast.Assign) else ast.BinOp(left=tgt, op=s.op, right=s.value)
            if isinstance(tgt, ast.Name):
                e, ty = self.expr(val, env)
                if ty not in ('Z', 'A', 'K') or env.get(tgt.id, ty) not in (ty, 'W') or tgt.id in ('h', 'self', 'cache', 'input_factory'):
                    gap(s, 'assignment of an untranslated type / to a reserved name', self.fn)
                return ('let', [tgt.id], e, nxt({**env, tgt.id: ty}))      # (a rebound name is no longer the writable token)
            if isinstance(tgt, ast.Attribute) and ast.unparse(tgt.value) == 'self' and self.fields.get(tgt.attr) == 'Z':
                return ('let', ['self'], ('upd', tgt.attr, self.typed(val, env, 'Z')), nxt(env))
            if isinstance(s, ast.Assign) and isinstance(tgt, ast.Subscript) and isinstance(tgt.value, ast.Name):
                nm = tgt.value.id
                if env.get(nm) == 'C':                                          # cache[key] = result
                    e = ('call', 'cache_set', [self.typed(tgt.slice, env, 'K'), self.typed(s.value, env, 'O'), ('var', nm)])
                    return ('let', [nm], e, nxt(env))
                if env.get(nm) == 'W' and isinstance(tgt.slice, ast.Slice) and tgt.slice.step is None and \
                        isinstance(s.value, ast.Constant) and s.value.value == 0 and type(s.value.value) is int:
                    lo, hi = self.bound(tgt.slice.lower, env), self.bound(tgt.slice.upper, env)
                    return ('bind', ['h', nm], ('call', 'a_set_zero', [('var', 'h'), ('var', nm), lo, hi]), nxt(env))
            gap(s, 'unsupported assignment', self.fn)
        if self.is_freeze(s, env):                                              # x.setflags(write=False)
            return ('let', ['h'], self.freeze([s], env), nxt(env))
        if isinstance(s, ast.If):
            c = self.typed(s.test, env, 'B')
            ws = self.writes(s.body, env) + [w for w in self.writes(s.orelse, env) if w not in self.writes(s.body, env)]
            vs = [v for v in ws if v in env or v == 'self']            # branch-local names are not visible afterwards
            tys = {}

            def tail(e):
                for v in vs:
                    if v != 'self' and tys.setdefault(v, e[v]) != e[v]:
                        gap(s, f'{v} has two types', self.fn)
                return ('some', ('tuple', [('var', v) for v in vs]))
            a, b = self.block(s.body, env, tail), self.block(s.orelse, env, tail)
            if not vs:
                gap(s, 'an `if` that changes nothing', self.fn)
            return ('bind', vs, ('if', c, a, b), nxt({**env, **tys}))
        if isinstance(s, ast.For):
            # for a in <objects>: [if isinstance(a, np.ndarray):] a.setflags(write=False)    (changes the heap only)
            if s.orelse or not isinstance(s.target, ast.Name) or s.target.id in env:
                gap(s, 'unsupported loop', self.fn)
            it = self.typed(s.iter, env, 'LO')
            return ('let', ['h'], ('fold', it, s.target.id, self.freeze(s.body, {**env, s.target.id: 'O'})), nxt(env))
        if isinstance(s, ast.Return) and s.value is not None and not rest and k == self.end:
            if self.t['kind'] == 'next':
                out = [('var', 'self')] + ([('var', 'input_factory')] if self.t.get('inner') else []) + [('var', 'h'), ('var', 'r_')]
                return ('let', ['h', 'r_'], ('call', 'a_ret', [('var', 'h'), self.arr(s.value, env)]), ('some', ('tuple', out)))
            if self.t['kind'] == 'memo' and isinstance(s.value, ast.Subscript) and env.get(ast.unparse(s.value.value)) == 'C':
                e = ('call', 'cache_get', [self.typed(s.value.slice, env, 'K'), ('var', ast.unparse(s.value.value))])
                return ('bind', ['r_'], e, ('some', ('tuple', [('var', 'h'), ('var', 'cache'), ('var', 'r_')])))
        gap(s, 'unsupported statement', self.fn)

    def is_freeze(self, s, env):
        return isinstance(s, ast.Expr) and isinstance(s.value, ast.Call) and ast.unparse(s.value).endswith('.setflags(write=False)') and \
            isinstance(s.value.func.value, ast.Name) and env.get(s.value.func.value.id) == 'O'

    def freeze(self, stmts, env):
        """statements that only change flags of heap storages, as an expression for the heap afterwards"""
        ir = ('var', 'h')
        for s in reversed(stmts):
            if isinstance(s, ast.If) and not s.orelse:
                ir = ('let', ['h'], ('if', self.typed(s.test, env, 'B'), self.freeze(s.body, env), ('var', 'h')), ir)
            elif self.is_freeze(s, env):
                ir = ('let', ['h'], ('call', 'setflags_ro', [('var', 'h'), ('var', s.value.func.value.id)]), ir)
            else:
                gap(s, 'unsupported statement in a loop over the result', self.fn)
        return ir

    def bound(self, n, env):
        return ('opt', None if n is None else self.typed(n, env, 'Z'))

    # -- expressions: (ir, type)
    def expr(self, n, env):
        Z = lambda m: self.typed(m, env, 'Z')
        if isinstance(n, ast.Constant) and type(n.value) is int:
            return ('z', n.value), 'Z'
        if isinstance(n, ast.Name):
            if n.id == 'kwd_marker' and env.get(n.id) == 'M':
                return ('call', 'PMarker', []), 'P'
            if env.get(n.id) in ('Z', 'A', 'W', 'K', 'O', 'C', 'KW'):
                return ('var', n.id), env[n.id]
            gap(n, 'name unknown here', self.fn)
        if isinstance(n, ast.Attribute) and ast.unparse(n.value) == 'self' and n.attr in self.fields:
            return (('fld', n.attr), 'Z') if self.fields[n.attr] == 'Z' else (('call', 'AView', [('fld', n.attr)]), 'A')
        if isinstance(n, ast.BinOp) and type(n.op) in BIN:
            l, lt = self.expr(n.left, env)
            if lt == 'K' and isinstance(n.op, ast.Add):
                return ('app', [l, self.typed(n.right, env, 'K')]), 'K'
            return ('op', BIN[type(n.op)], Z(n.left), Z(n.right)), 'Z'
        if isinstance(n, ast.UnaryOp) and isinstance(n.op, ast.USub):
            return ('neg', Z(n.operand)), 'Z'
        if isinstance(n, ast.Compare) and len(n.ops) == 1:
            if type(n.ops[0]) in CMP:
                return ('cmp', CMP[type(n.ops[0])], Z(n.left), Z(n.comparators[0])), 'B'
            if isinstance(n.ops[0], (ast.In, ast.NotIn)) and env.get(ast.unparse(n.comparators[0])) == 'C':
                e = ('call', 'cache_mem', [self.typed(n.left, env, 'K'), ('var', ast.unparse(n.comparators[0]))])
                return (('not', e) if isinstance(n.ops[0], ast.NotIn) else e), 'B'
        if isinstance(n, ast.Tuple) and len(n.elts) == 1:
            e, ty = self.expr(n.elts[0], env)
            if ty in ('P', 'O'):
                return ('list', [e]), {'P': 'K', 'O': 'LO'}[ty]
        if isinstance(n, ast.IfExp):
            c = self.typed(n.test, env, 'B')
            as_list = lambda m: ('call', 'tuple_elems', [self.typed(m, env, 'O')]) if isinstance(m, ast.Name) else self.typed(m, env, 'LO')
            return ('if', c, as_list(n.body), as_list(n.orelse)), 'LO'          # (iterating over a tuple = over its elements)
        if isinstance(n, ast.Subscript):
            if isinstance(n.value, ast.Attribute) and n.value.attr == 'shape' and ast.unparse(n.slice) == '-1':
                return ('call', 'a_len', [self.arr(n.value.value, env)]), 'Z'
            if isinstance(n.slice, ast.Slice) and n.slice.step is None:          # basic slicing: a view
                return ('call', 'a_slice', [self.bound(n.slice.lower, env), self.bound(n.slice.upper, env), self.arr(n.value, env)]), 'A'
        if isinstance(n, ast.Call):
            f, na = ast.unparse(n.func), len(n.args)
            kw = {k.arg: ast.unparse(k.value) for k in n.keywords}
            if f == 'np.concatenate' and kw in ({}, {'axis': '-1'}) and na == 1 and isinstance(n.args[0], ast.Tuple):
                return ('call', 'a_concat', [('var', 'h'), ('list', [self.arr(x, env) for x in n.args[0].elts])]), 'A'
            if kw or any(isinstance(x, ast.Starred) for x in n.args):
                gap(n, 'keyword / starred arguments', self.fn)
            if f in ('max', 'min') and na == 2:
                return ('call', 'Z.' + f, [Z(x) for x in n.args]), 'Z'
            if f == 'abs' and na == 1:
                return ('call', 'Z.abs', [Z(n.args[0])]), 'Z'
            if f == 'int' and na == 1:
                return Z(n.args[0]), 'Z'
            if f == 'len' and na == 1:
                return ('call', 'a_len', [self.arr(n.args[0], env)]), 'Z'
            if f == 'np.zeros' and na == 1:
                return ('call', 'a_zeros', [Z(n.args[0])]), 'A'
            if f == 'np.full' and na == 2:
                return ('call', 'a_full', [Z(n.args[0]), Z(n.args[1])]), 'A'
            if f in ('np.asarray', 'np.ascontiguousarray') and na == 1:
                return ('call', 'a_same', [self.arr(n.args[0], env)]), 'A'
            if f == 'np.array' and na == 1:
                return ('call', 'a_copy', [('var', 'h'), self.arr(n.args[0], env)]), 'A'
            if isinstance(n.func, ast.Attribute) and n.func.attr == 'copy' and na == 0:
                return ('call', 'a_copy', [('var', 'h'), self.arr(n.func.value, env)]), 'A'
            if f == 'isinstance' and na == 2 and ast.unparse(n.args[1]) in ('tuple', 'np.ndarray'):
                return ('call', {'tuple': 'is_tuple', 'np.ndarray': 'is_ndarray'}[ast.unparse(n.args[1])], [self.typed(n.args[0], env, 'O')]), 'B'
            if f == 'tuple' and na == 1:
                return self.typed(n.args[0], env, 'K'), 'K'
            if f == 'sorted' and na == 1:
                return ('call', 'py_sorted', [self.typed(n.args[0], env, 'K')]), 'K'
            if f.endswith('.items') and na == 0 and env.get(ast.unparse(n.func.value)) == 'KW':
                return ('call', 'kw_items', [('var', ast.unparse(n.func.value))]), 'K'
        gap(n, 'unsupported expression', self.fn)

    def arr(self, n, env):
        e, ty = self.expr(n, env)
        if ty not in ('A', 'W'):
            gap(n, f'expected an array, found {ty}', self.fn)
        return e

    def typed(self, n, env, want):
        e, ty = self.expr(n, env)
        if ty != want:
            gap(n, f'expected {want}, found {ty}', self.fn)
        return e


# --------------------------------------------------------------------------------------------------- IR -> Gallina
def emit(ir, t, ind='  '):
    pre = (t['cls'] + '_') if t['cls'] else ''
    E = lambda x: emit(x, t, ind)
    k = ir[0]
    pat = lambda ns: ns[0] if len(ns) == 1 else '(' + ', '.join(ns) + ')'
    if k == 'z':
        return str(ir[1]) if ir[1] >= 0 else f'({ir[1]})'
    if k == 'var':
        return ir[1]
    if k == 'fld':
        return f'({pre}{ir[1]} self)'
    if k in ('op', 'cmp'):
        return f'({E(ir[2])} {ir[1]} {E(ir[3])})'
    if k == 'neg':
        return f'(- {E(ir[1])})'
    if k == 'not':
        return f'(negb {E(ir[1])})'
    if k == 'call':
        args = [E(a) for a in ir[2]]
        return COQ_OF[ir[1]](args) if ir[1] in COQ_OF else '(' + ' '.join([ir[1]] + args) + ')'
    if k == 'opt':
        return 'None' if ir[1] is None else f'(Some {E(ir[1])})'
    if k == 'list':
        return '[' + '; '.join(E(a) for a in ir[1]) + ']'
    if k == 'app':
        return '(' + ' ++ '.join(E(a) for a in ir[1]) + ')'
    if k == 'upd':
        return '{| ' + '; '.join(f'{pre}{f} := {E(ir[2]) if f == ir[1] else f"{pre}{f} self"}' for f, _ in RECORDS[t['cls']]) + ' |}'
    if k == 'none':
        return 'None'
    if k == 'some':
        return f'Some {E(ir[1])}'
    if k == 'tuple':
        return E(ir[1][0]) if len(ir[1]) == 1 else '(' + ', '.join(E(a) for a in ir[1]) + ')'
    if k == 'let':
        p = ir[1][0] if len(ir[1]) == 1 else "'" + pat(ir[1])
        return f'let {p} := {E(ir[2])} in\n{ind}{E(ir[3])}'
    if k == 'bind':
        return f'match {E(ir[2])} with\n{ind}| None => None\n{ind}| Some {pat(ir[1])} =>\n{ind}{E(ir[3])}\n{ind}end'
    if k == 'if':
        br = lambda x: f'({emit(x, t, ind + "  ")})' if x[0] in ('let', 'bind') else emit(x, t, ind + '  ')
        return f'(if {E(ir[1])} then {br(ir[2])}\n{ind}else {br(ir[3])})'
    if k == 'fold':
        return f'fold_left (fun h {ir[2]} => {emit(ir[3], t, ind + "  ")}) {E(ir[1])} h'
    raise Gap(f'emit: unknown IR node {k}')


def definition(t, ir):
    rec = t['cls'] + '_st' if t['cls'] else None
    ps = [(n, COQTY[ty]) for n, ty in t.get('lead', [])]
    if t['kind'] == 'memo':
        ps += [('h', 'heap'), ('cache', 'pycache'), ('args', 'list pyval'), ('kw', 'list (Z * Z)'), ('f_result', 'pyres')]
        rty = 'option (heap * pycache * pyobj)'
    elif t['kind'] == 'next':
        ps = ([('inner_next', 'heap -> Z -> option (I * heap * view)')] if t.get('inner') else []) + ps + \
            [('h', 'heap'), ('self', rec), ('samples', 'Z')]
        rty = f'option ({rec} * {"I * " if t.get("inner") else ""}heap * view)'
    else:
        ps = ([('inner_reset', 'I -> I')] if t.get('inner') else []) + ps + [('self', rec)] + ([('input_factory', 'I')] if t.get('inner') else [])
        rty = rec + (' * I' if t.get('inner') else '')
    return f'Definition {t["coq"]} ' + ('{I : Type} ' if t.get('inner') else '') + ' '.join(f'({n} : {ty})' for n, ty in ps) + \
        f' : {rty} :=\n  {emit(ir, t)}.\n'


# ------------------------------------------------------------------- the interpreter of the IR used by the self-test
def ev(ir, v):
    k = ir[0]
    R = lambda x: ev(x, v)
    if k == 'z':
        return ir[1]
    if k == 'var':
        return v[ir[1]]
    if k == 'fld':
        return v['self'][ir[1]]
    if k == 'op':
        a, b = R(ir[2]), R(ir[3])
        return {'+': lambda: a + b, '-': lambda: a - b, '*': lambda: a * b, '/': lambda: a // b if b else 0, 'mod': lambda: a % b if b else a}[ir[1]]()
    if k == 'cmp':
        a, b = R(ir[2]), R(ir[3])
        return {'<?': a < b, '<=?': a <= b, '>?': a > b, '>=?': a >= b, '=?': a == b}[ir[1]]
    if k == 'neg':
        return -R(ir[1])
    if k == 'not':
        return not R(ir[1])
    if k == 'call':
        f = v[ir[1]] if ir[1] in ('inner_next', 'inner_reset') else VOCAB[ir[1]]
        return f(*[R(a) for a in ir[2]])
    if k == 'opt':
        return None if ir[1] is None else R(ir[1])
    if k == 'list':
        return [R(a) for a in ir[1]]
    if k == 'app':
        return [x for a in ir[1] for x in R(a)]
    if k == 'upd':
        return {**v['self'], ir[1]: R(ir[2])}
    if k == 'none':
        return None
    if k == 'some':
        return ('some', R(ir[1]))
    if k == 'tuple':
        return R(ir[1][0]) if len(ir[1]) == 1 else tuple(R(a) for a in ir[1])
    if k in ('let', 'bind'):
        val = R(ir[2])
        if k == 'bind':
            if val is None:
                return None
            val = val[1]
        return ev(ir[3], {**v, **({ir[1][0]: val} if len(ir[1]) == 1 else dict(zip(ir[1], val)))})
    if k == 'if':
        return R(ir[2]) if R(ir[1]) else R(ir[3])
    if k == 'fold':
        h = v['h']
        for a in R(ir[1]):
            h = ev(ir[3], {**v, 'h': h, ir[2]: a})
        return h
    raise Gap(f'ev: unknown IR node {k}')


# ------------------------------------------------------------------------------------------------------- driver
HEADER = ('From PV Require Import Common.PySlice Determ.Model Determ.TieLib.\nOpen Scope Z_scope.\n\n')


def records():
    return '\n'.join(f'Record {cls}_st := {{ ' + '; '.join(f'{cls}_{f} : {COQTY[ty]}' for f, ty in fields) + ' }.'
                     for cls, fields in RECORDS.items()) + '\n\n'


def translate(repo):
    """-> (coq text, {coq name: IR}); raises Gap on anything unknown."""
    tree = ast.parse(open(os.path.join(repo, 'psiaudio/stim.py')).read())
    check_context(tree)
    body, defs = HEADER + records(), {}
    for t in TARGETS:
        ir = Tr(tree, t).run()
        body += f'(* {t["qual"]}, line {find_def(tree, t["qual"]).lineno} *)\n' + definition(t, ir) + '\n'
        defs[t['coq']] = ir
    return body, defs


def selftest(defs, rng, n=30):
    """The IR (what is printed as Gallina) run by `ev` against the REAL methods on REAL arrays: values, which array shares
    memory with which, write flags, object identity of memoised results.  A mismatch raises Gap."""
    import numpy as np
    from psiaudio import stim
    count = 0

    def same(what, got, want):
        nonlocal count
        count += 1
        if got != want:
            raise Gap(f'self-test: {what}: the translation gives {got!r}, the real code {want!r}')
    fs = 1000.0
    for _ in range(n):
        # FixedWaveform over storage 0 (+ an unrelated storage 1); the caller scribbles into what it gets
        L = rng.randint(0, 12)
        base = 1000.0 + np.arange(L)
        obj = stim.FixedWaveform(fs, base)
        h, st = [([int(x) for x in base], False), ([7, 7], False)], {'waveform': (0, 0, L), 'offset': 0}
        for _ in range(4):
            if rng.random() < 0.25:
                obj.reset()
                st = ev(defs['gen_fixed_reset'], {'self': st})
            c = rng.randint(0, 9)
            r = obj.next(c)
            st, h, v = ev(defs['gen_fixed_next'], {'h': h, 'self': st, 'samples': c})[1]
            same(f'FixedWaveform({L}).next({c}) values', read_view(h, v), [int(x) for x in r])
            if len(r):                                           # (an empty array shares memory with nothing)
                same(f'FixedWaveform({L}).next({c}) is a view of the stored waveform', v[0] == 0, bool(np.shares_memory(r, base)))
            same('FixedWaveform.offset', st['offset'], obj.offset)
            if len(r) and r.flags.writeable:                      # the caller owns what it was handed
                r[0] = -5.0
                d = list(h[v[0]][0])
                d[v[1]] = -5
                h = h[:v[0]] + [(d, h[v[0]][1])] + h[v[0] + 1:]
            same(f'FixedWaveform({L}): the stored waveform after the caller wrote into the result', h[0][0], [int(x) for x in obj.waveform])
        # GateFactory around a FixedWaveform: the token it receives is zeroed in place and handed on
        start, dur = rng.randint(0, 8), rng.randint(0, 9)
        base = 1000.0 + np.arange(L)
        inner = stim.FixedWaveform(fs, base)
        g = stim.GateFactory(fs, start / fs, dur / fs, inner)
        h, ist, gst = [([int(x) for x in base], False)], {'waveform': (0, 0, L), 'offset': 0}, \
            {'start_samples': start, 'duration_samples': dur, 'offset': 0}
        for _ in range(4):
            if rng.random() < 0.2:
                g.reset()
                gst, ist = ev(defs['gen_gate_reset'], {'self': gst, 'input_factory': ist,
                                                       'inner_reset': lambda i: ev(defs['gen_fixed_reset'], {'self': i})})
            c = rng.randint(0, 9)
            tok = []
            orig = inner.next
            inner.next = lambda s: tok.append(orig(s)) or tok[-1]
            r = g.next(c)
            inner.next = orig
            inner_next = lambda hh, s, ist=ist: ev(defs['gen_fixed_next'], {'h': hh, 'self': ist, 'samples': s})
            gst, ist, h, v = ev(defs['gen_gate_next'], {'h': h, 'self': gst, 'samples': c, 'inner_next': inner_next})[1]
            same(f'GateFactory({start},{dur}).next({c}) values', read_view(h, v), [int(x) for x in r])
            same('GateFactory.next hands on the very array it received', True, r is tok[0])
            same('GateFactory.offset / inner offset', (gst['offset'], ist['offset']), (g.offset, inner.offset))
        # carriers: a fresh writable array every time
        tone, sil = stim.ToneFactory(fs, 50.0, 1.0), stim.SilenceFactory(3)
        tst, sst, h, prev = {'offset': 0}, {'fill_value': 3}, [], []
        for _ in range(3):
            c = rng.randint(0, 9)
            r, s = tone.next(c), sil.next(c)
            tst, h, v = ev(defs['gen_tone_next'], {'h': h, 'self': tst, 'samples': c, 'c': 0})[1]
            same('ToneFactory.next: stream positions', [-(x + 1000000) for x in read_view(h, v)], list(range(tone.offset - c, tone.offset)))
            same('ToneFactory.next is a fresh writable array', (v[0] == len(h) - 1, h[v[0]][1]),
                 (not any(np.shares_memory(r, p) for p in prev), not r.flags.writeable))
            sst, h, v = ev(defs['gen_silence_next'], {'h': h, 'self': sst, 'samples': c})[1]
            same('SilenceFactory.next values', read_view(h, v), [int(x) for x in s])
            same('SilenceFactory.next is a fresh writable array', (v[0] == len(h) - 1, h[v[0]][1]),
                 (not any(np.shares_memory(s, p) for p in prev + [r]), not s.flags.writeable))
            prev += [r, s]
            if rng.random() < 0.3:
                tone.reset(), sil.reset()
                tst, sst = ev(defs['gen_tone_reset'], {'self': tst}), ev(defs['gen_silence_reset'], {'self': sst})
                same('ToneFactory.reset', tst['offset'], tone.offset)
    # the memo wrapper on a function returning a bare array / a scalar / a tuple (arrays, a scalar, a nested tuple)
    def body(kind, *a, **k):
        mk = lambda j: np.arange(3.0) + 10 * j
        return mk(1) if kind == 0 else 2.5 if kind == 1 else (mk(1), 7, mk(2))
    res = {0: ('arr', [10, 11, 12]), 1: ('other', 2), 2: ('tuple', [('arr', [10, 11, 12]), ('other', 7), ('arr', [20, 21, 22])])}
    for _ in range(n):
        f = stim.fast_cache(body)
        h, cache, held, calls = [], [], [], []
        for _ in range(6):
            kind, x = rng.randint(0, 2), rng.randint(0, 2)
            form = rng.choice([((kind, x), {}), ((kind,), {'p': x}), ((kind,), {'q': x}), ((kind,), {'p': x, 'q': 1}), ((kind,), {'q': 1, 'p': x}),
                               ((kind, ('p', x)), {}), ((kind, x, 1), {})])
            r = f(*form[0], **form[1])
            enc = lambda a: a if isinstance(a, int) else ('pair', a[0], a[1])
            out = ev(defs['gen_fast_cache_wrapper'], {'h': h, 'cache': cache, 'args': [enc(a) for a in form[0]], 'kwd_marker': None,
                                                       'kw': list(form[1].items()), 'f_result': res[kind]})
            h, cache, o = out[1]
            if kind != 1:                                       # which earlier call handed out the very same object
                first = next((i for i, p in enumerate(held) if p[0] is r), len(held))
                firstm = next((i for i, p in enumerate(held) if p[1] == o), len(held))
                same(f'fast_cache: call {form} returns the stored object of call', firstm, first)
                held.append((r, o))
            for a, e in zip(r if isinstance(r, tuple) else (r,), o[1] if o[0] == 'tuple' else [o]):
                if isinstance(a, np.ndarray):
                    same(f'fast_cache: result of {form}: array / read-only', (e[0], h[e[1][0]][1], read_view(h, e[1])),
                         ('arr', not a.flags.writeable, [int(y) for y in a]))
    return count


GEN = 'gen/DetermGen.v'
PINNED = ('pinned, not translated (a change of their text breaks the tie): `samples = int(samples)`, the one-shot carrier call of '
          'ToneFactory.next and the arithmetic tail of tone() (a fresh array), `self.input_factory.next(samples)` / `.reset()` (dynamic '
          'dispatch to the wrapped generator), `result = f(*args, **kw)` (the memoised function builds arrays nobody else holds), the '
          'closure of fast_cache (cache = {}, kwd_marker = object(), @wraps), the class headers deciding which reset() a GateFactory runs, '
          '`self.complete = False`')


def hook(repo):
    """The `translate(repo)` hook of harness/C10.py: regenerate coq/gen/DetermGen.v from the source under test and self-test the
    translation against the real code.  A gap or a failed self-test is written as a generated file that does not compile (with the
    reason in it), so that the driver reports the tie as broken: fail closed."""
    import random
    import vlib
    info = {'gen_files': [GEN], 'source': [os.path.join(repo, 'psiaudio/stim.py')], 'gap': None, 'targets': [t['qual'] for t in TARGETS]}
    head = ('(* GENERATED on every run by translate/pydeterm2coq.py (hook of harness/C10.py) from\n'
            f'   {repo}/psiaudio/stim.py - do not edit.  Array handling (view / fresh / in-place write / read-only) of: '
            + ', '.join(info['targets']) + '.\n   Vocabulary: coq/Determ/TieLib.v; tied to coq/Determ/Model.v by coq/Determ/ProofsTie.v. *)\n')
    try:
        body, defs = translate(repo)
        info['selftest'] = {'comparisons': selftest(defs, random.Random(10))}
        text = head + body
    except Gap as e:
        info['gap'] = str(e)
        msg = ''.join(ch if ch.isalnum() or ch in " _.,:;()[]{}=+-*/<>'`" else ' ' for ch in str(e))
        msg = msg.replace('(*', '( *').replace('*)', '* )')[:400]
        text = head + f'From Coq Require Import ZArith String.\nDefinition translator_gap : Z :=\n  "{msg}"%string.\n'
    with open(os.path.join(vlib.COQ, GEN), 'w') as f:       # always rewritten: always re-checked
        f.write(text)
    return info
