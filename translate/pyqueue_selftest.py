"""Self-test of translate/pyqueue2coq.py: the REAL methods of psiaudio.queue run on real queue objects (fs = 1, so a time is
its sample number), and what they did - value returned, every field afterwards, the notifications, the exception -
written as `Example g_<method> <object before> <arguments> = <outcome>`, which Coq checks against the emitted definitions
by vm_compute when coq/gen/QueueStepGen.v is compiled.  Random choices (np.random.randint, RandomState.shuffle) are
recorded in a dry run on a deep copy and handed to the definitions as the model's oracles."""
import copy
import importlib.util
import os
import random

import numpy as np

EXCS = {'QueueEmptyError': 'EQueueEmpty', 'KeyError': 'EKeyError', 'ValueError': 'EValueError', 'IndexError': 'EIndexError',
        'TypeError': 'ETypeError', 'AttributeError': 'ETypeError', 'StopIteration': 'EStopIteration',
        'ZeroDivisionError': 'EZeroDivision'}


class _Gen:
    """a factory: n samples, restartable"""

    def __init__(self, key, n):
        self.key, self.n, self.pos = key, n, 0

    def reset(self):
        self.pos = 0

    def get_duration(self):
        return float(self.n)

    def n_samples_remaining(self):
        return self.n - self.pos

    def next(self, k):
        out = 1000.0 * (self.key + 1) + np.arange(self.pos, self.pos + k)
        self.pos += k
        return out

    def is_complete(self):
        return self.pos >= self.n


def zi(x):
    x = int(x)
    return f'({x})' if x < 0 else str(x)


def zs(v):
    return '[' + '; '.join(zi(x) for x in v) + ']'


def bl(b):
    return 'true' if b else 'false'


class _Case:
    def __init__(self, mod, pol, stims, gs=2, seed=0):
        cls = {'fifo': mod.FIFOSignalQueue, 'inter_keep': mod.InterleavedFIFOSignalQueue, 'inter_nokeep': mod.InterleavedFIFOSignalQueue,
               'random': mod.RandomSignalQueue, 'blocked_random': mod.BlockedRandomSignalQueue,
               'grouped': mod.GroupedFIFOSignalQueue, 'blocked_fifo': mod.BlockedFIFOSignalQueue}[pol]
        kw = {'fs': 1.0}
        if pol.startswith('inter'):
            kw['keep_complete_waveforms'] = pol == 'inter_keep'
        if pol == 'blocked_random':
            kw['seed'] = seed
        if pol == 'grouped':
            kw['group_size'] = gs
        self.mod, self.pol, self.stims = mod, pol, stims
        self.q = cls(**kw)
        for k, (kind, n, trials, delay) in enumerate(stims):
            src = (1000.0 * (k + 1) + np.arange(n)) if kind == 'array' else _Gen(k, n)
            self.q.append(src, trials, delays=delay)
        self.keys = list(self.q._data.keys())
        self.started = [0] * len(stims)         # next(delays) calls so far, per stimulus
        self.attach(self.q, count=True)

    def attach(self, q, count=False):
        ev = []

        def added(info):
            ev.append(f"EAdded {self.keys.index(info['key'])} {zi(round(info['t0']))}")
            if count:
                self.started[self.keys.index(info['key'])] += 1
        q._notifiers = {'added': [added], 'removed': [lambda i: ev.append(f"ERemoved {self.keys.index(i['key'])} {zi(round(i['t0']))}")],
                        'decrement': [], 'empty': [lambda i: ev.append('EEmpty')]}
        return ev

    def state(self, q, started, choices, perms, ev):
        idx = self.keys.index
        name = type(q).__name__
        pol = {'FIFOSignalQueue': 'PFifo', 'RandomSignalQueue': 'PRandom', 'BlockedRandomSignalQueue': 'PBlockedRandom'}.get(name)
        if pol is None:
            pol = f'(PInter {bl(q._keep_complete_waveforms)})' if name == 'InterleavedFIFOSignalQueue' else f'(PGrouped {zi(q._group_size)})'
        es = []
        for k, key in enumerate(self.keys):
            d, (kind, n, trials, delay) = q._data[key], self.stims[k]
            es.append(f'{{| e_trials := {zi(d["trials"])}; e_requested := {zi(d["requested_trials"])}; e_len := {n}; '
                      f'e_kind := {"KArray" if kind == "array" else "KGen"}; e_delays := [{zi(delay)}]; e_cyclic := true; '
                      f'e_dpos := {started[k]}; e_dur := {zi(round(d["duration"]))} |}}')
        s = q._source
        if s is None:
            src = 'None'
        elif isinstance(s, _Gen):
            src = f'(Some ({s.key}, {zi(s.pos)}, {s.n}))'
        else:                                       # an ndarray: the samples say which part of which waveform it is
            if len(s):
                k, a = int(s[0]) // 1000 - 1, int(s[0]) % 1000
            else:
                k = idx(q._generated[-1]['key'])
                a = self.stims[k][1]
            src = f'(Some ({k}, {a}, {a + len(s)}))'
        gen = '; '.join(f'{{| i_t0 := {zi(round(i["t0"]))}; i_dur := {zi(round(i["duration"]))}; i_key := {idx(i["key"])}; '
                        f'i_dec := {bl(i["decrement"])} |}}' for i in q._generated)
        i = getattr(q, '_i', -1)
        qi, ip = (-1, list(i)) if isinstance(i, list) else (i, [])
        return ('{| o_q := {| q_pol := ' + pol + '; q_data := [' + '; '.join(es) + ']; q_ordering := ' + zs(idx(k) for k in q._ordering)
                + f'; q_source := {src}; q_delay := {zi(q._delay_samples)}; q_samples := {zi(q._samples)}; q_paused := {bl(q._paused)}; '
                f'q_empty := {bl(q._empty)}; q_generated := [{gen}]; q_i := {zi(qi)}; q_iperm := {zs(ip)}; '
                f'q_complete := {bl(getattr(q, "_complete", False))}; q_choices := {zs(choices)}; '
                'q_perms := [' + '; '.join(zs(p) for p in perms) + ']|}; o_ev := [' + '; '.join(ev) + '] |}')

    def wave(self, w):
        out = []
        for v in np.asarray(w, dtype=float):
            out.append('OZero' if v == 0 else f'OWave {int(v) // 1000 - 1} {int(v) % 1000}')
        return '[' + '; '.join(out) + ']'

    def run(self, q, meth, args, ret):
        """-> (oracles consumed, events, started counts afterwards, outcome text without the state)"""
        choices, perms = [], []
        ev = self.attach(q)
        started = list(self.started)
        q._notifiers['added'].append(lambda info: started.__setitem__(self.keys.index(info['key']), started[self.keys.index(info['key'])] + 1))
        orig = np.random.randint

        def randint(lo, hi):
            v = orig(lo, hi)
            choices.append(self.keys.index(q._ordering[v]))
            return v
        if hasattr(q, '_rng'):
            shuffle = q._rng.shuffle

            class _R:
                def shuffle(_, x):
                    shuffle(x)
                    perms.append([int(v) for v in x])
            q._rng = _R()
        np.random.randint = randint
        try:
            try:
                r = getattr(q, meth)(*args)
            finally:
                np.random.randint = orig
        except Exception as e:
            return choices, perms, ev, started, ('raise', EXCS[type(e).__name__])
        if ret == 'wave':
            v = self.wave(r)
        elif ret == 'bool':
            v = bl(r)
        elif ret == 'unit':
            v = 'tt'
        elif ret == 'Z':
            v = str(self.keys.index(r))
        else:
            raise KeyError(ret)
        return choices, perms, ev, started, ('ok', v)

    def example(self, meth, coq, args, coqargs, ret, prepare=None):
        """the real method on a deep copy of the queue -> the text of one Example"""
        st = np.random.get_state()
        dry = copy.deepcopy(self.q)
        if prepare:
            prepare(dry)
        choices, perms, _, _, _ = self.run(dry, meth, args(dry), ret)          # dry run: which random choices are made
        np.random.set_state(st)
        c = copy.deepcopy(self.q)
        if prepare:
            prepare(c)
        before = self.state(c, self.started, choices, perms, [])
        _, _, ev, started, (kind, v) = self.run(c, meth, args(c), ret)
        after = self.state(c, started, [], [], ev)
        np.random.set_state(st)
        out = f'GOk {after} {v}' if kind == 'ok' else f'GRaise {v} {after}'
        return f'{coq} {before} {coqargs} = {out}'


def selftest(repo, seed=5):
    spec = importlib.util.spec_from_file_location('_tie_queue_under_test', os.path.join(repo, 'psiaudio', 'queue.py'))
    mod = importlib.util.module_from_spec(spec)
    spec.loader.exec_module(mod)
    if not hasattr(mod.log, 'trace'):
        mod.log.trace = lambda *a, **k: None
    rng = random.Random(seed)
    np.random.seed(seed)
    ex = []
    names = {'fifo': 'FIFOSignalQueue', 'inter_keep': 'InterleavedFIFOSignalQueue', 'inter_nokeep': 'InterleavedFIFOSignalQueue',
             'random': 'RandomSignalQueue', 'blocked_random': 'BlockedRandomSignalQueue', 'grouped': 'GroupedFIFOSignalQueue',
             'blocked_fifo': 'GroupedFIFOSignalQueue'}
    dec_owner = {'fifo': 'AbstractSignalQueue', 'random': 'AbstractSignalQueue', 'inter_keep': 'InterleavedFIFOSignalQueue',
                 'inter_nokeep': 'InterleavedFIFOSignalQueue', 'blocked_random': 'InterleavedFIFOSignalQueue',
                 'grouped': 'GroupedFIFOSignalQueue', 'blocked_fifo': 'GroupedFIFOSignalQueue'}
    for pol in names:
        for rep in range(2):
            n = rng.randint(2, 3)
            stims = [(rng.choice(['array', 'array', 'gen']), rng.choice([0, 1, 2, 4]), rng.randint(1, 3), rng.randint(0, 2)) for _ in range(n)]
            c = _Case(mod, pol, stims, gs=rng.randint(1, 2), seed=rng.randint(0, 9))
            for _ in range(rng.randint(0, 3)):             # some history through the real pop_buffer
                c.q.pop_buffer(rng.randint(1, 5))
            if rep == 1 and c.q._samples > 0:              # ... and a pause / resume, then more requests
                tp = rng.randint(0, c.q._samples)
                c.q.pause(tp)
                c.q.pop_buffer(rng.randint(1, 3))
                c.q.resume(tp + rng.randint(0, 2))
                c.q.pop_buffer(rng.randint(1, 4))
            none = lambda q: ()
            ex.append(c.example('next_key', f'g_{names[pol]}_next_key', none, '', 'Z'))
            ex.append(c.example('next_key', 'g_next_key', none, '', 'Z'))
            for k in range(n):
                key = lambda q, k=k: (list(q._data.keys())[k],)
                ex.append(c.example('decrement_key', f'g_{dec_owner[pol]}_decrement_key', key, f'{k} 1', 'bool'))
            ex.append(c.example('decrement_key', 'g_decrement_key', lambda q: (list(q._data.keys())[0],), '0 1', 'bool'))
            for dec in (True, False):
                ex.append(c.example('next_trial', 'g_next_trial', lambda q, dec=dec: (dec,), bl(dec), 'unit'))
            for m in (1, 3):
                ex.append(c.example('_pop_buffer', 'g__pop_buffer', lambda q, m=m: (m, True), f'{m} true', 'wave'))
            s = c.q._source
            if s is not None:
                meth = '_get_samples_generator' if isinstance(s, _Gen) else '_get_samples_waveform'
                for m in (0, 1, 5):
                    ex.append(c.example(meth, 'g_' + meth, lambda q, m=m: (m,), str(m), 'wave'))

            def pause(q):
                q._paused = True
            ex.append(c.example('_pop_buffer', 'g__pop_buffer', lambda q: (2, True), '2 true', 'wave', prepare=pause))
            progress = all(n + d >= 1 for _, n, _, d in stims)      # otherwise pop_buffer(n, decrement=False) never returns
            for m, dec in ((0, True), (2, True), (9, True), (30, True)) + (((4, False),) if progress else ()):
                ex.append(c.example('pop_buffer', 'g_pop_buffer 80', lambda q, m=m, dec=dec: (m, dec), f'{m} {bl(dec)}', 'wave'))
            # the pause / resume path
            smp = c.q._samples
            req_owner = 'InterleavedFIFOSignalQueue' if pol in ('inter_keep', 'inter_nokeep', 'blocked_random') else 'AbstractSignalQueue'
            for tt in (None, 0, smp // 2, smp, smp + 2):
                coq = 'None' if tt is None else f'(Some {tt})'
                ex.append(c.example('pause', 'g_pause', lambda q, tt=tt: (tt,), coq, 'unit'))
                ex.append(c.example('resume', 'g_resume', lambda q, tt=tt: (tt,), coq, 'unit'))
            for tt in sorted({0, smp // 2, smp}):
                ex.append(c.example('cancel', 'g_cancel', lambda q, tt=tt: (tt,), f'{tt} 0', 'unit'))
                ex.append(c.example('requeue', f'g_{req_owner}_requeue', lambda q, tt=tt: (tt,), str(tt), 'unit'))
                ex.append(c.example('requeue', 'g_requeue', lambda q, tt=tt: (tt,), str(tt), 'unit'))
                for chk in (True, False):
                    ex.append(c.example('rewind_samples', 'g_rewind_samples', lambda q, tt=tt, chk=chk: (tt + 1, chk), f'{tt + 1} {bl(chk)}', 'unit'))
                for j, i in enumerate(c.q._generated[-2:]):
                    lit = (f'{{| i_t0 := {zi(round(i["t0"]))}; i_dur := {zi(round(i["duration"]))}; i_key := {c.keys.index(i["key"])}; '
                           f'i_dec := {bl(i["decrement"])} |}}')
                    n = len(c.q._generated[-2:])
                    ex.append(c.example('_ends_after', 'g__ends_after', lambda q, tt=tt, j=j, n=n: (q._generated[len(q._generated) - n + j], tt),
                                        f'{lit} {tt}', 'bool'))
    text = '\n'.join(f'Example selftest_{k} :\n  {e}.\nProof. vm_compute. reflexivity. Qed.' for k, e in enumerate(ex))
    return text, len(ex)
