"""pyreject2coq - fail-closed `ast` translator: the coroutine psiaudio.pipeline.reject_epochs (and the two PipelineData
properties it reads, n_channels and n_epochs) -> coq/gen/RejectGen.v (property C17).

COROUTINE -> STEP FUNCTION.  A generator function decorated with @coroutine of the shape

    <statements S0>                 # set-up: the mode dispatch, the threshold callback
    while True:
        data = (yield)              # one send(batch)
        <statements S>              # refusals (raise), the accept mask, status_cb(mask), valid_target(valid_data)

becomes  reject_epochs_init : the parameters -> M re_state          (S0; M A = err + A, inl e = the code raises e)
         reject_epochs_step : re_state -> batch -> M (re_state * out)   (S; an exception ends the generator)
         reject_epochs_run  : the generator created and driven by send() over a list of batches (coroutine_run)
in the vocabulary of coq/Reject/NumpyPrims.v, statement by statement:

  x = e -> let;  an operation that may raise (x.shape[i], a[:, 0], data[mask], calling __th_cb__, reading a name that is
  bound on some paths only, a property) -> bind;  raise E(..) -> raise <err>;  return e -> ret e;
  if -> bind (if c then .. ret vars else .. ret vars) (fun vars => rest): vars = the names the branches assign; a name
  that did not exist before and is not assigned on every path becomes an option (reading it: py_bound, UnboundLocalError);
  if isinstance(x, PipelineData) -> match x with BAnn x_pd => .. | BPlain _ _ => .. end (x.n_channels / x.n_epochs only
  under the BAnn branch);  valid_target(e) / status_cb(e) -> recorded in sent_ / status_;  calling __th_cb__ rebinds it
  (the callable's own state);  the state = the set-up names the loop body reads;  a local of the loop body that is read
  before it is assigned in the same iteration raises Gap (it would carry a value from one send to the next).

Everything is table driven (below).  ANY other statement, expression, call, name, keyword, string, decorator or
signature raises Gap.  Comments, blank lines and docstrings do not reach the ast and are harmless."""
import ast
import os

RELPATH = os.path.join('psiaudio', 'pipeline.py')
FUNC, CLASS = 'reject_epochs', 'PipelineData'


class Gap(Exception):
    pass


# ---- tables --------------------------------------------------------------------------------------------------------
SIGNATURE = [('reject_threshold', 'thr'), ('mode', 'str'), ('status_cb', 'cb'), ('valid_target', 'target')]
COROUTINE_DEF = ("def coroutine(func):\n\n    def start(*args, **kwargs):\n        cr = func(*args, **kwargs)\n"
                 "        next(cr)\n        return cr\n    return start")          # docstring removed
RECEIVE = 'data = (yield)'
COQ_TYPE = {'Z': 'Z', 'bool': 'bool', 'str': 'option mode', 'thr': 'thr', 'thunk': 'thunk', 'cb': 'bool', 'batch': 'batch',
            'accept': 'arr3 -> Z -> arr2b', 'pd': 'pd', 'fwd': 'fwd', 'arr3': 'arr3', 'arr2': 'arr2', 'arr2b': 'arr2b',
            'mask': 'list bool', 'optZ': 'option Z', 'optfwd': 'option fwd', 'optmask': 'option (list bool)'}
# every local the function may bind, with its type (anything else raises)
LOCALS = {'accept': 'accept', '__th_cb__': 'thunk', 'data': 'batch', 'th': 'Z', 'mask': 'mask', 'valid_data': 'fwd',
          'n': 'Z', 'n_accept': 'Z'}
COERCE = {('thr', 'thunk'): 'ThSame', ('Z', 'optZ'): 'Some'}      # `__th_cb__ = reject_threshold`: the object itself
STRINGS = {'absolute value': 'MAbs', 'amplitude': 'MPtp'}           # the strings the harness passes for the model's modes
EXCEPTIONS = {'ValueError': 'EValue', 'IndexError': 'EIndex', 'TypeError': 'ETypeKey', 'KeyError': 'ETypeKey',
              'NotImplementedError': 'ENotImpl'}
LAMBDAS = {('s', 'th'): (['arr3', 'Z'], 'arr2b', 'accept')}        # parameter names -> their types, body type, type
# call text with # for every positional argument -> {argument types: (Coq function, result type)}
CALLS = {'np.abs(#)': {('arr3',): ('np_abs', 'arr3')},
         'np.max(#, axis=-1)': {('arr3',): ('np_max_last', 'arr2')},
         'np.ptp(#, axis=-1)': {('arr3',): ('np_ptp_last', 'arr2')},
         'callable(#)': {('thr',): ('py_callable', 'bool')},
         'len(#)': {('batch',): ('py_len', 'Z'), ('fwd',): ('py_len_fwd', 'Z')}}
# pinned expressions: text -> (the name it reads, its type, Coq function of that name, result type)
PINNED_EXPR = {'np.asarray(data, dtype=np.double)': ('data', 'batch', 'np_asarray_double', 'arr3')}
# pinned statements, dropped: the added metadata entry does not touch the identifiers the model tracks (the oracle of
# harness/C17.py checks the entry itself)
PINNED_STMT = {"if isinstance(valid_data, PipelineData):\n    valid_data.add_metadata('reject_threshold', th)":
               'metadata entries are identities in the model'}
ATTRS = {('batch', 'ndim'): ('np_ndim', 'Z'), ('pd', 'ndim'): ('pd_ndim', 'Z')}
SHAPE_AT = {'batch': 'np_shape_at', 'pd': 'pd_shape_at'}             # x.shape[<int>], may raise
PROPERTIES = {'n_channels': 'Z', 'n_epochs': 'optZ'}                 # PipelineData properties, translated as well
CMP = {ast.Eq: '=?', ast.Lt: '<?', ast.Gt: '>?', ast.GtE: '>=?', ast.LtE: '<=?'}
RESERVED = {'mode', 'shape', 'dat', 'meta', 'chan', 's0', 'fsn', 'fsd', 'valid', 'run', 'out', 'batch', 'fwd', 'thr', 'err',
            'ret', 'raise', 'bind', 'fun', 'let', 'in', 'if', 'then', 'else', 'match', 'with', 'end', 'return', 'at', 'as',
            'Some', 'None', 'true', 'false', 'map', 'hd', 'tl', 'sent', 'status', 'st', 'tt', 'unit', 'M'}
PRIMITIVES = sorted({c[0] for v in CALLS.values() for c in v.values()} | {v[2] for v in PINNED_EXPR.values()} |
                    {v[0] for v in ATTRS.values()} | set(SHAPE_AT.values()) | set(COERCE.values()) - {'Some'} |
                    {'ret', 'raise', 'bind', 'py_bound', 'py_str_eq', 'ThLambda', 'py_call0', 'py_is_none', 'np_lt_s',
                     'np_col0', 'py_getitem_mask', 'py_call_cb', 'py_status', 'coroutine_run'})


def gap(node, why):
    txt = ast.unparse(node) if isinstance(node, ast.AST) else str(node)
    raise Gap(f'line {getattr(node, "lineno", "?")}: {why}: `{txt.splitlines()[0][:110]}`')


def mangle(name):
    c = name.strip('_') or 'v'
    return c + '_' if c in RESERVED or c.endswith('_pd') or (c[0] == 't' and c[1:].isdigit()) else c


def tup(vals):
    return 'tt' if not vals else vals[0] if len(vals) == 1 else '(' + ', '.join(vals) + ')'


def pat(names):
    return '_' if not names else names[0] if len(names) == 1 else "'(" + ', '.join(names) + ')'


def zlit(v):
    return str(v) if v >= 0 else f'({v})'


def int_const(n):
    if isinstance(n, ast.Constant) and type(n.value) is int:
        return n.value
    if isinstance(n, ast.UnaryOp) and isinstance(n.op, ast.USub) and isinstance(n.operand, ast.Constant) \
            and type(n.operand.value) is int:
        return -n.operand.value
    return None


def is_doc(s):
    return isinstance(s, ast.Expr) and isinstance(s.value, ast.Constant) and isinstance(s.value.value, str)


def is_none(n):
    return isinstance(n, ast.Constant) and n.value is None


class Tr:
    """one function.  env: python name -> (Coq name, type, Coq name of the narrowed annotated array | None);
    a type 'opt:T' is a name that is bound on some paths only."""

    def __init__(self, notes):
        self.ntmp, self.notes, self.sites = 0, notes, {'target': 0, 'cb': 0}

    def partial(self, pend, text, pattern=None):
        self.ntmp += 1
        t = f't{self.ntmp}'
        pend.append((pattern.replace('#', t) if pattern else t, text))
        return t

    @staticmethod
    def wrap(pend, text):
        for p, opt in reversed(pend):
            text = f'bind ({opt}) (fun {p} =>\n{text})'
        return text

    # ---------------- expressions -> (Coq text, type); operations that may raise are appended to `pend`, in order
    def expr(self, n, env, pend):
        src = ast.unparse(n)
        if src in PINNED_EXPR:
            var, vt, fn, t = PINNED_EXPR[src]
            if env.get(var, (None, None))[1] != vt:
                gap(n, f'pinned expression reads `{var}`, which is not a bound {vt} here')
            self.notes.add(f'pinned expression `{src}` -> {fn} {var}')
            return f'({fn} {env[var][0]})', t
        if isinstance(n, ast.Name):
            if n.id not in env or env[n.id][0] is None:
                gap(n, 'name is not a known local that is assigned before this point of the iteration')
            c, t = env[n.id][:2]
            if t.startswith('opt:'):
                return self.partial(pend, f'py_bound {c}'), t[4:]
            return c, t
        if int_const(n) is not None:
            return zlit(int_const(n)), 'Z'
        if is_none(n):
            return 'None', 'optZ'
        if isinstance(n, ast.Lambda):
            return self.lambda_(n, env)
        if isinstance(n, ast.UnaryOp) and isinstance(n.op, ast.Not):
            a, ta = self.expr(n.operand, env, pend)
            return (f'(negb {a})', 'bool') if ta == 'bool' else gap(n, f'`not` on a {ta}')
        if isinstance(n, ast.IfExp):
            c, tc = self.expr(n.test, env, pend)
            pa, pb = [], []
            (a, ta), (b, tb) = self.expr(n.body, env, pa), self.expr(n.orelse, env, pb)
            if tc != 'bool' or ta != tb:
                gap(n, f'conditional expression on {tc}: {ta}, {tb}')
            if not pa and not pb:
                return f'(if {c} then {a} else {b})', ta
            return self.partial(pend, f'if {c} then {self.wrap(pa, "ret " + a)} else {self.wrap(pb, "ret " + b)}'), ta
        if isinstance(n, ast.Compare) and len(n.ops) == 1:
            return self.compare(n, env, pend)
        if isinstance(n, ast.Attribute) and isinstance(n.value, ast.Name) and isinstance(n.ctx, ast.Load):
            x, tx = self.expr(n.value, env, pend)
            if (tx, n.attr) in ATTRS:
                return f'({ATTRS[tx, n.attr][0]} {x})', ATTRS[tx, n.attr][1]
            if n.attr in PROPERTIES:
                who = x if tx == 'pd' else env[n.value.id][2]
                if who is None:
                    gap(n, f'`{n.attr}` read from something not known to be a {CLASS} here')
                return self.partial(pend, f'{CLASS}_{n.attr} {who}'), PROPERTIES[n.attr]
            gap(n, f'attribute of a {tx}')
        if isinstance(n, ast.Subscript) and isinstance(n.ctx, ast.Load):
            return self.subscript(n, env, pend)
        if isinstance(n, ast.Call):
            return self.call(n, env, pend)
        gap(n, 'expression not in the vocabulary')

    def lambda_(self, n, env):
        a = n.args
        names = tuple(x.arg for x in a.args)
        if a.vararg or a.kwarg or a.kwonlyargs or a.posonlyargs or a.defaults:
            gap(n, 'lambda parameters')
        sub = []
        if not names:                                              # lambda: v  - returns the object v is bound to now
            v, t = self.expr(n.body, env, sub)
            if t != 'thr' or sub or not isinstance(n.body, ast.Name) or n.body.id not in [p for p, _ in SIGNATURE]:
                gap(n, 'zero-argument lambda around something that is not a threshold parameter')
            return f'(ThLambda {v})', 'thunk'                       # the parameter is never rebound (checked)
        if names not in LAMBDAS:
            gap(n, 'lambda parameters')
        types, tbody, tfun = LAMBDAS[names]
        inner = {**env, **{p: (mangle(p), t, None) for p, t in zip(names, types)}}
        b, tb = self.expr(n.body, inner, sub)
        if sub or tb != tbody:
            gap(n, f'lambda body may raise or has type {tb}')
        binders = ' '.join(f'({mangle(p)} : {COQ_TYPE[t]})' for p, t in zip(names, types))
        return f'(fun {binders} => {b})', tfun

    def compare(self, n, env, pend):
        op, r = n.ops[0], n.comparators[0]
        if isinstance(op, (ast.Is, ast.IsNot)) and is_none(r):
            a, ta = self.expr(n.left, env, pend)
            pos = {'cb': f'(negb {a})', 'optZ': f'(py_is_none {a})'}.get(ta) or gap(n, f'`is None` on a {ta}')
            return (pos if isinstance(op, ast.Is) else a if ta == 'cb' else f'(negb {pos})'), 'bool'
        neg = isinstance(op, ast.NotEq)
        if isinstance(r, ast.Constant) and isinstance(r.value, str) and isinstance(op, (ast.Eq, ast.NotEq)):
            a, ta = self.expr(n.left, env, pend)
            if ta != 'str' or r.value not in STRINGS:
                gap(n, 'string comparison outside the table of mode strings')
            self.notes.add(f"pinned string '{r.value}' -> {STRINGS[r.value]}")
            e = f'(py_str_eq {a} {STRINGS[r.value]})'
            return (f'(negb {e})' if neg else e), 'bool'
        (a, ta), (b, tb) = self.expr(n.left, env, pend), self.expr(r, env, pend)
        if (ta, tb) == ('Z', 'Z') and (neg or type(op) in CMP):
            return (f'(negb ({a} =? {b}))' if neg else f'({a} {CMP[type(op)]} {b})'), 'bool'
        if (ta, tb) == ('arr2', 'Z') and isinstance(op, ast.Lt):
            return f'(np_lt_s {a} {b})', 'arr2b'
        gap(n, f'comparison on {ta}, {tb}')

    def subscript(self, n, env, pend):
        v, s = n.value, n.slice
        if isinstance(v, ast.Attribute) and v.attr == 'shape' and isinstance(v.value, ast.Name) and int_const(s) is not None:
            x, tx = self.expr(v.value, env, pend)
            if tx not in SHAPE_AT:
                gap(n, f'shape of a {tx}')
            return self.partial(pend, f'{SHAPE_AT[tx]} {x} {zlit(int_const(s))}'), 'Z'
        a, ta = self.expr(v, env, pend)
        if ta == 'arr2b' and isinstance(s, ast.Tuple) and len(s.elts) == 2 and isinstance(s.elts[0], ast.Slice) \
                and (s.elts[0].lower, s.elts[0].upper, s.elts[0].step) == (None, None, None) and int_const(s.elts[1]) == 0:     # a[:, 0]
            return self.partial(pend, f'np_col0 {a}'), 'mask'
        if ta == 'batch' and isinstance(s, ast.Name):
            i, ti = self.expr(s, env, pend)
            if ti == 'mask':
                return self.partial(pend, f'py_getitem_mask {a} {i}'), 'fwd'
        gap(n, f'index of a {ta}')

    def call(self, n, env, pend):
        f = n.func
        if isinstance(f, ast.Name) and f.id in env:
            c, t = self.expr(f, env, pend)                          # the callee is looked up before the arguments
            if t == 'thunk' and not n.args and not n.keywords:      # rebinds the callee: the callable's own state
                return self.partial(pend, f'py_call0 {c}', f"'(#, {c})"), 'Z'
            if t == 'accept' and len(n.args) == 2 and not n.keywords:
                args = [self.expr(a, env, pend) for a in n.args]
                if [ta for _, ta in args] != LAMBDAS['s', 'th'][0]:
                    gap(n, f'arguments {[ta for _, ta in args]}')
                return f'({c} {args[0][0]} {args[1][0]})', LAMBDAS['s', 'th'][1]
            gap(n, f'call of a local of type {t}')
        root = f
        while isinstance(root, ast.Attribute):
            root = root.value
        if not isinstance(root, ast.Name) or root.id in env or any(k.arg is None for k in n.keywords):
            gap(n, 'call not in the vocabulary')
        key = ast.unparse(f) + '(' + ', '.join(['#'] * len(n.args) + [f'{k.arg}={ast.unparse(k.value)}' for k in n.keywords]) + ')'
        if key not in CALLS:
            gap(n, 'call not in the vocabulary')
        args = [self.expr(a, env, pend) for a in n.args]
        sig = tuple(t for _, t in args)
        if sig not in CALLS[key]:
            gap(n, f'{key} on {sig}')
        fn, t = CALLS[key][sig]
        return f'({fn} {" ".join(a for a, _ in args)})', t

    # ---------------- statements.  tail(env): what a path that falls off the end continues with (None: a gap)
    def assigned(self, stmts, env):
        """names (and callback records) the statements may bind, in source order; nested blocks included"""
        sites = []
        for s in stmts:
            if ast.unparse(s) in PINNED_STMT:
                continue
            for n in ast.walk(s):
                if isinstance(n, ast.Name) and isinstance(n.ctx, ast.Store):
                    sites.append((n.lineno, n.col_offset, n.id))
                if isinstance(n, ast.Call) and isinstance(n.func, ast.Name) and n.func.id in env:
                    t = env[n.func.id][1]
                    v = {'target': '$sent', 'cb': '$status', 'thunk': n.func.id}.get(t)
                    if v:
                        sites.append((n.lineno, n.col_offset, v))
        return list(dict.fromkeys(v for _, _, v in sorted(sites)))

    def surely(self, stmts):
        """names bound on every path through the statements that falls off their end; None: no path does"""
        got = set()
        for s in stmts:
            if isinstance(s, (ast.Raise, ast.Return)):
                return None
            if isinstance(s, ast.Assign):
                got |= {t.id for t in s.targets if isinstance(t, ast.Name)}
            if isinstance(s, ast.If) and ast.unparse(s) not in PINNED_STMT:
                a, b = self.surely(s.body), self.surely(s.orelse)
                if a is None and b is None:
                    return None
                got |= b if a is None else a if b is None else a & b
        return got

    def block(self, stmts, env, tail, kind):
        if not stmts:
            if tail is None:
                raise Gap('a path falls off the end of a function that must return')
            return tail(env)
        s, rest = stmts[0], stmts[1:]
        k = lambda env2: self.block(rest, env2, tail, kind)
        text, pend = ast.unparse(s), []
        if text in PINNED_STMT:
            self.notes.add(f'pinned statement `{text.splitlines()[0]} ...` dropped: {PINNED_STMT[text]}')
            return k(env)
        if is_doc(s):
            return k(env)
        if isinstance(s, ast.Assign) and len(s.targets) == 1 and isinstance(s.targets[0], ast.Name):
            x = s.targets[0].id
            if x not in LOCALS or (x in env and env[x][1].split(':')[-1] != LOCALS[x]):
                gap(s, 'assignment to a name that is not in the table of locals')
            e, t = self.expr(s.value, env, pend)
            if t != LOCALS[x]:
                e = f'({COERCE[t, LOCALS[x]]} {e})' if (t, LOCALS[x]) in COERCE else gap(s, f'{x} : {LOCALS[x]} assigned a {t}')
            c = mangle(x)
            if any(v[0] == c and p != x for p, v in env.items()):
                gap(s, 'two names collide after mangling')
            return self.wrap(pend, f'let {c} := {e} in\n' + k({**env, x: (c, LOCALS[x], None)}))
        if isinstance(s, ast.Expr) and isinstance(s.value, ast.Call) and isinstance(s.value.func, ast.Name) \
                and kind == 'step' and env.get(s.value.func.id, (0, ''))[1] in ('target', 'cb'):
            c, t = env[s.value.func.id][:2]
            self.sites[t] += 1
            if len(s.value.args) != 1 or s.value.keywords or self.sites[t] > 1:
                gap(s, 'callback call: one positional argument, one call site')
            e, te = self.expr(s.value.args[0], env, pend)
            if t == 'target' and te == 'fwd':
                return self.wrap(pend, f'let sent_ := Some {e} in\n' + k(env))
            if t == 'cb' and te == 'mask':                          # calling None raises TypeError
                return self.wrap(pend, f'bind (py_call_cb {c} {e}) (fun status_ =>\n' + k(env) + ')')
            gap(s, f'callback called with a {te}')
        if isinstance(s, ast.Raise) and s.cause is None and s.exc is not None:
            e = s.exc.func if isinstance(s.exc, ast.Call) else s.exc
            if not isinstance(e, ast.Name) or e.id not in EXCEPTIONS or e.id in env or rest:
                gap(s, 'raise of an exception outside the table / followed by a statement')
            return f'raise {EXCEPTIONS[e.id]}'
        if isinstance(s, ast.Return) and kind in PROPERTIES and s.value is not None and not rest:
            e, t = self.expr(s.value, env, pend)
            want = PROPERTIES[kind]
            if t != want:
                e = f'({COERCE[t, want]} {e})' if (t, want) in COERCE else gap(s, f'returns a {t}, not {want}')
            return self.wrap(pend, f'ret {e}')
        if isinstance(s, ast.If):
            return self.if_(s, rest, env, k, kind)
        gap(s, 'statement not in the vocabulary')

    def if_(self, s, rest, env, k, kind):
        pend, t = [], s.test
        enva = env
        if isinstance(t, ast.Call) and ast.unparse(t.func) == 'isinstance' and 'isinstance' not in env \
                and len(t.args) == 2 and not t.keywords and isinstance(t.args[0], ast.Name) \
                and ast.unparse(t.args[1]) == CLASS and CLASS not in env:
            x, tx = self.expr(t.args[0], env, pend)
            if tx != 'batch' or pend:
                gap(t, f'isinstance test on a {tx}')
            enva = {**env, t.args[0].id: (x, tx, x + '_pd')}
            form = (f'match {x} with\n| BAnn {x}_pd =>\n', '\n| BPlain _ _ =>\n', '\nend')
        else:
            c, tc = self.expr(t, env, pend)
            if tc != 'bool':
                gap(t, f'condition of type {tc}')
            form = (f'if {c}\nthen ', '\nelse ', '')
        sa, sb = self.surely(s.body), self.surely(s.orelse)
        if sa is None and sb is None:                               # no path continues
            if rest:
                gap(rest[0], 'unreachable statement')
            a, b = self.block(s.body, enva, None, kind), self.block(s.orelse, env, None, kind)
            return self.wrap(pend, form[0] + a + form[1] + b + form[2])
        if kind in PROPERTIES:
            gap(s, 'a property with a joined `if`')
        vs = self.assigned([s], env)
        always = (sa if sb is None else sb if sa is None else sa & sb)
        names, after = [], dict(env)
        for v in vs:
            if v.startswith('$'):
                names.append({'$sent': 'sent_', '$status': 'status_'}[v])
            elif v not in LOCALS:
                gap(s, f'`{v}` is bound in a branch and is not in the table of locals')
            else:
                names.append(mangle(v))
                old = env[v][1] if v in env else None
                after[v] = (mangle(v), LOCALS[v] if (v in always or (old and not old.startswith('opt:'))) else 'opt:' + LOCALS[v], None)

        def join(env2):
            vals = []
            for v, c in zip(vs, names):
                if v.startswith('$') or not after[v][1].startswith('opt:'):
                    vals.append(c)                                  # the current binding of that Coq name
                else:
                    now = env2.get(v)
                    vals.append(c if now and now[1].startswith('opt:') else f'(Some {c})' if now else 'None')
            return 'ret ' + tup(vals)
        a, b = self.block(s.body, enva, join, kind), self.block(s.orelse, env, join, kind)
        return self.wrap(pend, f'bind ({form[0]}{a}{form[1]}{b}{form[2]}) (fun {pat(names)} =>\n' + k(after) + ')')


# ---- the three targets ---------------------------------------------------------------------------------------------
def _toplevel(tree):
    defs = {}
    for n in tree.body:
        if isinstance(n, (ast.FunctionDef, ast.AsyncFunctionDef, ast.ClassDef)) and n.name in (FUNC, CLASS, 'coroutine'):
            if n.name in defs or isinstance(n, ast.AsyncFunctionDef):
                raise Gap(f'{n.name} is defined twice / is not a plain definition')
            defs[n.name] = n
    for n in ast.walk(tree):                                        # any other binding of these names makes the text stale
        nm = n.id if isinstance(n, ast.Name) and not isinstance(n.ctx, ast.Load) else \
            (n.asname or n.name).split('.')[0] if isinstance(n, ast.alias) else \
            n.arg if isinstance(n, ast.arg) else None
        if nm in (FUNC, CLASS, 'coroutine', 'isinstance', 'callable', 'len', 'np') + tuple(EXCEPTIONS):
            if not (nm == 'np' and isinstance(n, ast.alias) and n.name == 'numpy'):
                raise Gap(f'`{nm}` is rebound at line {getattr(n, "lineno", "?")}')
    if set(defs) != {FUNC, CLASS, 'coroutine'} or not isinstance(defs[CLASS], ast.ClassDef) \
            or not isinstance(defs[FUNC], ast.FunctionDef):
        raise Gap(f'top-level definitions found: {sorted(defs)}')
    co = defs['coroutine']
    if co.body and is_doc(co.body[0]):
        co.body = co.body[1:]                                       # its docstring is free
    if ast.unparse(co) != COROUTINE_DEF:
        raise Gap('the @coroutine decorator is not the pinned auto-start decorator')
    return defs


def _property(cls, name, notes):
    ms = [n for n in cls.body if isinstance(n, (ast.FunctionDef, ast.AsyncFunctionDef)) and n.name == name]
    bound = [n for n in ast.walk(cls) if isinstance(n, ast.Name) and isinstance(n.ctx, ast.Store) and n.id == name]
    if len(ms) != 1 or bound or [ast.unparse(d) for d in ms[0].decorator_list] != ['property'] \
            or ast.unparse(ms[0].args) != 'self' or not isinstance(ms[0], ast.FunctionDef):
        raise Gap(f'{CLASS}.{name}: not exactly one `@property def {name}(self)`')
    if [ast.unparse(b) for b in cls.bases] != ['np.ndarray'] or cls.keywords or cls.decorator_list:
        raise Gap(f'{CLASS} is not a plain subclass of np.ndarray')
    for n in cls.body:
        if isinstance(n, ast.FunctionDef) and n.name in ('__getattr__', '__getattribute__', 'ndim', 'shape', '__len__'):
            raise Gap(f'{CLASS} overrides {n.name}')
    body = Tr(notes).block(ms[0].body, {'self': ('self', 'pd', None)}, None, name)
    return (f'(* {CLASS}.{name}, line {ms[0].lineno} *)\nDefinition {CLASS}_{name} (self : pd) : M ({COQ_TYPE[PROPERTIES[name]]}) :=\n'
            f'{body}.\n')


def translate_source(src):
    """-> (Coq text without header, info)"""
    tree = ast.parse(src)
    defs = _toplevel(tree)
    notes = set()
    f = defs[FUNC]
    a = f.args
    if [ast.unparse(d) for d in f.decorator_list] != ['coroutine'] or [x.arg for x in a.args] != [p for p, _ in SIGNATURE] \
            or a.posonlyargs or a.kwonlyargs or a.vararg or a.kwarg or a.defaults:
        raise Gap(f'{FUNC}: decorators / signature `{ast.unparse(a)}` differ from the pinned {[p for p, _ in SIGNATURE]}')
    body = [s for s in f.body if not is_doc(s)]
    if not body or not isinstance(body[-1], ast.While) or ast.unparse(body[-1].test) != 'True' or body[-1].orelse:
        raise Gap(f'{FUNC} does not end with `while True:`')
    pre, loop = body[:-1], body[-1].body
    if not loop or ast.unparse(loop[0]) != RECEIVE:
        raise Gap(f'the loop of {FUNC} does not start with `{RECEIVE}`')
    for n in ast.walk(f):
        if isinstance(n, (ast.Yield, ast.YieldFrom, ast.Await, ast.Return, ast.Continue, ast.Break, ast.Try, ast.With, ast.For,
                          ast.FunctionDef, ast.AsyncFunctionDef, ast.ClassDef, ast.Global, ast.Nonlocal, ast.NamedExpr,
                          ast.Delete, ast.AugAssign, ast.AnnAssign, ast.Import, ast.ImportFrom, ast.While)) \
                and n not in (f, body[-1], loop[0].value):
            raise Gap(f'line {n.lineno}: `{type(n).__name__}` inside {FUNC}')
        if isinstance(n, ast.Name) and isinstance(n.ctx, ast.Store) and n.id in [p for p, _ in SIGNATURE]:
            raise Gap(f'line {n.lineno}: the parameter `{n.id}` is rebound')
    params = {p: (mangle(p) if t != 'target' else None, t, None) for p, t in SIGNATURE}
    # set-up: a first pass finds the names it binds, the loop body says which of them live on
    seen = {}
    tr0 = Tr(set())
    tr0.block(pre, params, lambda env: seen.update(env) or '', 'init')
    loads = {n.id for s in loop[1:] for n in ast.walk(s) if isinstance(n, ast.Name)}
    state = [v for v in seen if v in loads and seen[v][1] != 'target']
    ctype = lambda t: f'option ({COQ_TYPE[t[4:]]})' if t.startswith('opt:') else COQ_TYPE[t]
    mk = lambda env: 'ret (mk_re_state ' + ' '.join(env[v][0] for v in state) + ')'
    init = Tr(notes).block(pre, params, mk, 'init')
    lenv = {v: seen[v] for v in state}
    lenv.update({p: v for p, v in params.items() if v[1] == 'target'})
    lenv['data'] = ('data', 'batch', None)
    step = Tr(notes).block(loop[1:], lenv, lambda env: mk(env)[:-1] + ', OOut sent_ (py_status status_))', 'step')
    binders = ' '.join(f'({v[0]} : {COQ_TYPE[v[1]]})' for v in params.values() if v[0])
    out = [_property(defs[CLASS], name, notes) for name in PROPERTIES]
    out += ['(* the set-up names of the coroutine the loop body reads: they live from one send to the next *)',
            'Record re_state := mk_re_state { ' + '; '.join(f're_{seen[v][0]} : {ctype(seen[v][1])}' for v in state) + ' }.', '',
            f'(* {FUNC}, lines {f.lineno}-{f.end_lineno}: the statements before `while True:` *)',
            f'Definition {FUNC}_init {binders} : M re_state :=\n{init}.', '',
            f'(* one `{RECEIVE}` iteration: the state afterwards and what valid_target / status_cb received *)',
            f'Definition {FUNC}_step (st_ : re_state) (data : batch) : M (re_state * out) :=',
            ''.join(f'let {seen[v][0]} := re_{seen[v][0]} st_ in\n' for v in state)
            + 'let sent_ : option fwd := None in\nlet status_ : option (list bool) := None in\n' + step + '.', '',
            '(* the coroutine created with these arguments and driven by send() over the batches *)',
            f'Definition {FUNC}_run {binders} (bs : list batch) : M (list out) :=',
            f'bind ({FUNC}_init {" ".join(v[0] for v in params.values() if v[0])}) (fun st_ =>',
            f'ret (coroutine_run {FUNC}_step (Some st_) bs)).', '']
    return '\n'.join(out), {'function': FUNC, 'lines': [f.lineno, f.end_lineno], 'state': state, 'notes': sorted(notes),
                            'properties': sorted(PROPERTIES)}


HEADER = ('From Coq Require Import ZArith List Bool.\nFrom PV Require Import Reject.Model Reject.NumpyPrims.\n'
          'Import ListNotations.\nOpen Scope Z_scope.\n\n')


def translate(repo):
    """-> (text of coq/gen/RejectGen.v, info).  Raises Gap on anything outside the tables (fail closed)."""
    path = os.path.join(repo, RELPATH)
    with open(path) as fh:
        text, info = translate_source(fh.read())
    head = (f'(* GENERATED on every run by translate/pyreject2coq.py from {path}\n   (coroutine {FUNC}, lines {info["lines"][0]}-'
            f'{info["lines"][1]}; {CLASS}.n_channels / n_epochs) - do not edit.\n   Vocabulary: coq/Reject/NumpyPrims.v.  '
            'Tie theorems: coq/Reject/ProofsTie.v.\n'
            + ''.join('   ' + n.replace('(*', '( *').replace('*)', '* )') + '\n' for n in info['notes']) + '*)\n')
    info['source'] = path
    return head + HEADER + text, info


# ---- self-test: the emitted definitions, evaluated by coqc (vm_compute), against the real coroutine -------------------
def selftest_terms(H, rng, count=140):
    """H: the harness module (its case format, its runner of the REAL coroutine, its literals).  Coq boolean terms
    `reject_epochs_run <arguments> <batches> = what the real coroutine did, send by send`."""
    H.MODES.setdefault('other', 'neither of the two')
    pool = [c for c in H.cases('quick', rng)]
    step = max(1, len(pool) // count)
    picked = pool[::step][:count] + [c for c in pool if any(not H._valid(b) for b in c['batches'])][:40]
    good = pool[0]['batches'][0]
    for bad in H._bad_batches(rng)[:4] + [dict(good)]:                # a mode string that is neither: UnboundLocalError
        picked.append({'mode': 'other', 'thr': ['c', 10], 'batches': [bad, dict(good)]})
    picked.append({'mode': 'abs', 'thr': ['f', [10, 3, 25]], 'batches': [dict(good)] * 3, 'status': False})
    terms = []
    for case in picked:
        res = H.impl(case)
        sc = H._scale(case)
        z = lambda t: H.zlit(int(round(float(t) * sc)))
        thr = f'(TConst {z(case["thr"][1])})' if case['thr'][0] == 'c' else f'(TCall {H.listlit([z(v) for v in case["thr"][1]])})'
        mode = {'abs': '(Some MAbs)', 'ptp': '(Some MPtp)', 'other': 'None'}[case['mode']]
        cb = 'true' if case.get('status', True) else 'false'
        terms.append(f'match {FUNC}_run {thr} {mode} {cb} {H.listlit([H._batch(b, sc) for b in case["batches"]])} with '
                     f'inr o_ => eqb_list eqb_out o_ {H.listlit([H._out(o, sc) for o in res["outs"]])} | inl _ => false end')
    return terms


if __name__ == '__main__':
    import sys
    print(translate(sys.argv[1] if len(sys.argv) > 1 else '/repo')[0])
