"""Fail-closed translator: integer / index bookkeeping of psiaudio.buffer.SignalBuffer -> coq/gen/BufferStepGen.v.

Reads the CURRENT source of the methods listed in TARGETS with `ast` and emits one Gallina definition `g_<method>` per
method, statement by statement, over the record `bstate` of coq/Buffer/Model.v (one channel; `_buffer` as `list Z`):

    x = e                     let v_x := e in                      self.f = e / self.f += e     let self := set_f self .. in
    self._buffer[a:b] = e     np_set_slice / py_set_const          L[..., a:b]                  py_slice (Some a) (Some b) L
    if c: A else: B; rest     if c then A;rest else B;rest         if x is None: x = e          match v_x with None => e | Some ..
    raise IndexError          Raise EIndexError / MRaise .. self   return / end of a mutator    MOk self
    y = <call that may raise> rbind / mtry .. (fun v_y => ..)      self.m(..) (mutator)         mseq (g_m self ..) (fun self => ..)
    with self._lock: body     body (locking is C15's subject)      log.<level>(..), docstrings  dropped (arguments without effects only)

Everything that is not integer bookkeeping goes through the explicit tables PINS (statement text -> replacement
statement / dropped), PINNED_FUNCS (whole helper methods whose calls are read in sample units) and the pinned
signatures: a change of any pinned text stops the translator, exactly like a construct it does not know (class Gap).
The emitted file ends with a self-test: the real methods, run by `selftest()` on the real object, against the
emitted definitions evaluated by Coq itself (`vm_compute`); a mismatch makes the generated file fail to compile."""
import ast
import copy
import os


class Gap(Exception):
    """the source contains something the translator does not know, or a pinned text changed"""


FIELDS = {'_buffer_samples': ('cap', 'Z'), '_samples': ('S', 'Z'), '_ilb': ('ilb', 'Z'),
          '_buffer': ('buf', 'list'), '_fill_value': ('fillv', 'Z')}
COQTY = {'Z': 'Z', 'list': 'list Z', 'optZ': 'option Z'}
RET = {'pure': 'Z', 'read': 'res (list Z)', 'mut': 'mres', 'init': 'mres'}

# method -> (kind, pinned signature, parameters of the Gallina definition).  Times are in SAMPLE units (see PINNED_FUNCS).
TARGETS = {
    'samples_to_index':   ('pure', 'self, i', [('i', 'Z')]),
    'get_samples_lb':     ('pure', 'self', []),
    'get_samples_ub':     ('pure', 'self', []),
    'time_to_index':      ('pure', 'self, t', [('t', 'Z')]),
    '__init__':           ('init', 'self, fs, size, fill_value=np.nan, dtype=np.double, n_channels=None',
                           [('buffer_samples', 'Z'), ('fill_value', 'Z')]),
    'get_range_samples':  ('read', 'self, lb=None, ub=None', [('lb', 'optZ'), ('ub', 'optZ')]),
    'get_range_filled':   ('read', 'self, lb, ub, fill_value', [('lb', 'Z'), ('ub', 'Z'), ('fill_value', 'Z')]),
    'get_latest':         ('read', 'self, lb, ub=0, fill_value=None', [('lb', 'Z'), ('ub', 'Z'), ('fill_value', 'optZ')]),
    'append_data':        ('mut', 'self, data', [('data', 'list')]),
    '_invalidate':        ('mut', 'self, i', [('i', 'Z')]),
    'invalidate_samples': ('mut', 'self, i', [('i', 'Z')]),
    'invalidate':         ('mut', 'self, t', [('t', 'Z')]),
    'resize':             ('mut', 'self, size', [('size', 'Z')]),
}

# helper methods that convert between seconds and samples (floats).  Their whole text is pinned; a call is read in sample
# units: time_to_samples(x) = x (the harness hands the model round(t*fs), Common/FloatGrid covers the grid), the time
# bounds are the sample bounds, get_range(lb, ub) with both bounds given is get_range_samples of the converted bounds.
PINNED_FUNCS = {
    'time_to_samples': ('def time_to_samples(self, t):\n    return round(t * self._buffer_fs)', 'arg0'),
    'get_time_lb': ('def get_time_lb(self):\n    return self.get_samples_lb() / self._buffer_fs', 'get_samples_lb'),
    'get_time_ub': ('def get_time_ub(self):\n    with self._lock:\n        return self.get_samples_ub() / self._buffer_fs',
                    'get_samples_ub'),
    'get_range': ('def get_range(self, lb=None, ub=None):\n    with self._lock:\n        if lb is None:\n'
                  '            lb = self.get_time_lb()\n        if ub is None:\n            ub = self.get_time_ub()\n'
                  '        ilb = None if lb is None else self.time_to_samples(lb)\n'
                  '        iub = None if ub is None else self.time_to_samples(ub)\n'
                  '        return self.get_range_samples(ilb, iub)', 'get_range_samples'),
}

# (method, statement text) -> replacement statement (translated instead) or None (dropped: not integer bookkeeping)
PINS = {
    ('__init__', 'self._lock = threading.RLock()'): None,
    ('__init__', 'self._buffer_fs = fs'): None,
    ('__init__', 'self._n_channels = n_channels'): None,
    ('__init__', 'self._size = size'): None,
    # the number of slots: an abstract input of g_init
    ('__init__', 'self._buffer_samples = int(np.ceil(fs * size))'): 'self._buffer_samples = buffer_samples',
    # one channel: every row of a multichannel buffer gets the same index arithmetic
    ('__init__', 'if n_channels is not None:\n    shape = (self._n_channels, self._buffer_samples)\nelse:\n'
                 '    shape = self._buffer_samples'): 'shape = self._buffer_samples',
    ('__init__', 'self._buffer = np.full(shape, fill_value, dtype=dtype)'): 'self._buffer = _np_full(shape, fill_value)',
    # shape validation above the lock (refusals are checked by harness/C14.py op 'V')
    ('append_data', "if self._n_channels is not None:\n    if data.ndim != 2:\n"
                    "        raise ValueError('Appended data must be two-dimensional')\n"
                    "    if data.shape[0] != self._n_channels:\n"
                    "        raise ValueError(f'Appended data must have {self._n_channels} channels.')\n"
                    "elif data.ndim != 1:\n    raise ValueError('Appended data must be one-dimensional')"): None,
    ('get_range_filled', 'padding = (lpadding, rpadding)'): None,
    ('get_range_filled', 'if data.ndim == 2:\n    padding = ((0, 0), (lpadding, rpadding))\nelse:\n'
                         '    padding = (lpadding, rpadding)'): None,
    ('get_range_filled', "return np.pad(data, padding, 'constant', constant_values=fill_value)"):
        'return _np_pad(data, lpadding, rpadding, fill_value)',
}

CMP = {ast.Lt: '<?', ast.LtE: '<=?', ast.Gt: '>?', ast.GtE: '>=?', ast.Eq: '=?'}
BIN = {ast.Add: '{} + {}', ast.Sub: '{} - {}', ast.Mult: '{} * {}', ast.FloorDiv: '{} / {}', ast.Mod: '{} mod {}'}
EXC = {'IndexError': 'EIndexError', 'ValueError': 'EValueError'}


def zl(n):
    return f'({n})%Z' if n < 0 else f'{n}%Z'


def _strip_doc(fn):
    fn = copy.deepcopy(fn)
    if fn.body and isinstance(fn.body[0], ast.Expr) and isinstance(getattr(fn.body[0].value, 'value', None), str):
        fn.body = fn.body[1:] or [ast.Pass()]
    return fn


class _Fn:
    """translation of one method"""

    def __init__(self, name, methods):
        self.name, self.methods = name, methods
        self.kind = TARGETS[name][0]
        self.used_pins = set()
        self.assigned = set()

    def gap(self, node, why):
        raise Gap(f'{self.name}, line {getattr(node, "lineno", "?")}: {why}: `{ast.unparse(node)[:120]}`')

    # ---- expressions: (text, type) --------------------------------------------------------------------------------
    def expr(self, e, env):
        if isinstance(e, ast.Constant) and type(e.value) is int:
            return zl(e.value), 'Z'
        if isinstance(e, ast.Name):
            if e.id not in env:
                self.gap(e, 'unknown name')
            return 'v_' + e.id, env[e.id]
        if isinstance(e, ast.Attribute) and isinstance(e.value, ast.Name) and e.value.id == 'self':
            if e.attr not in FIELDS:
                self.gap(e, 'unknown field')
            return f'({FIELDS[e.attr][0]} self)', FIELDS[e.attr][1]
        if isinstance(e, ast.UnaryOp) and isinstance(e.op, ast.USub):
            return f'(- {self.z(e.operand, env)})', 'Z'
        if isinstance(e, ast.BinOp) and type(e.op) in BIN:
            return '(' + BIN[type(e.op)].format(self.z(e.left, env), self.z(e.right, env)) + ')', 'Z'
        if isinstance(e, ast.Compare) and len(e.ops) == 1 and type(e.ops[0]) in CMP:
            return f'({self.z(e.left, env)} {CMP[type(e.ops[0])]} {self.z(e.comparators[0], env)})', 'bool'
        if isinstance(e, ast.Subscript):
            if isinstance(e.value, ast.Attribute) and e.value.attr == 'shape' and ast.unparse(e.slice) == '-1':
                return f'(zlen {self.typed(e.value.value, env, "list")})', 'Z'       # L.shape[-1]
            lo, hi = self.slice(e, env)
            return f'(py_slice {lo} {hi} {self.typed(e.value, env, "list")})', 'list'
        if isinstance(e, ast.Call):
            return self.call(e, env)
        self.gap(e, 'unknown expression')

    def typed(self, e, env, ty):
        t, got = self.expr(e, env)
        if got != ty:
            self.gap(e, f'expected {ty}, found {got}')
        return t

    def z(self, e, env):
        return self.typed(e, env, 'Z')

    def slice(self, sub, env):
        s = sub.slice
        if isinstance(s, ast.Tuple) and len(s.elts) == 2 and isinstance(s.elts[0], ast.Constant) and s.elts[0].value is Ellipsis:
            s = s.elts[1]                                  # [..., a:b]: the last axis (the only one of a single channel)
        if not isinstance(s, ast.Slice) or s.step is not None:
            self.gap(sub, 'unknown subscript')
        return tuple('None' if b is None else f'(Some {self.z(b, env)})' for b in (s.lower, s.upper))

    def call(self, e, env):
        f = e.func
        if isinstance(f, ast.Name):
            if e.keywords:
                self.gap(e, 'keyword arguments')
            if f.id in ('max', 'min') and len(e.args) == 2:
                return f'(Z.{f.id} {self.z(e.args[0], env)} {self.z(e.args[1], env)})', 'Z'
            if f.id == 'abs' and len(e.args) == 1:
                return f'(Z.abs {self.z(e.args[0], env)})', 'Z'
            if f.id == 'int' and len(e.args) == 1:
                return self.z(e.args[0], env), 'Z'
            if f.id == 'len' and len(e.args) == 1:
                return f'(zlen {self.typed(e.args[0], env, "list")})', 'Z'
            if f.id == '_np_full' and len(e.args) == 2:     # only reachable through PINS
                return f'(np_full {self.z(e.args[0], env)} {self.z(e.args[1], env)})', 'res'
            if f.id == '_np_pad' and len(e.args) == 4:
                a = [self.typed(e.args[0], env, 'list')] + [self.z(x, env) for x in e.args[1:]]
                return '(np_pad ' + ' '.join(a) + ')', 'res'
            self.gap(e, 'unknown function')
        if isinstance(f, ast.Attribute) and f.attr == 'copy' and not e.args and not e.keywords:
            return self.typed(f.value, env, 'list'), 'list'  # a copy of a list is the list (aliasing: C15)
        if not (isinstance(f, ast.Attribute) and isinstance(f.value, ast.Name) and f.value.id == 'self'):
            self.gap(e, 'unknown call')
        name = f.attr
        if name in PINNED_FUNCS:
            if name not in self.methods or ast.unparse(_strip_doc(self.methods[name])) != PINNED_FUNCS[name][0]:
                self.gap(e, f'the pinned helper {name} changed')
            to = PINNED_FUNCS[name][1]
            if to == 'arg0':
                if len(e.args) != 1 or e.keywords:
                    self.gap(e, 'arguments of a pinned helper')
                return self.expr(e.args[0], env)
            name = to
        if name not in TARGETS or name == '__init__':
            self.gap(e, 'call of a method that is not translated')
        kind, _, params = TARGETS[name]
        fn = self.methods[name]
        given = dict(zip([p for p, _ in params], e.args))
        if len(e.args) > len(params):
            self.gap(e, 'too many arguments')
        for kw in e.keywords:
            if kw.arg is None or kw.arg in given or kw.arg not in dict(params):
                self.gap(e, 'unknown keyword')
            given[kw.arg] = kw.value
        names = [a.arg for a in fn.args.args][1:]
        defaults = dict(zip(names[len(names) - len(fn.args.defaults):], fn.args.defaults))
        out = []
        for p, ty in params:
            a = given.get(p, defaults.get(p))
            if a is None:
                self.gap(e, f'argument {p} missing')
            if ty == 'optZ' and isinstance(a, ast.Constant) and a.value is None:
                out.append('None')
            elif ty == 'optZ' and not (isinstance(a, ast.Name) and env.get(a.id) == 'optZ'):
                out.append(f'(Some {self.z(a, env)})')
            else:
                out.append(self.typed(a, env, ty))
        return '(' + ' '.join([f'g_{name}', 'self'] + out) + ')', {'pure': 'Z', 'read': 'res', 'mut': 'mres'}[kind]

    # ---- statements ----------------------------------------------------------------------------------------------
    def block(self, stmts, env, ind):
        """the statements `stmts` followed by the end of the method, as one Gallina expression"""
        pad = '  ' * ind
        if not stmts:
            if self.kind in ('mut', 'init'):
                return pad + 'MOk self'
            raise Gap(f'{self.name}: the end of the method is reached without a return')
        s, rest = stmts[0], stmts[1:]
        env = dict(env)
        text = ast.unparse(s)
        if (self.name, text) in PINS:
            self.used_pins.add((self.name, text))
            to = PINS[(self.name, text)]
            return self.block(([] if to is None else ast.parse(to).body) + rest, env, ind)
        if isinstance(s, ast.Pass):
            return self.block(rest, env, ind)
        if isinstance(s, ast.With):
            if len(s.items) != 1 or ast.unparse(s.items[0]) != 'self._lock':
                self.gap(s, 'unknown with')
            return self.block(s.body + rest, env, ind)
        if isinstance(s, ast.Expr):
            v = s.value
            if isinstance(v, ast.Constant) and isinstance(v.value, str):
                return self.block(rest, env, ind)                                   # docstring
            if isinstance(v, ast.Call) and isinstance(v.func, ast.Attribute) and ast.unparse(v.func.value) == 'log':
                for a in v.args:                                                     # logging: arguments without effects
                    ok = isinstance(a, (ast.Constant, ast.Name)) or \
                        (isinstance(a, ast.Attribute) and isinstance(a.value, ast.Name) and a.value.id == 'self')
                    if not ok or v.keywords:
                        self.gap(s, 'logging call with a compound argument')
                return self.block(rest, env, ind)
            if isinstance(v, ast.Call):
                t, ty = self.call(v, env)
                if ty == 'mres' and self.kind == 'mut':
                    return f'{pad}mseq {t} (fun self =>\n{self.block(rest, env, ind)})'
            self.gap(s, 'unknown expression statement')
        if isinstance(s, ast.Return):
            if s.value is None:                     # (`rest` is what follows the enclosing block: not reached)
                if self.kind != 'mut':
                    self.gap(s, 'bare return')
                return pad + 'MOk self'
            t, ty = self.expr(s.value, env)
            if (self.kind, ty) in (('pure', 'Z'), ('read', 'res')):
                return pad + t
            if (self.kind, ty) == ('read', 'list'):
                return f'{pad}Ret {t}'
            self.gap(s, f'a {self.kind} method returns {ty}')
        if isinstance(s, ast.Raise):
            n = s.exc.func if isinstance(s.exc, ast.Call) else s.exc
            if s.cause or not isinstance(n, ast.Name) or n.id not in EXC:
                self.gap(s, 'unknown raise')
            if self.kind == 'read':
                return f'{pad}Raise {EXC[n.id]}'
            if self.kind == 'mut':
                return f'{pad}MRaise {EXC[n.id]} self'
            self.gap(s, 'raise in a pure method')
        if isinstance(s, ast.AugAssign) and type(s.op) in (ast.Add, ast.Sub):
            s = ast.Assign(targets=[s.target], value=ast.BinOp(left=copy.deepcopy(s.target), op=s.op, right=s.value),
                           lineno=s.lineno)
        if isinstance(s, ast.Assign) and len(s.targets) == 1:
            return self.assign(s, s.targets[0], rest, env, ind)
        if isinstance(s, ast.If):
            return self.cond(s, rest, env, ind)
        self.gap(s, 'unknown statement')

    def bind(self, t, var, body, pad):
        """`var` := the value of the raising call `t`, then `body`"""
        if self.kind == 'read':
            return f'{pad}rbind {t} (fun {var} =>\n{body})'
        if self.kind in ('mut', 'init'):
            return f'{pad}mtry {t} self (fun {var} =>\n{body})'
        raise Gap(f'{self.name}: a call that may raise, in a pure method')

    def assign(self, s, tgt, rest, env, ind):
        pad = '  ' * ind
        if isinstance(tgt, ast.Name):
            t, ty = self.expr(s.value, env)
            if ty == 'res':
                env[tgt.id] = 'list'
                return self.bind(t, 'v_' + tgt.id, self.block(rest, env, ind), pad)
            if ty not in ('Z', 'list'):
                self.gap(s, f'assignment of a {ty}')
            env[tgt.id] = ty
            return f'{pad}let v_{tgt.id} := {t} in\n{self.block(rest, env, ind)}'
        if self.kind not in ('mut', 'init'):
            self.gap(s, 'the object is changed by a method that is read as not changing it')
        if isinstance(tgt, ast.Attribute) and isinstance(tgt.value, ast.Name) and tgt.value.id == 'self':
            if tgt.attr not in FIELDS:
                self.gap(s, 'assignment to an unknown field')
            fld, fty = FIELDS[tgt.attr]
            self.assigned.add(tgt.attr)
            t, ty = self.expr(s.value, env)
            if ty == 'res' and fty == 'list':
                return self.bind(t, 'r', f'{pad}let self := set_{fld} self r in\n{self.block(rest, env, ind)}', pad)
            if ty != fty:
                self.gap(s, f'a {ty} assigned to the {fty} field')
            return f'{pad}let self := set_{fld} self {t} in\n{self.block(rest, env, ind)}'
        if isinstance(tgt, ast.Subscript) and ast.unparse(tgt.value) == 'self._buffer':
            lo, hi = self.slice(tgt, env)
            t, ty = self.expr(s.value, env)
            if ty == 'Z':       # a scalar is broadcast
                return f'{pad}let self := set_buf self (py_set_const {lo} {hi} {t} (buf self)) in\n{self.block(rest, env, ind)}'
            if ty == 'list':
                return self.bind(f'(np_set_slice {lo} {hi} {t} (buf self))', 'r',
                                 f'{pad}let self := set_buf self r in\n{self.block(rest, env, ind)}', pad)
        self.gap(s, 'unknown assignment')

    def cond(self, s, rest, env, ind):
        pad = '  ' * ind
        c = s.test
        if isinstance(c, ast.Compare) and len(c.ops) == 1 and isinstance(c.ops[0], ast.Is) and \
                isinstance(c.left, ast.Name) and env.get(c.left.id) == 'optZ' and ast.unparse(c.comparators[0]) == 'None':
            x = c.left.id
            one = s.body[0] if len(s.body) == 1 else None
            if not s.orelse and isinstance(one, ast.Assign) and ast.unparse(one.targets[0]) == x:
                t = self.z(one.value, env)                  # if x is None: x = e
                env[x] = 'Z'
                return (f'{pad}let v_{x} := match v_{x} with None => {t} | Some v_{x} => v_{x} end in\n'
                        + self.block(rest, env, ind))
            env1 = dict(env)
            env1[x] = 'Z'
            return (f'{pad}match v_{x} with\n{pad}| None =>\n{self.block(s.body + rest, env, ind + 1)}\n'
                    f'{pad}| Some v_{x} =>\n{self.block(s.orelse + rest, env1, ind + 1)}\n{pad}end')
        t = self.typed(c, env, 'bool')
        return (f'{pad}if {t} then\n{self.block(s.body + rest, env, ind + 1)}\n{pad}else\n'
                f'{self.block(s.orelse + rest, env, ind + 1)}')


def _unreachable(fn):
    for node in ast.walk(fn):
        for fld in ('body', 'orelse'):
            b = getattr(node, fld, None)
            if isinstance(b, list):
                for s in b[:-1]:
                    if isinstance(s, (ast.Return, ast.Raise)):
                        raise Gap(f'{fn.name}, line {s.lineno}: statements after a return / raise')


def translate_source(src):
    """-> (Gallina text of all definitions, info).  Raises Gap on anything unknown."""
    tree = ast.parse(src)
    cls = [n for n in tree.body if isinstance(n, ast.ClassDef) and n.name == 'SignalBuffer']
    if len(cls) != 1:
        raise Gap('class SignalBuffer not found (exactly once)')
    methods = {}
    for n in cls[0].body:
        if isinstance(n, (ast.FunctionDef, ast.AsyncFunctionDef)):
            if n.name in methods or n.decorator_list or not isinstance(n, ast.FunctionDef):
                raise Gap(f'method {n.name}: defined twice / decorated / async')
            methods[n.name] = n
        elif not (isinstance(n, ast.Expr) and isinstance(n.value, ast.Constant)):
            raise Gap(f'class body, line {n.lineno}: `{ast.unparse(n)[:80]}`')
    known = set(TARGETS) | set(PINNED_FUNCS)
    if set(methods) != known:
        # a new method may write the fields behind the back of the translated ones
        raise Gap(f'methods of SignalBuffer changed: unknown {sorted(set(methods) - known)}, missing {sorted(known - set(methods))}')
    for name, (text, _) in PINNED_FUNCS.items():
        if ast.unparse(_strip_doc(methods[name])) != text:
            raise Gap(f'the pinned helper {name} changed')
    defs, used = [], set()
    for name, (kind, sig, params) in TARGETS.items():
        fn = methods[name]
        if ast.unparse(fn.args) != sig:
            raise Gap(f'{name}: signature `{ast.unparse(fn.args)}`, pinned `{sig}`')
        _unreachable(fn)
        tr = _Fn(name, methods)
        env = {p: ty for p, ty in params}
        body = tr.block(list(fn.body), env, 1)
        if kind == 'init':
            if tr.assigned != set(FIELDS):
                raise Gap(f'__init__ assigns {sorted(tr.assigned)}, not every field of {sorted(FIELDS)}')
            body = '  let self := new_object in\n' + body
        used |= tr.used_pins
        coq = 'g_init' if name == '__init__' else 'g_' + name
        args = ('' if kind == 'init' else ' (self : bstate)') + ''.join(f' (v_{p} : {COQTY[ty]})' for p, ty in params)
        defs.append(f'(* {name}, line {fn.lineno} *)\nDefinition {coq}{args} : {RET[kind]} :=\n{body}.\n')
    if used != set(PINS):
        raise Gap(f'pinned statements not found in the source: {sorted(set(PINS) - used)}')
    order = sorted(TARGETS, key=lambda n: _deps_rank(n, methods))
    text = '\n'.join(defs[list(TARGETS).index(n)] for n in order)
    return text, {'functions': ['g_init' if n == '__init__' else 'g_' + n for n in order], 'pins': len(PINS),
                  'pinned_helpers': sorted(PINNED_FUNCS)}


def _calls(name, methods):
    out = set()
    for n in ast.walk(methods[name]):
        if isinstance(n, ast.Call) and isinstance(n.func, ast.Attribute) and ast.unparse(n.func.value) == 'self':
            m = n.func.attr
            m = PINNED_FUNCS[m][1] if m in PINNED_FUNCS else m
            if m in TARGETS:
                out.add(m)
    return out


def _deps_rank(name, methods, seen=()):
    if name in seen:
        raise Gap(f'recursion through {name}')
    return 1 + max([_deps_rank(m, methods, seen + (name,)) for m in _calls(name, methods)], default=0)


# ---- self-test: the real methods on the real object vs the emitted definitions evaluated by Coq ----------------
def _zs(v):
    return '[' + '; '.join(f'({int(x)})' if x < 0 else str(int(x)) for x in v) + ']'


def _state(b):
    import numpy as np
    buf = np.asarray(b._buffer)
    assert buf.ndim == 1 and not np.isnan(buf).any() and (buf == np.round(buf)).all()
    z = lambda x: f'({int(x)})' if x < 0 else str(int(x))
    return (f'{{| cap := {z(b._buffer_samples)}; S := {z(b._samples)}; ilb := {z(b._ilb)}; '
            f'buf := {_zs(buf)}; fillv := {z(b._fill_value)} |}}')


def selftest(repo, n_states=14, seed=11):
    """Examples `g_m state args = <what the real method did>`; Coq checks them (vm_compute) when the file is compiled.
    fs = 1: a time IS its sample number, so the methods taking seconds are called with integers."""
    import importlib.util
    import random
    import numpy as np
    spec = importlib.util.spec_from_file_location('_tie_buffer_under_test', os.path.join(repo, 'psiaudio', 'buffer.py'))
    mod = importlib.util.module_from_spec(spec)
    spec.loader.exec_module(mod)
    if not hasattr(mod.log, 'trace'):
        mod.log.trace = lambda *a, **k: None
    rng = random.Random(seed)
    opt = lambda x: 'None' if x is None else f'(Some {zi(x)})'
    zi = lambda x: f'({int(x)})' if x < 0 else str(int(x))
    ex = []

    def outcome(b, f, reader):
        try:
            r = f()
        except IndexError:
            return 'Raise EIndexError' if reader else f'MRaise EIndexError {_state(b)}'
        except ValueError:
            return 'Raise EValueError' if reader else f'MRaise EValueError {_state(b)}'
        return f'Ret {_zs(r)}' if reader else f'MOk {_state(b)}'

    def clone(b):                   # (the RLock cannot be deep-copied; sharing it is harmless here)
        c = copy.copy(b)
        c.__dict__ = {k: (v.copy() if isinstance(v, np.ndarray) else v) for k, v in b.__dict__.items()}
        return c

    pos = 0
    for k in range(n_states):
        cap, fill = rng.randint(1, 5), rng.choice([-1, 0, 7])
        b = mod.SignalBuffer(1.0, float(cap), fill_value=float(fill))
        ex.append(f'g_init {zi(cap)} {zi(fill)} = MOk {_state(b)}')
        try:
            for _ in range(rng.randint(0, 4)):      # some history first, through the real methods
                u = rng.random()
                if u < 0.6:
                    n = rng.randint(1, cap + 2)
                    b.append_data(np.arange(pos + 1, pos + n + 1, dtype=float))
                    pos += n
                elif u < 0.85:
                    b.invalidate_samples(b.get_samples_ub() - rng.randint(-1, cap + 1))
                else:
                    b.resize(float(rng.randint(1, 2 * cap)))
        except (IndexError, ValueError):
            pass                                    # (a changed source may refuse: the state reached so far will do)
        lb, ub = b.get_samples_lb(), b.get_samples_ub()
        pick = lambda: rng.randint(lb - 2, ub + 2)
        st = _state(b)
        i = pick()
        ex.append(f'g_samples_to_index {st} {zi(i)} = {zi(b.samples_to_index(i))}')
        ex.append(f'g_time_to_index {st} {zi(i)} = {zi(b.time_to_index(float(i)))}')
        ex.append(f'g_get_samples_lb {st} = {zi(lb)}')
        ex.append(f'g_get_samples_ub {st} = {zi(ub)}')
        a, e = sorted([pick(), pick()])
        if rng.random() < 0.25:
            a, e = e, a
        for x, y in [(a, e), (None, e), (a, None), (None, None)]:
            ex.append(f'g_get_range_samples {st} {opt(x)} {opt(y)} = ' + outcome(b, lambda: b.get_range_samples(x, y), True))
        ex.append(f'g_get_range_filled {st} {zi(a)} {zi(e)} 9 = ' + outcome(b, lambda: b.get_range_filled(float(a), float(e), 9.0), True))
        ex.append(f'g_get_latest {st} {zi(a - ub)} {zi(e - ub)} None = ' + outcome(b, lambda: b.get_latest(float(a - ub), float(e - ub)), True))
        ex.append(f'g_get_latest {st} {zi(a - ub)} {zi(e - ub)} (Some 9) = '
                  + outcome(b, lambda: b.get_latest(float(a - ub), float(e - ub), 9.0), True))
        for n in (0, rng.randint(1, b._buffer_samples), b._buffer_samples + rng.randint(1, 2)):
            c = clone(b)
            d = np.arange(500, 500 + n, dtype=float)
            ex.append(f'g_append_data {st} {_zs(d)} = ' + outcome(c, lambda: c.append_data(d), False))
        c = clone(b)
        j = rng.randint(-1, b._buffer_samples + 1)
        ex.append(f'g__invalidate {st} {zi(j)} = ' + outcome(c, lambda: c._invalidate(j), False))
        for meth in ('invalidate_samples', 'invalidate'):
            c = clone(b)
            j = pick()
            ex.append(f'g_{meth} {st} {zi(j)} = ' + outcome(c, lambda: getattr(c, meth)(j), False))
        c = clone(b)
        m = rng.randint(1, 2 * b._buffer_samples + 1)
        ex.append(f'g_resize {st} {zi(m)} = ' + outcome(c, lambda: c.resize(float(m)), False))
    text = '\n'.join(f'Example selftest_{k} :\n  {e}.\nProof. vm_compute. reflexivity. Qed.' for k, e in enumerate(ex))
    return text, len(ex)


HEADER = '''From PV Require Import Common.PySlice Buffer.Model Buffer.TieLib.
Local Open Scope Z_scope.

'''


def generate(repo):
    """-> (text of coq/gen/BufferStepGen.v, info)"""
    path = os.path.join(repo, 'psiaudio', 'buffer.py')
    defs, info = translate_source(open(path).read())
    tests, n = selftest(repo)
    info['selftest_examples'] = n
    head = ('(* GENERATED on every run by harness/C14.py translate() with translate/pybuffer2coq.py from\n'
            f'   {path} (class SignalBuffer) - do not edit.  One definition per method, statement by statement;\n'
            '   record fields: cap = _buffer_samples, S = _samples, ilb = _ilb, buf = _buffer (one channel), fillv = _fill_value;\n'
            '   times in sample units.  Tied to the hand-written model by coq/Buffer/ProofsTie.v. *)\n')
    return (head + HEADER + defs + '\n(* ---- self-test: what the real methods did on the real object (fs = 1) ---- *)\n'
            + tests + '\n'), info


if __name__ == '__main__':
    import sys
    t, i = generate(sys.argv[1] if len(sys.argv) > 1 else '/repo')
    sys.stdout.write(t)
    sys.stderr.write(repr(i) + '\n')
