"""Fail-closed `ast` translator for the boolean-epoch utilities of psiaudio/util.py (property C18).

Reads the CURRENT source of  ts, edge_rising, edge_falling, epochs (pad == 0 path), smooth_epochs, debounce_epochs
and emits coq/gen/RunsGen.v: one Gallina definition per function, statement by statement, in the vocabulary of
coq/Runs/NumpyPrims.v (one definition per NumPy primitive).  coq/Runs/ProofsTie.v proves the emitted definitions equal
to the hand-written model of coq/Runs/Model.v for all inputs.

  assignment -> let        a partial operation (index, np.c_, boolean selection, a call that may raise) -> bind
  if (all branches fall through) -> bind (if c then .. Some vars else .. Some vars) (fun vars => rest)
  if (a branch returns) -> if c then .. else rest       return e -> Some e       index error etc. -> None
  while -> Fixpoint on fuel (None when the fuel runs out); state = the variables the body assigns that exist before
  `a and b` with a partial b -> and_lazy a b (b is not evaluated when a is false)
  arrays are VALUES: `a[:, 1] += d`, `a.sort(axis=0)`, `l.append(t)` rebind the local name; they are accepted only on a
  name the function itself has bound to a fresh array before (never on the caller's array: aliasing is not modelled)

Anything not in the tables below raises TranslatorGap.  Dropped / pinned statements are matched on their exact
`ast.unparse` text.  Comments, blank lines and docstrings do not reach the ast and are harmless."""
import ast
import os


class TranslatorGap(Exception):
    pass


COQ_TYPE = {'Z': 'Z', 'bool': 'bool', 'arrZ': 'list Z', 'arrB': 'list bool', 'arr2': 'list (Z * Z)', 'row': '(Z * Z)'}
RESERVED = {'end', 'match', 'with', 'fun', 'let', 'in', 'if', 'then', 'else', 'return', 'fix', 'forall', 'exists', 'as',
            'at', 'Type', 'Set', 'Prop', 'fuel', 'bind', 'where', 'struct', 'using', 'for', 'cofix', 'nat', 'Z', 'bool',
            'list', 'option', 'Some', 'None', 'true', 'false', 'fst', 'snd', 'map', 'length', 'zlen'}

PAD_BLOCK = ('if pad:\n    for s in start:\n        x[s - pad:s] = 1\n    for e in end:\n        x[e:e + pad] = 1\n'
             '    start = ts(edge_rising(x))\n    end = ts(edge_falling(x))')

# function -> typed parameters, parameters pinned to their default (name -> unparse text of the default), statements
# dropped on their pinned text, types of locals initialised with an empty list
TARGETS = [
    {'name': 'ts', 'params': [('TTL', 'arrB')]},
    {'name': 'edge_rising', 'params': [('TTL', 'arrB')]},
    {'name': 'edge_falling', 'params': [('TTL', 'arrB')]},
    {'name': 'epochs', 'params': [('x', 'arrB')], 'fixed': {'pad': '0'}, 'drop': [PAD_BLOCK]},
    {'name': 'smooth_epochs', 'params': [('epochs', 'arr2')], 'locals': {'smoothed': 'arr2'}},
    {'name': 'debounce_epochs', 'params': [('epochs', 'arr2'), ('debounce', 'Z')]},
]
PINNED_EXPR = {'np.array([]).reshape((0, 2))': ('np_empty_0_2', 'arr2')}
# call text (with # for the arguments) -> (argument types, Coq function, result type)
CALLS = {'len(#)': [(('arrB',), 'zlen', 'Z'), (('arrZ',), 'zlen', 'Z'), (('arr2',), 'zlen', 'Z')],
         'np.flatnonzero(#)': [(('arrB',), 'np_flatnonzero', 'arrZ')],
         'np.diff(#)': [(('arrZ',), 'np_diff', 'arrZ')],
         "#.astype('i')": [(('arrB',), 'np_astype_i', 'arrZ')],
         'np.array(#)': [(('arr2',), 'np_array', 'arr2')]}
CMP = {ast.Eq: '=?', ast.Lt: '<?', ast.Gt: '>?', ast.GtE: '>=?', ast.LtE: '<=?'}
CMP_ARR = {ast.Eq: 'np_eq_s', ast.GtE: 'np_ge_s'}
BIN = {ast.Add: '+', ast.Sub: '-', ast.Mult: '*', ast.FloorDiv: '/', ast.Mod: 'mod'}
BIN_ARR = {ast.Sub: 'np_sub'}
COL_UPDATE = {(1, ast.Add): 'np_col1_add', (1, ast.Sub): 'np_col1_sub'}
PRIMITIVES = sorted({c[1] for v in CALLS.values() for c in v} | set(CMP_ARR.values()) | set(BIN_ARR.values()) |
                    set(COL_UPDATE.values()) | {'np_index', 'np_index2', 'np_col0', 'np_col1', 'np_r_cons', 'np_r_snoc',
                                                'np_c_', 'np_select', 'np_sort_axis0', 'np_empty_0_2', 'py_append',
                                                'bind', 'and_lazy'})


def gap(node, why):
    txt = ast.unparse(node) if isinstance(node, ast.AST) else str(node)
    raise TranslatorGap(f'{why}: `{txt[:120]}` (line {getattr(node, "lineno", "?")})')


def mangle(name):
    return name + '_' if name in RESERVED or name.startswith('gen_') or name.startswith('np_') else name


def tup(names):
    return names[0] if len(names) == 1 else '(' + ', '.join(names) + ')'


def pat(names):
    return names[0] if len(names) == 1 else "'(" + ', '.join(names) + ')'


def assigned(stmts):
    """names bound by the statements (in source order of their first binding), nested blocks included"""
    sites = []
    for s in stmts:
        for n in ast.walk(s):
            tg = []
            if isinstance(n, ast.Assign):
                tg = n.targets
            elif isinstance(n, ast.AugAssign):
                tg = [n.target]
            elif isinstance(n, ast.Expr) and isinstance(n.value, ast.Call) and isinstance(n.value.func, ast.Attribute) \
                    and isinstance(n.value.func.value, ast.Name):
                tg = [n.value.func.value]                      # a.sort(..) / l.append(..) rebind a
            for t in tg:
                t = t.value if isinstance(t, ast.Subscript) else t
                for e in (t.elts if isinstance(t, ast.Tuple) else [t]):
                    if isinstance(e, ast.Name):
                        sites.append((e.lineno, e.col_offset, e.id))
    return list(dict.fromkeys(v for _, _, v in sorted(sites)))


def returns(stmts):
    """the block always ends in a return"""
    if not stmts:
        return False
    s = stmts[-1]
    return isinstance(s, ast.Return) or (isinstance(s, ast.If) and returns(s.body) and returns(s.orelse))


class Fn:
    def __init__(self, spec, node, funcs):
        self.spec, self.node, self.funcs = spec, node, funcs
        self.name = spec['name']
        self.fixpoints, self.nwhile, self.ntmp = [], 0, 0
        self.uses_fuel, self.ret_types = False, set()

    # ---------------- expressions: returns (Coq text, type); partial operations are appended to `pend`
    def tmp(self):
        self.ntmp += 1
        return f"t'{self.ntmp}"

    def partial(self, pend, opt):
        t = self.tmp()
        pend.append((t, opt))
        return t

    @staticmethod
    def wrap(pend, text):
        for t, opt in reversed(pend):
            text = f'bind ({opt}) (fun {t} =>\n{text})'
        return text

    def expr(self, n, env, pend):
        src = ast.unparse(n)
        if src in PINNED_EXPR:
            return PINNED_EXPR[src]
        if isinstance(n, ast.Name):
            if n.id not in env:
                gap(n, 'unknown name')
            return mangle(n.id), env[n.id]
        if isinstance(n, ast.Constant) and type(n.value) is int:
            return (str(n.value) if n.value >= 0 else f'({n.value})'), 'Z'
        if isinstance(n, ast.UnaryOp) and isinstance(n.op, ast.USub) and isinstance(n.operand, ast.Constant) \
                and type(n.operand.value) is int:
            return f'(-{n.operand.value})', 'Z'
        if isinstance(n, ast.Tuple) and len(n.elts) == 2:
            (a, ta), (b, tb) = (self.expr(e, env, pend) for e in n.elts)
            if (ta, tb) != ('Z', 'Z'):
                gap(n, 'tuple of non-integers')
            return f'({a}, {b})', 'row'
        if isinstance(n, ast.BinOp):
            (a, ta), (b, tb) = self.expr(n.left, env, pend), self.expr(n.right, env, pend)
            if (ta, tb) == ('Z', 'Z') and type(n.op) in BIN:
                return f'({a} {BIN[type(n.op)]} {b})', 'Z'
            if (ta, tb) == ('arrZ', 'arrZ') and type(n.op) in BIN_ARR:
                return f'({BIN_ARR[type(n.op)]} {a} {b})', 'arrZ'
            gap(n, f'binary operator on {ta}, {tb}')
        if isinstance(n, ast.Compare) and len(n.ops) == 1:
            (a, ta), (b, tb) = self.expr(n.left, env, pend), self.expr(n.comparators[0], env, pend)
            if (ta, tb) == ('Z', 'Z') and type(n.ops[0]) in CMP:
                return f'({a} {CMP[type(n.ops[0])]} {b})', 'bool'
            if (ta, tb) == ('arrZ', 'Z') and type(n.ops[0]) in CMP_ARR:
                return f'({CMP_ARR[type(n.ops[0])]} {a} {b})', 'arrB'
            gap(n, f'comparison on {ta}, {tb}')
        if isinstance(n, ast.BoolOp) and isinstance(n.op, ast.And) and len(n.values) == 2:
            a, ta = self.expr(n.values[0], env, pend)
            sub = []
            b, tb = self.expr(n.values[1], env, sub)
            if (ta, tb) != ('bool', 'bool'):
                gap(n, f'`and` on {ta}, {tb}')
            if not sub:
                return f'({a} && {b})', 'bool'
            return self.partial(pend, f'and_lazy {a} ({self.wrap(sub, f"Some {b}")})'), 'bool'
        if isinstance(n, ast.Subscript):
            return self.subscript(n, env, pend)
        if isinstance(n, ast.Call):
            return self.call(n, env, pend)
        gap(n, 'expression not in the vocabulary')

    def subscript(self, n, env, pend):
        base = ast.unparse(n.value)
        if base in ('np.r_', 'np.c_'):
            if not (isinstance(n.slice, ast.Tuple) and len(n.slice.elts) == 2):
                gap(n, 'np.r_/np.c_ with other than two operands')
            (a, ta), (b, tb) = (self.expr(e, env, pend) for e in n.slice.elts)
            if base == 'np.r_' and (ta, tb) == ('Z', 'arrZ'):
                return f'(np_r_cons {a} {b})', 'arrZ'
            if base == 'np.r_' and (ta, tb) == ('arrZ', 'Z'):
                return f'(np_r_snoc {a} {b})', 'arrZ'
            if base == 'np.c_' and (ta, tb) == ('arrZ', 'arrZ'):
                return self.partial(pend, f'np_c_ {a} {b}'), 'arr2'
            gap(n, f'{base} on {ta}, {tb}')
        a, ta = self.expr(n.value, env, pend)
        s = n.slice
        if isinstance(s, ast.Tuple) and len(s.elts) == 2 and ta == 'arr2':
            if ast.unparse(s.elts[0]) == ':' and isinstance(s.elts[1], ast.Constant) and s.elts[1].value in (0, 1) \
                    and type(s.elts[1].value) is int:
                return f'(np_col{s.elts[1].value} {a})', 'arrZ'
            (i, ti), (j, tj) = (self.expr(e, env, pend) for e in s.elts)
            if (ti, tj) == ('Z', 'Z'):
                return self.partial(pend, f'np_index2 {a} {i} {j}'), 'Z'
            gap(n, 'two-dimensional index')
        if isinstance(s, (ast.Slice, ast.Tuple)):
            gap(n, 'slice')
        i, ti = self.expr(s, env, pend)
        if ti == 'Z' and ta in ('arrB', 'arrZ', 'arr2'):
            return self.partial(pend, f'np_index {a} {i}'), {'arrB': 'bool', 'arrZ': 'Z', 'arr2': 'row'}[ta]
        if ti == 'arrB' and ta == 'arr2':
            return self.partial(pend, f'np_select {i} {a}'), 'arr2'
        gap(n, f'index of {ta} by {ti}')

    def call(self, n, env, pend):
        if n.keywords:
            gap(n, 'keyword argument')
        f = n.func
        if isinstance(f, ast.Name) and f.id in self.funcs and f.id not in env:
            g = self.funcs[f.id]
            args = [self.expr(a, env, pend) for a in n.args]
            if [t for _, t in args] != g['argtypes']:
                gap(n, f'arguments of {f.id}: {[t for _, t in args]}')
            self.uses_fuel |= g['fuel']
            text = ' '.join([g['coq']] + (['fuel'] if g['fuel'] else []) + [a for a, _ in args])
            return (self.partial(pend, text) if g['partial'] else f'({text})'), g['ret']
        if isinstance(f, ast.Name) and f.id == 'len' or ast.unparse(f) in ('np.flatnonzero', 'np.diff', 'np.array'):
            if isinstance(f, ast.Name) and f.id in env:
                gap(n, 'shadowed builtin')
            key, args = ast.unparse(f) + '(#)', list(n.args)
            if key == 'np.array(#)' and len(args) == 1 and isinstance(args[0], ast.List) and args[0].elts and \
                    all(isinstance(r, ast.List) and len(r.elts) == 2 for r in args[0].elts):
                rows = [self.expr(ast.Tuple(elts=r.elts, ctx=ast.Load()), env, pend)[0] for r in args[0].elts]
                return '[' + '; '.join(rows) + ']', 'arr2'
        elif isinstance(f, ast.Attribute) and f.attr == 'astype' and ast.unparse(n.args[0] if n.args else f) == "'i'":
            key, args = "#.astype('i')", [f.value] * len(n.args)
        else:
            gap(n, 'call not in the vocabulary')
        if len(args) != 1:
            gap(n, 'number of arguments')
        a, ta = self.expr(args[0], env, pend)
        for argt, coq, ret in CALLS[key]:
            if argt == (ta,):
                return f'({coq} {a})', ret
        gap(n, f'{key} on {ta}')

    # ---------------- statements.  tail: what a fall-through continues with (None: falling through is a gap)
    def block(self, stmts, tail, env, fresh, may_return):
        if not stmts:
            if tail is None:
                gap(self.node, 'a path falls off the end of the function')
            return tail(env, fresh)
        s, rest = stmts[0], stmts[1:]
        k = lambda env2, fresh2: self.block(rest, tail, env2, fresh2, may_return)
        pend = []
        if isinstance(s, ast.Expr) and isinstance(s.value, ast.Constant) and isinstance(s.value.value, str):
            return k(env, fresh)                                                          # docstring
        if ast.unparse(s) in self.spec.get('drop', []):
            self.dropped.append(ast.unparse(s).split('\n')[0])
            return k(env, fresh)
        if isinstance(s, ast.Return):
            if not may_return or rest or s.value is None:
                gap(s, 'return inside a joined branch / loop, before other statements, or without a value')
            e, t = self.expr(s.value, env, pend)
            self.ret_types.add(t)
            return self.wrap(pend, f'Some {e}')
        if isinstance(s, ast.Assign) and len(s.targets) == 1:
            tg = s.targets[0]
            if isinstance(tg, ast.Name):
                if isinstance(s.value, ast.List) and not s.value.elts and tg.id in self.spec.get('locals', {}):
                    e, t = '[]', self.spec['locals'][tg.id]
                else:
                    e, t = self.expr(s.value, env, pend)
                if env.get(tg.id, t) != t:
                    gap(s, f'{tg.id} changes type from {env[tg.id]} to {t}')
                isname = isinstance(s.value, ast.Name)
                fresh2 = (fresh | {tg.id}) if (not isname or s.value.id in fresh) else fresh - {tg.id}
                return self.wrap(pend, f'let {mangle(tg.id)} := {e} in\n' + k({**env, tg.id: t}, fresh2))
            if isinstance(tg, ast.Tuple) and len(tg.elts) == 2 and all(isinstance(e, ast.Name) for e in tg.elts):
                e, t = self.expr(s.value, env, pend)
                if t != 'row':
                    gap(s, f'unpacking of {t}')
                a, b = (x.id for x in tg.elts)
                if a == b or env.get(a, 'Z') != 'Z' or env.get(b, 'Z') != 'Z':
                    gap(s, 'unpacking target')
                return self.wrap(pend, f"let '({mangle(a)}, {mangle(b)}) := {e} in\n" + k({**env, a: 'Z', b: 'Z'}, fresh))
            gap(s, 'assignment target')
        if isinstance(s, ast.AugAssign):
            tg = s.target
            d, td = self.expr(s.value, env, pend)
            if isinstance(tg, ast.Name) and env.get(tg.id) == 'Z' and td == 'Z' and type(s.op) in BIN:
                v = mangle(tg.id)
                return self.wrap(pend, f'let {v} := ({v} {BIN[type(s.op)]} {d}) in\n' + k(env, fresh))
            if isinstance(tg, ast.Subscript) and isinstance(tg.value, ast.Name) and env.get(tg.value.id) == 'arr2' and \
                    td == 'Z' and isinstance(tg.slice, ast.Tuple) and len(tg.slice.elts) == 2 and \
                    ast.unparse(tg.slice.elts[0]) == ':' and isinstance(tg.slice.elts[1], ast.Constant) and \
                    (tg.slice.elts[1].value, type(s.op)) in COL_UPDATE and type(tg.slice.elts[1].value) is int:
                if tg.value.id not in fresh:
                    gap(s, 'in-place update of an array the function has not created (aliasing is not modelled)')
                v = mangle(tg.value.id)
                return self.wrap(pend, f'let {v} := {COL_UPDATE[tg.slice.elts[1].value, type(s.op)]} {v} {d} in\n' + k(env, fresh))
            gap(s, 'augmented assignment')
        if isinstance(s, ast.Expr) and isinstance(s.value, ast.Call) and isinstance(s.value.func, ast.Attribute) and \
                isinstance(s.value.func.value, ast.Name):
            c, obj = s.value, s.value.func.value.id
            v = mangle(obj)
            if obj not in fresh or env.get(obj) != 'arr2':
                gap(s, 'method call on something the function has not created as an (n, 2) array / list of pairs')
            if ast.unparse(c) == f'{obj}.sort(axis=0)':
                return f'let {v} := np_sort_axis0 {v} in\n' + k(env, fresh)
            if c.func.attr == 'append' and len(c.args) == 1 and not c.keywords:
                e, t = self.expr(c.args[0], env, pend)
                if t != 'row':
                    gap(s, f'append of {t}')
                return self.wrap(pend, f'let {v} := py_append {v} {e} in\n' + k(env, fresh))
            gap(s, 'method call')
        if isinstance(s, ast.If):
            c, tc = self.expr(s.test, env, pend)
            if tc != 'bool':
                gap(s.test, f'condition of type {tc}')
            rb, ro = returns(s.body), returns(s.orelse)
            if rb and ro:
                if rest:
                    gap(rest[0], 'unreachable statement')
                a = self.block(s.body, None, env, fresh, may_return)
                b = self.block(s.orelse, None, env, fresh, may_return)
            elif rb or ro:
                a = self.block(s.body, None if rb else k, env, fresh, may_return)
                b = self.block(s.orelse, None if ro else k, env, fresh, may_return)
            else:
                vs = assigned([s])
                if not vs or any(v not in env for v in vs):
                    gap(s, 'a joined `if` must assign variables that exist before it')
                ends = []

                def join(env2, fresh2):
                    if any(env2[v] != env[v] for v in vs):
                        gap(s, 'a variable changes type in a branch')
                    ends.append(fresh2)
                    return 'Some ' + tup([mangle(v) for v in vs])
                a = self.block(s.body, join, env, fresh, False)
                b = self.block(s.orelse, join, env, fresh, False)
                fresh2 = set(fresh)
                for f2 in ends:
                    fresh2 &= f2
                return self.wrap(pend, f'bind (if {c}\n then {a}\n else {b}) (fun {pat([mangle(v) for v in vs])} =>\n'
                                 + k(env, fresh2) + ')')
            return self.wrap(pend, f'if {c}\n then {a}\n else {b}')
        if isinstance(s, ast.While):
            return self.while_(s, k, env, fresh)
        gap(s, 'statement not in the vocabulary')

    def while_(self, s, k, env, fresh):
        if s.orelse:
            gap(s, 'while/else')
        self.nwhile += 1
        self.uses_fuel = True
        name = f'gen_{self.name}_while{self.nwhile}'
        state = [v for v in assigned(s.body) if v in env]
        if not state:
            gap(s, 'loop without state')
        reads = sorted({(n.lineno, n.col_offset, n.id) for n in ast.walk(s)
                        if isinstance(n, ast.Name) and isinstance(n.ctx, ast.Load) and n.id in env and n.id not in state})
        free = list(dict.fromkeys(v for _, _, v in reads))
        pend = []
        c, tc = self.expr(s.test, env, pend)
        if tc != 'bool':
            gap(s.test, f'loop condition of type {tc}')
        call = ' '.join([name, 'fuel'] + [mangle(v) for v in free + state])

        def again(env2, fresh2):
            if any(env2[v] != env[v] for v in state) or not fresh2 >= fresh:
                gap(s, 'a loop variable changes type / stops being a fresh array')
            return call
        body = self.block(s.body, again, env, fresh, False)
        binders = ' '.join(f'({mangle(v)} : {COQ_TYPE[env[v]]})' for v in free + state)
        rtype = ' * '.join(COQ_TYPE[env[v]] for v in state)
        self.fixpoints.append(
            f'Fixpoint {name} (fuel : nat) {binders} : option ({rtype}) :=\n match fuel with O => None | S fuel =>\n'
            + self.wrap(pend, f'if {c}\n then {body}\n else Some {tup([mangle(v) for v in state])}') + '\n end.\n')
        return f'bind ({call}) (fun {pat([mangle(v) for v in state])} =>\n' + k(env, fresh) + ')'

    # ---------------- a whole function
    def translate(self):
        a = self.node.args
        if a.vararg or a.kwarg or a.kwonlyargs or a.posonlyargs:
            gap(self.node, 'parameter kinds')
        names = [x.arg for x in a.args]
        defaults = dict(zip(names[len(names) - len(a.defaults):], (ast.unparse(d) for d in a.defaults)))
        fixed = self.spec.get('fixed', {})
        if names != [p for p, _ in self.spec['params']] + list(fixed) or defaults != fixed or self.node.decorator_list:
            gap(self.node, f'signature is not {self.spec["params"]} + {fixed}')
        env = dict(self.spec['params'])
        mg = [mangle(p) for p in env]
        if len(set(mg)) != len(mg):
            gap(self.node, 'parameter names collide')
        self.dropped = []
        body = [s for s in self.node.body
                if not (isinstance(s, ast.Expr) and isinstance(s.value, ast.Constant) and isinstance(s.value.value, str))]
        total = len(body) == 1 and isinstance(body[0], ast.Return)
        text = self.block(self.node.body, None, env, set(), True)
        if sorted(self.dropped) != sorted(d.split('\n')[0] for d in self.spec.get('drop', [])):
            gap(self.node, f'the pinned statements {self.spec.get("drop")} were not all found')
        if len(self.ret_types) != 1:
            gap(self.node, f'return types {self.ret_types}')
        ret = self.ret_types.pop()
        total = total and text.startswith('Some ')
        binders = ''.join(f' ({mangle(p)} : {COQ_TYPE[t]})' for p, t in self.spec['params'])
        fuel = ' (fuel : nat)' if self.uses_fuel else ''
        if total:
            out = f'Definition gen_{self.name}{binders} : {COQ_TYPE[ret]} :=\n{text[5:]}.\n'
        else:
            out = f'Definition gen_{self.name}{fuel}{binders} : option ({COQ_TYPE[ret]}) :=\n{text}.\n'
        sig = {'coq': f'gen_{self.name}', 'argtypes': [t for _, t in self.spec['params']], 'ret': ret,
               'partial': not total, 'fuel': self.uses_fuel, 'loops': self.nwhile, 'dropped': self.dropped}
        return ''.join(self.fixpoints) + out, sig


HEADER = '''From PV Require Import Common.ListX Runs.Model Runs.NumpyPrims.
Open Scope Z_scope.
'''


def translate(repo):
    """-> (text of coq/gen/RunsGen.v, info).  Raises TranslatorGap on anything outside the tables."""
    path = os.path.join(repo, 'psiaudio', 'util.py')
    tree = ast.parse(open(path).read())
    defs = {}
    for n in tree.body:
        if isinstance(n, (ast.FunctionDef, ast.AsyncFunctionDef, ast.ClassDef)) and n.name in [t['name'] for t in TARGETS]:
            if n.name in defs or not isinstance(n, ast.FunctionDef):
                raise TranslatorGap(f'{n.name} is defined twice / is not a plain function')
            defs[n.name] = n
    # any other module-level binding of a target name (assignment, import, second def) would make the text stale
    tnames = [t['name'] for t in TARGETS]
    for n in tree.body:
        if isinstance(n, (ast.FunctionDef, ast.AsyncFunctionDef, ast.ClassDef)):
            continue
        for t in ast.walk(n):
            nm = t.id if isinstance(t, ast.Name) and not isinstance(t.ctx, ast.Load) else \
                (t.asname or t.name).split('.')[0] if isinstance(t, ast.alias) else None
            if nm in tnames:
                raise TranslatorGap(f'{nm} is also bound at module level (line {n.lineno})')
    funcs, parts, info = {}, [], {'functions': {}, 'source': path}
    for spec in TARGETS:
        if spec['name'] not in defs:
            raise TranslatorGap(f'{spec["name"]} not found in {path}')
        text, sig = Fn(spec, defs[spec['name']], funcs).translate()
        funcs[spec['name']] = sig
        parts.append(f'(* util.{spec["name"]}, line {defs[spec["name"]].lineno} *)\n' + text)
        info['functions'][spec['name']] = {k: sig[k] for k in ('coq', 'argtypes', 'ret', 'partial', 'fuel', 'loops', 'dropped')}
    return HEADER + '\n' + '\n'.join(parts), info


# ---------------- self-test: the emitted definitions, evaluated by coqc (vm_compute), against the real functions
def _blist(x):
    return '[' + '; '.join('true' if b else 'false' for b in x) + ']'


def _zlist(x):
    return '[' + '; '.join(str(int(v)) if v >= 0 else f'({int(v)})' for v in x) + ']'


def _pairs(a):
    return '[' + '; '.join(f'({_zlist([s])[1:-1]}, {_zlist([e])[1:-1]})' for s, e in a) + ']'


def selftest_terms(util, rng):
    """Coq boolean terms `generated definition applied to an input == what the real function returned`."""
    import numpy as np

    def real(f, *args):
        try:
            r = np.asarray(f(*args))
            return [(int(s), int(e)) for s, e in r.reshape((-1, 2))]
        except (IndexError, ValueError):
            return None

    def opt(r):
        return 'None' if r is None else f'(Some {_pairs(r)})'
    terms = []
    xs = [[], [0], [1], [1, 1], [0, 1], [1, 0], [0, 1, 1, 0], [1, 0, 1], [1, 1, 0, 0, 1, 1], [0, 0, 0]]
    xs += [[int(rng.random() < p) for _ in range(rng.randint(1, 14))] for p in (0.3, 0.5, 0.8) for _ in range(6)]
    for x in xs:
        a = np.array(x, dtype=bool)
        terms.append(f'eqb_listZ (gen_ts {_blist(x)}) {_zlist(util.ts(a))}')
        terms.append(f'eqb_listZ (np_flatnonzero (gen_edge_rising {_blist(x)})) {_zlist(np.flatnonzero(util.edge_rising(a)))}'
                     f' && (length (gen_edge_rising {_blist(x)}) =? {len(util.edge_rising(a))})%nat')
        terms.append(f'eqb_listZ (np_flatnonzero (gen_edge_falling {_blist(x)})) {_zlist(np.flatnonzero(util.edge_falling(a)))}')
        terms.append(f'eqb_option eqb_runs (gen_epochs {_blist(x)}) {opt(real(util.epochs, a))}')
    ls = [[], [(0, 1)], [(2, 5), (0, 3)], [(0, 2), (2, 4)], [(0, 2), (3, 4)], [(5, 9), (0, 1), (1, 2), (8, 12)], [(0, 9), (1, 2), (3, 4)]]
    for _ in range(20):
        l = []
        for _ in range(rng.randint(1, 7)):
            s = rng.randint(-6, 20)
            l.append((s, s + rng.randint(0, 6)))
        ls.append(l)
    for l in ls:
        a = np.array(l, dtype=np.int64).reshape((-1, 2))
        terms.append(f'eqb_option eqb_runs (gen_smooth_epochs {len(l) + 1}%nat {_pairs(l)}) {opt(real(util.smooth_epochs, a.copy()))}')
        for d in (0, 1, 2, 4):
            terms.append(f'eqb_option eqb_runs (gen_debounce_epochs {len(l) + 1}%nat {_pairs(l)} {d}) '
                         f'{opt(real(util.debounce_epochs, a.copy(), d))}')
    return terms
