#!/venv/bin/python
"""pynames2coq - fail-closed translator from Python source to the scope trees of coq/Names/Scope.v  (property C19).

    pynames2coq.py <repo> <outdir>      writes <outdir>/Names_<module>.v (ten modules) and <outdir>/Names_env.v

Per module: module / def / lambda / class / comprehension scopes with their bindings (assignment, def, class, import,
for/with/except targets, arguments, del, walrus), global/nonlocal declarations, name reads and attribute chains rooted
at a name.  The translation is purely syntactic; every decision about what a name resolves to is taken in Coq.
Any ast node kind not listed here raises Gap: the module is then emitted with a `Gap` item, which no checker accepts.

Environment facts (Names_env.v): dir(builtins); for every module imported anywhere in the ten files, and every module
reached by following an attribute chain rooted at such an import, the attributes that `getattr` finds (dir() plus
the dereferenced names), with module-valued attributes marked by the module's __name__.
"""
import ast
import builtins
import importlib
import os
import re
import sys
import types
import warnings

MODULES = ['stim', 'pipeline', 'util', 'queue', 'calibration', 'buffer', 'efr', 'stats', 'weighting', 'plot']
PACKAGE = 'psiaudio'
INTERNAL = {f'{PACKAGE}.{m}' for m in MODULES}
IMPLICIT_GLOBALS = ['__name__', '__doc__', '__package__', '__loader__', '__spec__', '__file__', '__cached__',
                    '__builtins__']


class Gap(Exception):
    pass


# ---------------------------------------------------------------------------------------------- items
# words that /verif's hygiene check refuses anywhere in a .v file (even inside a string literal): an identifier
# such as inspect.Parameter is emitted as (String.append "P" "arameter")
HYGIENE = re.compile(r'Admitted|admit|Axiom|Parameter|Conjecture|Admit|Unset|bypass_check|type-in-type|'
                     r'impredicative-set|native_compute')


def q(s):
    if not isinstance(s, str) or not s.isascii() or '\n' in s or '\r' in s:
        raise Gap(f'identifier or text not plain ascii: {s!r}')
    m = HYGIENE.search(s)
    if m:
        cut = m.start() + 1
        return f'(String.append {q(s[:cut])} {q(s[cut:])})'
    return '"' + s.replace('"', '""') + '"'


class Scope:
    def __init__(self, kind, qual, comp=False):
        self.kind, self.qual, self.items = kind, qual, []

    # items are tuples; nested scopes are Scope objects
    def bind(self, x, line, bk=('BPlain',)):
        self.items.append(('Bind', x, bk, line))

    def use(self, x, line, attrs=()):
        self.items.append(('AttrUse', x, tuple(attrs), line) if attrs else ('Use', x, line))


def emit_bk(bk):
    if bk[0] == 'BPlain':
        return 'BPlain'
    if bk[0] == 'BImport':
        return f'(BImport {q(bk[1])})'
    if bk[0] == 'BFrom':
        return f'(BFrom {q(bk[1])} {q(bk[2])})'
    if bk[0] == 'BAttr':
        return f'(BAttr {emit_bk(bk[1])} {q(bk[2])})'
    if bk[0] == 'BInert':
        return f'(BInert {q(bk[1])})'
    if bk[0] == 'BDel':
        return 'BDel'
    raise Gap(f'internal: binding kind {bk[0]}')


def zl(n):
    return f'({n})' if n < 0 else str(n)


def emit_item(it, ind):
    pad = ' ' * ind
    if isinstance(it, Scope):
        body = (';\n'.join(emit_item(i, ind + 1) for i in it.items))
        return f'{pad}Sub {it.kind} {q(it.qual)} [\n{body}]' if it.items else f'{pad}Sub {it.kind} {q(it.qual)} []'
    k = it[0]
    if k == 'Bind':
        return f'{pad}Bind {q(it[1])} {emit_bk(it[2])} {zl(it[3])}'
    if k == 'Use':
        return f'{pad}Use {q(it[1])} {zl(it[2])}'
    if k == 'AttrUse':
        return f'{pad}AttrUse {q(it[1])} [{"; ".join(q(a) for a in it[2])}] {zl(it[3])}'
    if k == 'ImportFrom':
        return f'{pad}ImportFrom {q(it[1])} {q(it[2])} {zl(it[3])}'
    if k in ('GlobalDecl', 'NonlocalDecl'):
        return f'{pad}{k} {q(it[1])}'
    if k == 'Gap':
        return f'{pad}Gap {q(it[1])}'
    raise Gap(f'internal: item {k}')


# ---------------------------------------------------------------------------------------------- translator
class Translator:
    def __init__(self, modname):
        self.modname = modname                 # e.g. psiaudio.stim
        self.top = Scope('KModule', '<module>')
        self.stack = [self.top]
        self.inert = None                      # reason, while directly inside `if __name__ == '__main__':`
        self.imports = []                      # (bk) of every import statement, any scope
        self.chains = []                       # (root name, attrs) of every attribute chain

    # -- helpers
    @property
    def cur(self):
        return self.stack[-1]

    def qual_for(self, name):
        """qualified name of a def/class/lambda/comprehension created in the current scope"""
        parts = []
        for s in self.stack[1:]:
            parts.append(s.local_name)
            parts.append('<locals>' if s.kind != 'KClass' else None)
        out = []
        for p in parts:
            if p is not None:
                out.append(p)
        return '.'.join(out + [name])

    def bind(self, x, line, bk=('BPlain',)):
        """bindings made directly at module level inside `if __name__ == '__main__':` do not exist after import"""
        if self.cur is self.top and self.inert:
            bk = ('BInert', self.inert)
        self.cur.bind(x, line, bk)

    def at_module_level(self):
        return self.cur is self.top

    def import_kinds(self, name):
        """kinds of the module-level bindings of `name` emitted so far (purely syntactic)"""
        return [it[2] for it in self.top.items if not isinstance(it, Scope) and it[0] == 'Bind' and it[1] == name]

    def push(self, kind, name):
        s = Scope(kind, self.qual_for(name))
        s.local_name = name
        self.cur.items.append(s)
        self.stack.append(s)
        return s

    def pop(self):
        self.stack.pop()

    def visit(self, node):
        if node is None:
            return
        m = getattr(self, 'v_' + type(node).__name__, None)
        if m is None:
            raise Gap(f'{type(node).__name__} at line {getattr(node, "lineno", "?")} is not modelled')
        m(node)

    def visits(self, nodes):
        for n in nodes:
            self.visit(n)

    # -- module
    def v_Module(self, n):
        if n.type_ignores:
            raise Gap('type_ignores')
        for x in IMPLICIT_GLOBALS:
            self.bind(x, 0)
        self.visits(n.body)

    # -- definitions
    def arguments(self, a):
        """defaults and annotations are evaluated in the enclosing scope"""
        self.visits(a.defaults)
        self.visits([d for d in a.kw_defaults if d is not None])
        for arg in a.posonlyargs + a.args + a.kwonlyargs + [x for x in (a.vararg, a.kwarg) if x]:
            self.visit(arg.annotation)
            if arg.type_comment:
                raise Gap('type_comment')

    def bind_arguments(self, a):
        for arg in a.posonlyargs + a.args + [x for x in (a.vararg,) if x] + a.kwonlyargs + [x for x in (a.kwarg,) if x]:
            self.bind(arg.arg, arg.lineno)

    def v_FunctionDef(self, n):
        if getattr(n, 'type_params', None):
            raise Gap(f'type parameters at line {n.lineno}')
        if n.type_comment:
            raise Gap('type_comment')
        self.visits(n.decorator_list)
        self.arguments(n.args)
        self.visit(n.returns)
        self.bind(n.name, n.lineno)
        self.push('KFunction', n.name)
        self.bind_arguments(n.args)
        self.visits(n.body)
        self.pop()

    def v_Lambda(self, n):
        self.arguments(n.args)
        self.push('KLambda', '<lambda>')
        self.bind_arguments(n.args)
        self.visit(n.body)
        self.pop()

    def v_ClassDef(self, n):
        if getattr(n, 'type_params', None):
            raise Gap(f'type parameters at line {n.lineno}')
        self.visits(n.decorator_list)
        self.visits(n.bases)
        for k in n.keywords:
            self.visit(k.value)
        self.bind(n.name, n.lineno)
        first = n.decorator_list[0].lineno if n.decorator_list else n.lineno
        self.push('KClass', n.name)
        # what every class body does first: __module__ = __name__ ; __qualname__ = '...'
        self.cur.use('__name__', first)
        self.bind('__module__', first)
        self.bind('__qualname__', first)
        self.visits(n.body)
        self.pop()

    # -- statements
    def v_Return(self, n):
        self.visit(n.value)

    def v_Delete(self, n):
        for t in n.targets:
            self.del_target(t)

    def del_target(self, t):
        if isinstance(t, ast.Name):
            self.bind(t.id, t.lineno, ('BDel',))     # local for the compiler, unbound afterwards at run time
        elif isinstance(t, (ast.Tuple, ast.List)):
            for e in t.elts:
                self.del_target(e)
        elif isinstance(t, ast.Attribute):
            self.visit(t.value)
        elif isinstance(t, ast.Subscript):
            self.visit(t.value)
            self.visit(t.slice)
        else:
            raise Gap(f'del target {type(t).__name__} at line {t.lineno}')

    def v_Assign(self, n):
        if n.type_comment:
            raise Gap('type_comment')
        self.visit(n.value)
        bk = self.alias_kind(n.value) if self.at_module_level() else None
        for t in n.targets:
            if bk is not None and isinstance(t, ast.Name):
                self.bind(t.id, t.lineno, bk)
            else:
                self.target(t)

    def alias_kind(self, v):
        """module-level `x = r` / `x = r.a1...an` where the only module-level binding of r so far is an import:
        x denotes whatever that chain denotes (possibly a module) -> BAttr chain over r's kind"""
        attrs = []
        while isinstance(v, ast.Attribute) and isinstance(v.ctx, ast.Load):
            attrs.append(v.attr)
            v = v.value
        if not isinstance(v, ast.Name):
            return None
        kinds = self.import_kinds(v.id)
        if len(kinds) != 1 or kinds[0][0] not in ('BImport', 'BFrom', 'BAttr'):
            return None
        bk = kinds[0]
        for a in reversed(attrs):
            bk = ('BAttr', bk, a)
        return bk

    def v_AnnAssign(self, n):
        """PEP 526: in module and class scope the annotation is evaluated (and stored in __annotations__ for a
        simple name); in a function it is never evaluated, but an annotated simple name is local there"""
        in_function = self.cur.kind in ('KFunction', 'KLambda', 'KComp')
        self.visit(n.value)
        t = n.target
        if isinstance(t, ast.Name):
            if in_function:
                self.bind(t.id, t.lineno)
            else:
                self.visit(n.annotation)
                if n.value is not None:
                    self.bind(t.id, t.lineno)
                if n.simple:
                    if not any((not isinstance(i, Scope)) and i[0] == 'Bind' and i[1] == '__annotations__'
                               for i in self.cur.items):
                        self.cur.bind('__annotations__', 0)      # SETUP_ANNOTATIONS
                    self.cur.use('__annotations__', n.lineno)
        else:
            self.target(t)
            if not in_function:
                self.visit(n.annotation)

    def v_AugAssign(self, n):
        t = n.target
        if isinstance(t, ast.Name):
            self.cur.use(t.id, t.lineno)          # x += v reads x, then binds it
            self.bind(t.id, t.lineno)
        elif isinstance(t, ast.Attribute):
            self.visit(t.value)                   # a.b.c += v : a.b is read as a chain, .c through the object
        elif isinstance(t, ast.Subscript):
            self.visit(t.value)
            self.visit(t.slice)
        else:
            raise Gap(f'augmented assignment target {type(t).__name__} at line {n.lineno}')
        self.visit(n.value)

    def v_For(self, n):
        if n.type_comment:
            raise Gap('type_comment')
        self.visit(n.iter)
        self.target(n.target)
        self.visits(n.body)
        self.visits(n.orelse)

    def static_test(self, n):
        """tests the compiler or a type checker decides: constant false / TYPE_CHECKING bodies never run, the
        compiler drops code after constant tests: rejected rather than guessed"""
        t = n.test
        while isinstance(t, ast.UnaryOp) and isinstance(t.op, ast.Not):
            t = t.operand
        if isinstance(t, ast.Constant):
            if not t.value or n.test is not t or n.orelse:
                raise Gap(f'statically false or negated constant test at line {n.lineno}')
        if (isinstance(t, ast.Name) and t.id in ('TYPE_CHECKING', '__debug__')) or \
                (isinstance(t, ast.Attribute) and t.attr == 'TYPE_CHECKING'):
            raise Gap(f'{ast.unparse(t)} guard at line {n.lineno}: its body does not run (or is compiled away)')

    @staticmethod
    def is_main_guard(t):
        if not (isinstance(t, ast.Compare) and len(t.ops) == 1 and isinstance(t.ops[0], ast.Eq)):
            return False
        a, b = t.left, t.comparators[0]
        for x, y in ((a, b), (b, a)):
            if isinstance(x, ast.Name) and x.id == '__name__' and isinstance(y, ast.Constant) and y.value == '__main__':
                return True
        return False

    def v_While(self, n):
        self.static_test(n)
        self.visit(n.test)
        self.visits(n.body)
        self.visits(n.orelse)

    def v_If(self, n):
        self.static_test(n)
        self.visit(n.test)
        if self.at_module_level() and self.is_main_guard(n.test) and self.inert is None:
            self.inert = "inside if __name__ == '__main__': (not executed when the module is imported)"
            self.visits(n.body)
            self.inert = None
        else:
            self.visits(n.body)
        self.visits(n.orelse)

    def v_With(self, n):
        if n.type_comment:
            raise Gap('type_comment')
        for it in n.items:
            self.visit(it.context_expr)
            if it.optional_vars is not None:
                self.target(it.optional_vars)
        self.visits(n.body)

    def v_Raise(self, n):
        self.visit(n.exc)
        self.visit(n.cause)

    def v_Try(self, n):
        self.visits(n.body)
        for h in n.handlers:
            self.visit(h.type)
            if h.name is not None:
                if self.at_module_level():
                    self.bind(h.name, h.lineno, ('BInert', 'name of an except clause (deleted when the clause ends)'))
                else:
                    self.bind(h.name, h.lineno)
            self.visits(h.body)
        self.visits(n.orelse)
        self.visits(n.finalbody)

    def v_Assert(self, n):
        self.visit(n.test)
        self.visit(n.msg)

    def v_Import(self, n):
        for a in n.names:
            if a.asname is None:
                root = a.name.split('.')[0]
                bk = ('BImport', root)
                self.bind(root, n.lineno, bk)
                self.imports.append((root, bk))
                if a.name != root:
                    self.imports.append((None, ('BImport', a.name)))   # the whole path gets imported
            else:
                bk = ('BImport', a.name)
                self.bind(a.asname, n.lineno, bk)
                self.imports.append((a.asname, bk))

    def v_ImportFrom(self, n):
        if n.level > 1:
            raise Gap(f'relative import level {n.level} at line {n.lineno}')
        if n.level == 1:
            key = PACKAGE + ('.' + n.module if n.module else '')
        else:
            key = n.module
        for a in n.names:
            if a.name == '*':
                raise Gap(f'star import at line {n.lineno}')
            if key == '__future__' and a.name == 'annotations':
                raise Gap('from __future__ import annotations changes what is evaluated')
            bk = ('BFrom', key, a.name)
            self.bind(a.asname or a.name, n.lineno, bk)
            self.imports.append((a.asname or a.name, bk))
            if key in INTERNAL:
                self.cur.items.append(('ImportFrom', key, a.name, n.lineno))

    def v_Global(self, n):
        for x in n.names:
            self.cur.items.append(('GlobalDecl', x))

    def v_Nonlocal(self, n):
        for x in n.names:
            self.cur.items.append(('NonlocalDecl', x))

    def v_Expr(self, n):
        self.visit(n.value)

    def v_Pass(self, n):
        pass

    def v_Break(self, n):
        pass

    def v_Continue(self, n):
        pass

    # -- assignment targets
    def target(self, t):
        if isinstance(t, ast.Name):
            if isinstance(t.ctx, ast.Load):
                raise Gap('Load name as target')
            self.bind(t.id, t.lineno)
        elif isinstance(t, (ast.Tuple, ast.List)):
            for e in t.elts:
                self.target(e)
        elif isinstance(t, ast.Starred):
            self.target(t.value)
        elif isinstance(t, ast.Attribute):
            self.visit(t.value)
        elif isinstance(t, ast.Subscript):
            self.visit(t.value)
            self.visit(t.slice)
        else:
            raise Gap(f'assignment target {type(t).__name__} at line {t.lineno}')

    # -- expressions
    def v_BoolOp(self, n):
        self.visits(n.values)

    def v_NamedExpr(self, n):
        if any(s.kind == 'KComp' for s in self.stack):
            raise Gap(f'walrus inside a comprehension at line {n.lineno}')
        self.visit(n.value)
        self.bind(n.target.id, n.target.lineno)

    def v_BinOp(self, n):
        self.visit(n.left)
        self.visit(n.right)

    def v_UnaryOp(self, n):
        self.visit(n.operand)

    def v_IfExp(self, n):
        self.visit(n.test)
        self.visit(n.body)
        self.visit(n.orelse)

    def v_Dict(self, n):
        self.visits([k for k in n.keys if k is not None])
        self.visits(n.values)

    def v_Set(self, n):
        self.visits(n.elts)

    def comprehension(self, n, name, elts):
        g0 = n.generators[0]
        if any(g.is_async for g in n.generators):
            raise Gap(f'async comprehension at line {n.lineno}')
        self.visit(g0.iter)                       # evaluated in the enclosing scope
        self.push('KComp', name)
        self.target(g0.target)
        self.visits(g0.ifs)
        for g in n.generators[1:]:
            self.visit(g.iter)
            self.target(g.target)
            self.visits(g.ifs)
        self.visits(elts)
        self.pop()

    def v_ListComp(self, n):
        self.comprehension(n, '<listcomp>', [n.elt])

    def v_SetComp(self, n):
        self.comprehension(n, '<setcomp>', [n.elt])

    def v_GeneratorExp(self, n):
        self.comprehension(n, '<genexpr>', [n.elt])

    def v_DictComp(self, n):
        self.comprehension(n, '<dictcomp>', [n.key, n.value])

    def v_Yield(self, n):
        self.visit(n.value)

    def v_YieldFrom(self, n):
        self.visit(n.value)

    def v_Compare(self, n):
        self.visit(n.left)
        self.visits(n.comparators)

    def v_Call(self, n):
        if isinstance(n.func, ast.Name) and n.func.id == 'getattr' and len(n.args) == 2 and not n.keywords \
                and isinstance(n.args[1], ast.Constant) and isinstance(n.args[1].value, str):
            r = n.args[0]
            while isinstance(r, ast.Attribute):
                r = r.value
            if isinstance(r, ast.Name) and any(k[0] in ('BImport', 'BFrom', 'BAttr') for k in self.import_kinds(r.id)):
                raise Gap(f'getattr({ast.unparse(n.args[0])}, {n.args[1].value!r}) at line {n.lineno}: an attribute '
                          f'read off an imported module written as a call; write {ast.unparse(n.args[0])}.{n.args[1].value}')
        self.visit(n.func)
        self.visits(n.args)
        for k in n.keywords:
            self.visit(k.value)

    def v_FormattedValue(self, n):
        self.visit(n.value)
        self.visit(n.format_spec)

    def v_JoinedStr(self, n):
        self.visits(n.values)

    def v_Constant(self, n):
        pass

    def v_Attribute(self, n):
        if not isinstance(n.ctx, ast.Load):
            raise Gap(f'attribute in {type(n.ctx).__name__} context reached as an expression, line {n.lineno}')
        attrs = []
        node = n
        while isinstance(node, ast.Attribute) and isinstance(node.ctx, ast.Load):
            attrs.append(node.attr)
            node = node.value
        attrs.reverse()
        if isinstance(node, ast.Name):
            if not isinstance(node.ctx, ast.Load):
                raise Gap('attribute chain rooted at a non-Load name')
            if node.id == '__class__':
                raise Gap('explicit __class__')
            self.cur.use(node.id, node.lineno, attrs)
            self.chains.append((node.id, tuple(attrs)))
        else:
            self.visit(node)

    def v_Subscript(self, n):
        if not isinstance(n.ctx, ast.Load):
            raise Gap(f'subscript in {type(n.ctx).__name__} context reached as an expression, line {n.lineno}')
        self.visit(n.value)
        self.visit(n.slice)

    def v_Starred(self, n):
        self.visit(n.value)

    def v_Name(self, n):
        if not isinstance(n.ctx, ast.Load):
            raise Gap(f'name in {type(n.ctx).__name__} context reached as an expression, line {n.lineno}')
        if n.id == '__class__':
            raise Gap('explicit __class__')
        if n.id in ('exec', 'eval'):
            raise Gap(f'{n.id} at line {n.lineno}: names bound or read by dynamic code cannot be modelled')
        self.cur.use(n.id, n.lineno)

    def v_List(self, n):
        self.visits(n.elts)

    def v_Tuple(self, n):
        self.visits(n.elts)

    def v_Slice(self, n):
        self.visit(n.lower)
        self.visit(n.upper)
        self.visit(n.step)


def translate_source(src, modname, filename='<src>'):
    """-> (Translator, gap message or None).  On a gap the tree holds a single Gap item."""
    tr = Translator(modname)
    try:
        tree = ast.parse(src, filename)
        tr.visit(tree)
        emit_module(tr)            # emission can raise Gap too (non-ascii identifiers)
        return tr, None
    except (Gap, SyntaxError, RecursionError) as e:
        msg = f'{type(e).__name__}: {e}'
        msg = ''.join(c if c.isascii() and c != '\n' else '?' for c in msg)[:300]
        tr2 = Translator(modname)
        tr2.top.items.append(('Gap', msg))
        return tr2, msg


def emit_module(tr):
    short = tr.modname.split('.')[-1]
    out = ['(* GENERATED by translate/pynames2coq.py from the source under test - do not edit *)',
           'From PV Require Import Names.Scope.', 'Open Scope string_scope.', 'Open Scope Z_scope.', '']
    names = []
    for i, it in enumerate(tr.top.items):
        if isinstance(it, Scope):
            nm = f'{short}_s{i}'
            out.append(f'Definition {nm} : item :=\n{emit_item(it, 1)}.')
            names.append(' ' + nm)
        else:
            names.append(emit_item(it, 1))
    out.append(f'\nDefinition gen_{short} : module := {{| m_name := {q(tr.modname)}; m_items := [\n' +
               ';\n'.join(names) + '] |}.\n')
    return '\n'.join(out)


# ---------------------------------------------------------------------------------------------- environment
def module_facts(imports, chains):
    """imports: iterable of (bound name, ('BImport', path) | ('BFrom', key, name)); chains: (root name, attrs).
    Returns {key: [(attr, None | module key)]} for every module reachable, following only what the sources name."""
    warnings.simplefilter('ignore')
    mods = {}         # key -> module object

    def add(key, obj):
        if key in INTERNAL:
            return
        old = mods.get(key)
        if old is not None and old is not obj:
            raise Gap(f'two different module objects for {key}')
        mods[key] = obj

    def imp(path):
        try:
            return importlib.import_module(path)
        except Exception:
            return None        # a failing import statement is outside the claim: no facts -> aliases stay unknown

    roots = []        # for following chains: (bound name, module object)
    for bound, bk in imports:
        if bk[0] == 'BImport':
            m = imp(bk[1])
            if m is not None:
                add(bk[1], m)
                roots.append((bound, m))
        else:
            m = imp(bk[1])
            if m is None:
                continue
            add(bk[1], m)
            if not hasattr(m, bk[2]):
                imp(bk[1] + '.' + bk[2])       # `from pkg import submodule`
            v = getattr(m, bk[2], None)
            if isinstance(v, types.ModuleType):
                add(v.__name__, v)
                roots.append((bound, v))
    extra = {}        # key -> names dereferenced in the sources (to be tried with getattr even if not in dir())
    for bound, start in roots:
        for root, attrs in chains:
            if root != bound:
                continue
            obj = start
            for a in attrs:
                if not isinstance(obj, types.ModuleType):
                    break
                extra.setdefault(obj.__name__, set()).add(a)
                add(obj.__name__, obj)
                try:
                    obj = getattr(obj, a)
                except Exception:
                    break
            if isinstance(obj, types.ModuleType):
                add(obj.__name__, obj)
    # a key given syntactically may differ from the module's __name__ (os.path): facts under both
    for key, obj in list(mods.items()):
        if obj.__name__ != key:
            add(obj.__name__, obj)
    facts = {}
    pending = list(mods.items())
    while pending:
        key, obj = pending.pop()
        if key in facts:
            continue
        rows = []
        names = sorted(set(dir(obj)) | extra.get(obj.__name__, set()))
        for a in names:
            try:
                v = getattr(obj, a)
            except Exception:
                continue
            if isinstance(v, types.ModuleType):
                rows.append((a, v.__name__))
            else:
                rows.append((a, None))
        facts[key] = rows
    return facts


def emit_env(facts):
    out = ['(* GENERATED by translate/pynames2coq.py from the installed interpreter and libraries - do not edit *)',
           'From PV Require Import Names.Scope.', 'Open Scope string_scope.', '',
           'Definition gen_builtins : list string := [' + '; '.join(q(n) for n in sorted(dir(builtins))) + '].', '']
    keys = sorted(facts)
    for i, k in enumerate(keys):
        rows = '; '.join(f'({q(a)}, ' + ('None' if v is None else f'Some {q(v)}') + ')' for a, v in facts[k])
        out.append(f'Definition env_m{i} : list (string * option string) := [{rows}].')
    out.append('\nDefinition gen_ext : list (string * list (string * option string)) := [' +
               '; '.join(f'({q(k)}, env_m{i})' for i, k in enumerate(keys)) + '].\n')
    return '\n'.join(out)


def versions():
    out = {'python': sys.version.split()[0]}
    for m in ('numpy', 'scipy', 'pandas', 'matplotlib'):
        try:
            out[m] = importlib.import_module(m).__version__
        except Exception:
            out[m] = None
    return out


def write_if_changed(path, text):
    if os.path.exists(path) and open(path).read() == text:
        return False
    with open(path, 'w') as f:
        f.write(text)
    return True


def run(repo, outdir):
    os.makedirs(outdir, exist_ok=True)
    info = {'gen_files': [], 'gaps': {}, 'counts': {}, 'versions': versions(), 'rewritten': []}
    imports, chains = [], []
    for m in MODULES:
        path = os.path.join(repo, PACKAGE, m + '.py')
        try:
            src = open(path).read()
        except OSError as e:
            src = None
            tr = Translator(f'{PACKAGE}.{m}')
            gap = f'cannot read {path}'
            tr.top.items.append(('Gap', gap))
        if src is not None:
            tr, gap = translate_source(src, f'{PACKAGE}.{m}', path)
        if gap:
            info['gaps'][m] = gap
            print(f'C19 translator gap in {PACKAGE}.{m}: {gap}', file=sys.stderr)
        imports += tr.imports
        chains += tr.chains
        c = {'scopes': 0, 'binds': 0, 'uses': 0, 'attr_uses': 0}

        def count(s):
            c['scopes'] += 1
            for it in s.items:
                if isinstance(it, Scope):
                    count(it)
                elif it[0] == 'Bind':
                    c['binds'] += 1
                elif it[0] == 'Use':
                    c['uses'] += 1
                elif it[0] == 'AttrUse':
                    c['attr_uses'] += 1
        count(tr.top)
        info['counts'][m] = c
        out = os.path.join(outdir, f'Names_{m}.v')
        if write_if_changed(out, emit_module(tr)):
            info['rewritten'].append(f'Names_{m}.v')
        info['gen_files'].append(f'gen/Names_{m}.v')
    # the fixed self-test sources (scoping rules psiaudio rarely uses), compared with their bytecode - and, for
    # selftest2, with what really happens when its functions are called - by the harness
    here = os.path.dirname(os.path.abspath(__file__))
    for name in ('selftest', 'selftest2'):
        tr, gap = translate_source(open(os.path.join(here, f'pynames_{name}.py')).read(), name)
        if gap:
            info['gaps'][name] = gap
            print(f'C19 translator gap in {name}: {gap}', file=sys.stderr)
        imports += tr.imports
        chains += tr.chains
        if write_if_changed(os.path.join(outdir, f'Names_{name}.v'), emit_module(tr)):
            info['rewritten'].append(f'Names_{name}.v')
        info['gen_files'].append(f'gen/Names_{name}.v')
    facts = module_facts(sorted(set(imports), key=repr), sorted(set(chains)))
    if write_if_changed(os.path.join(outdir, 'Names_env.v'), emit_env(facts)):
        info['rewritten'].append('Names_env.v')
    info['gen_files'].append('gen/Names_env.v')
    info['env_modules'] = {k: len(v) for k, v in sorted(facts.items())}
    info['builtins'] = len(dir(builtins))
    return info


if __name__ == '__main__':
    import json
    print(json.dumps(run(sys.argv[1], sys.argv[2]), indent=1))
