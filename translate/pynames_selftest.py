# Fixed source for the translator/specification self-test of property C19.  NEVER imported or executed: it is
# translated to coq/gen/Names_selftest.v and compiled to bytecode, and the two views are compared unit by unit
# (harness/C19.py).  It exercises the scoping rules psiaudio itself rarely uses: global, nonlocal, class scopes
# skipped by nested functions, comprehensions in class bodies, defaults/decorators evaluated outside, walrus, del.
import os.path as osp
import collections.abc
from math import pi as PI

g1 = 1


def f_global():
    global g2
    g2 = 1
    return g1 + g2


def f_nested():
    x = 1

    def inner():
        return x + g1

    class C:
        y = x
        z = y

        def m(self):
            return y, z, x

        w = [y for _ in range(3)]
        v = [k for k in z if k in y]
        u = {a: b for a in z for b in y}

    return inner, C


def f_global_hides():
    h = 1

    def mid():
        global h

        def leaf():
            return h
        return leaf
    return mid


def f_nonlocal():
    n = 0

    def bump():
        nonlocal n
        n += 1
        return n
    return bump


def f_default(a=g1, *args, b=len, **kw):
    return [a for a in args if a], {k: v for k, v in kw.items()}, (q for q in args), {s for s in a}


def f_misc():
    try:
        import tqdm_not_there
        from os import path as p2, sep
    except (ImportError, osp.error) as e:
        print(e, tqdm_not_there, p2.join, sep)
    finally:
        g1.real
    with open(osp.join('a')) as fh, open('b'):
        fh.read()
    for i, (j, *k) in enumerate([]):
        continue
    else:
        pass
    while g1:
        break
    lam = lambda u, v=g1: u + v + g1 + i
    del lam
    if (w := g1) > 2:
        assert w, PI
    osp.sep.x, collections.abc.Sized.y = 1, 2
    osp.altsep.z += 1
    t[g1] = t2[g1:PI] = 0
    return f'{g1!r:>{PI}}', not -g1, g1 if w else PI, (yield g1), [*k], {**fh}, g1 < PI <= w, g1 @ PI


x_aug = 0
x_aug += 1
osp.sep.q += g1


class Top(collections.abc.Sized, metaclass=type):
    attr = g1

    def meth(self):
        return attr, super().meth, Top

    @property
    def prop(self):
        return self.attr

    @prop.setter
    def prop(self, value):
        self.attr = value


@staticmethod
def deco(arg: int = g1) -> PI:
    raise ValueError from deco


# ---- added by the coverage audit ---------------------------------------------------------------------------
import functools
import json as js
from dataclasses import dataclass, field
import typing

try:
    import not_installed_optional_pkg as opt
    from not_installed_optional_pkg.sub import thing
except (ImportError, ModuleNotFoundError) as exc:
    print(exc)
    opt_missing = exc.args
else:
    opt_ok = opt
finally:
    done_trying = g1

try:
    import json.decoder
except ImportError:
    js = None

if g1:
    cond_a = 1
elif PI:
    cond_b = 2
else:
    cond_c = cond_a

for loop_var in range(g1):
    in_loop = loop_var
else:
    after_loop = in_loop

while g1 and not PI:
    in_while = g1
else:
    after_while = 1

with open(osp.join('x')) as module_fh:
    content = module_fh.read()

tmp_name = g1
del tmp_name, content
sig = js
dumps_alias = js.dumps
deep_alias = osp.sep.upper
__all__ = ['g1', 'f_global', 'no_such_export']
ann_plain: int
ann_value: typing.List[int] = [g1]
(ann_paren): int = 3
osp.sep.ann_attr: PI = 4
t[g1]: PI

if __name__ == '__main__':
    import doctest
    main_only = doctest.testmod()
    print(main_only, g1)


@dataclass(frozen=True)
class Data:
    x: int = 0
    y: typing.Optional[float] = field(default=g1)
    z: 'Undefined' = None
    plain = x

    @classmethod
    def make(cls, v: int = g1) -> 'Data':
        w: float = v
        q: int
        self.attr: PI = w
        return cls(w), x, Data.x, main_only, doctest, opt, thing, tmp_name, exc, loop_var, cond_c

    @staticmethod
    @functools.lru_cache(maxsize=g1)
    def cached(a=[m for m in range(g1) if m in opt_missing], *, k=lambda s=g1: s + PI + undefined_in_lambda):
        return [n for n in a if n is not undefined_in_condition], {u: v for u in a for v in u if v < undef2}, \
            (lambda: a + undefined_in_lambda_body)(), getattr(a, 'real', None), getattr(js, k), \
            f'{undefined_in_fstring!r:{undefined_in_spec}}', sig.loads, dumps_alias, deep_alias

    @property
    def prop(self):
        def helper(d=undefined_default, *, e: undefined_annotation = None) -> undefined_return:
            nonlocal self
            global made_global
            made_global = self
            return d, e
        if (walrus := undefined_in_walrus) and walrus:
            return helper
        try:
            pass
        except undefined_exception_class as err:
            raise RuntimeError(err) from undefined_cause
        except (KeyError, undefined_in_tuple):
            raise
        assert undefined_in_assert, undefined_assert_message
        with undefined_context() as c, c.attr as d:
            return c[undefined_index:d]
        for self.i in undefined_iterable:
            yield from undefined_generator
        return made_global
