# Fixed source for the translator/specification self-test of property C19.  NEVER imported or executed: it is
# translated to coq/gen/Names_selftest.v and compiled to bytecode, and the two views are compared unit by unit
# (harness/C19.py).  It exercises the scoping rules psiaudio itself rarely uses: global, nonlocal, class scopes
# skipped by nested functions, comprehensions in class bodies, defaults/decorators evaluated outside, walrus, del.
import os.path as osp
import collections.abc
from math import pi as PI

g1 = 1


def f_global():
    global g2
    g2 = 1
    return g1 + g2


def f_nested():
    x = 1

    def inner():
        return x + g1

    class C:
        y = x
        z = y

        def m(self):
            return y, z, x

        w = [y for _ in range(3)]
        v = [k for k in z if k in y]
        u = {a: b for a in z for b in y}

    return inner, C


def f_global_hides():
    h = 1

    def mid():
        global h

        def leaf():
            return h
        return leaf
    return mid


def f_nonlocal():
    n = 0

    def bump():
        nonlocal n
        n += 1
        return n
    return bump


def f_default(a=g1, *args, b=len, **kw):
    return [a for a in args if a], {k: v for k, v in kw.items()}, (q for q in args), {s for s in a}


def f_misc():
    try:
        import tqdm_not_there
        from os import path as p2, sep
    except (ImportError, osp.error) as e:
        print(e, tqdm_not_there, p2.join, sep)
    finally:
        g1.real
    with open(osp.join('a')) as fh, open('b'):
        fh.read()
    for i, (j, *k) in enumerate([]):
        continue
    else:
        pass
    while g1:
        break
    lam = lambda u, v=g1: u + v + g1 + i
    del lam
    if (w := g1) > 2:
        assert w, PI
    osp.sep.x, collections.abc.Sized.y = 1, 2
    osp.altsep.z += 1
    t[g1] = t2[g1:PI] = 0
    return f'{g1!r:>{PI}}', not -g1, g1 if w else PI, (yield g1), [*k], {**fh}, g1 < PI <= w, g1 @ PI


x_aug = 0
x_aug += 1
osp.sep.q += g1


class Top(collections.abc.Sized, metaclass=type):
    attr = g1

    def meth(self):
        return attr, super().meth, Top

    @property
    def prop(self):
        return self.attr

    @prop.setter
    def prop(self, value):
        self.attr = value


@staticmethod
def deco(arg: int = g1) -> PI:
    raise ValueError from deco
