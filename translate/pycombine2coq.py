"""Fail-closed `ast` translator for psiaudio.pipeline.combine_events (property C13) -> coq/gen/EdgesCombineGen.v.

Same conventions as translate/pyedges2coq.py (whose helpers it uses), with one difference: combine_events raises DIFFERENT
exceptions (IndexError on an empty list, two ValueErrors), so the emitted definition has type `events + exn`
(coq/Edges/TiePrimsCombine.v): inl = returns, inr = raises; a partial operation is bound with rbind.
  x = e -> let        l[i] (constant i) -> py_item (IndexError)        l[1:] -> py_slice        b.start / .end / .fs / .events -> fields
  if c: raise <pinned text> -> if c then inr E else ..        for b in l: S -> fold_res of a generated body (S may raise)
  return e -> inl e        a != b -> negb (a =? b)
The raise statements are matched on their exact `ast.unparse` text (RAISES); the join of the event tables is the pinned pattern
pd.concat(ed.events for ed in <list>); Events(..) and the fields rest on the pinned text of Events.__init__ (pyedges2coq.PINNED_TEXT).
Anything else raises TranslatorGap."""
import ast
import os

from translate.pyedges2coq import TranslatorGap, gap, mangle, match, pattern, strip_doc, _lookup, PINNED_TEXT, RELPATH, SELF_FIELDS, _block, _z

NAME, SIG = 'combine_events', 'events'
COQ_TYPE = {'Z': 'Z', 'bool': 'bool', 'blocks': 'list events', 'events': 'events', 'evl': 'list ev'}
RAISES = {"raise ValueError(f'Times of each Events collection are not aligned (expected {s0}, found {ed.start})')": 'EAlign',
          "raise ValueError('Cannot concatenate Events with different sampling rates')": 'EFs'}
PATTERNS = [('Events(_1, _2, _3, _4)', ('evl', 'Z', 'Z', 'Z'), '(mk_events {0} {1} {2} {3})', 'events'),
            ('pd.concat((ed.events for ed in _1))', ('blocks',), '(df_concat {0})', 'evl')]
CMP = {ast.Eq: '({0} =? {1})', ast.NotEq: '(negb ({0} =? {1}))', ast.Lt: '({0} <? {1})', ast.Gt: '({0} >? {1})',
       ast.LtE: '({0} <=? {1})', ast.GtE: '({0} >=? {1})'}
PRIMITIVES = ['rbind', 'py_item', 'fold_res', 'df_concat', 'mk_events', 'py_slice', 'to_combined']
HEADER = '''From PV Require Import Common.ListX Common.PySlice Edges.Model Edges.TiePrims Edges.TiePrimsCombine.
Open Scope Z_scope.
'''


class Fn:
    def __init__(self):
        self.ntmp, self.nfor, self.defs, self.raised = 0, 0, [], []

    @staticmethod
    def wrap(pend, text):
        for t, r in reversed(pend):
            text = f'rbind ({r}) (fun {t} =>\n{text})'
        return text

    def expr(self, n, env, pend):
        if isinstance(n, ast.Name):
            if n.id not in env:
                gap(n, 'name read before it is assigned / unknown name')
            return mangle(n.id), env[n.id]
        if isinstance(n, ast.Attribute) and isinstance(n.ctx, ast.Load) and n.attr in SELF_FIELDS:
            a, ta = self.expr(n.value, env, pend)
            if ta != 'events':
                gap(n, f'attribute of {ta}')
            return f'({SELF_FIELDS[n.attr][0]} {a})', SELF_FIELDS[n.attr][1]
        if isinstance(n, ast.Subscript) and isinstance(n.ctx, ast.Load):
            a, ta = self.expr(n.value, env, pend)
            s = n.slice
            if ta == 'blocks' and ast.unparse(s) in ('0', '-1'):
                self.ntmp += 1
                pend.append((f"t'{self.ntmp}", f'py_item {a} {"(-1)" if ast.unparse(s) == "-1" else "0"}'))
                return f"t'{self.ntmp}", 'events'
            if ta == 'blocks' and ast.unparse(s) == '1:':
                return f'(py_slice (Some 1) None {a})', 'blocks'
            gap(n, 'index / slice')
        if isinstance(n, ast.Compare) and len(n.ops) == 1 and type(n.ops[0]) in CMP:
            (a, ta), (b, tb) = self.expr(n.left, env, pend), self.expr(n.comparators[0], env, pend)
            if (ta, tb) != ('Z', 'Z'):
                gap(n, f'comparison on {ta}, {tb}')
            return CMP[type(n.ops[0])].format(a, b), 'bool'
        for src, argt, coq, ret in PATTERNS:
            b = {}
            if match(pattern(src), n, b):
                args = [self.expr(b[i], env, pend) for i in range(len(argt))]
                if tuple(t for _, t in args) == argt:
                    return coq.format(*[a for a, _ in args]), ret
        gap(n, 'expression not in the vocabulary')

    def block(self, stmts, env, k):
        if not stmts:
            return k(env)
        s, rest = stmts[0], stmts[1:]
        nxt = lambda env2: self.block(rest, env2, k)
        pend = []
        if isinstance(s, ast.Return) and not rest and s.value is not None and env['#mode'] == 'top':
            e, t = self.expr(s.value, env, pend)
            if t != 'events':
                gap(s, f'returns {t}')
            return self.wrap(pend, f'inl {e}')
        if isinstance(s, ast.Assign) and len(s.targets) == 1 and isinstance(s.targets[0], ast.Name):
            (e, t), x = self.expr(s.value, env, pend), s.targets[0].id
            if env.get(x, t) != t:
                gap(s, f'{x} changes type')
            return self.wrap(pend, f'let {mangle(x)} := {e} in\n' + nxt({**env, x: t}))
        if isinstance(s, ast.If) and not s.orelse and len(s.body) == 1 and ast.unparse(s.body[0]) in RAISES:
            c, tc = self.expr(s.test, env, pend)
            if tc != 'bool':
                gap(s.test, f'condition of type {tc}')
            self.raised.append(ast.unparse(s.body[0]))
            return self.wrap(pend, f'if {c}\n then inr {RAISES[ast.unparse(s.body[0])]}\n else {nxt(env)}')
        if isinstance(s, ast.For) and not s.orelse and isinstance(s.target, ast.Name) and env['#mode'] == 'top':
            it, ti = self.expr(s.iter, env, pend)
            x = s.target.id
            bound = [t.id for st in s.body for n in ast.walk(st) if isinstance(n, (ast.Assign, ast.AugAssign, ast.For, ast.NamedExpr))
                     for t in ast.walk(n) if isinstance(t, ast.Name) and isinstance(t.ctx, ast.Store)]
            state = list(dict.fromkeys(bound))
            if ti != 'blocks' or x in env or len(state) != 1 or state[0] not in env or x in state:
                gap(s, 'for loop: over a list of blocks, with a fresh name and exactly one variable carried round')
            v = state[0]
            reads = sorted({(n.lineno, n.col_offset, n.id) for st in s.body for n in ast.walk(st) if isinstance(n, ast.Name) and
                            isinstance(n.ctx, ast.Load) and n.id in env and n.id != v})
            free = list(dict.fromkeys(r[2] for r in reads))
            self.nfor += 1
            name = f'gen_{NAME}_for{self.nfor}'
            body = self.block(s.body, {**env, x: 'events', '#mode': 'loop'},
                              lambda env2: f'inl {mangle(v)}' if env2[v] == env[v] else gap(s, 'the carried variable changes type'))
            binders = ' '.join(f'({mangle(u)} : {COQ_TYPE[env[u]]})' for u in free + [v])
            self.defs.append(f'(* the body of `for {x} in {ast.unparse(s.iter)}:` (line {s.lineno}); inr = it raises *)\n'
                             f'Definition {name} {binders} ({mangle(x)} : events) : {COQ_TYPE[env[v]]} + exn :=\n{body}.\n')
            call = ' '.join([name] + [mangle(u) for u in free])
            return self.wrap(pend, f'rbind (fold_res ({call}) {it} {mangle(v)}) (fun {mangle(v)} =>\n' + nxt(env) + ')')
        gap(s, 'statement not in the vocabulary')


def translate(repo):
    """-> (text of coq/gen/EdgesCombineGen.v, info).  Raises TranslatorGap on anything outside the tables."""
    path = os.path.join(repo, RELPATH)
    tree = ast.parse(open(path).read())
    for n in tree.body:
        if not isinstance(n, (ast.FunctionDef, ast.ClassDef)):
            for t in ast.walk(n):
                nm = t.id if isinstance(t, ast.Name) and not isinstance(t.ctx, ast.Load) else \
                    (t.asname or t.name).split('.')[0] if isinstance(t, ast.alias) else None
                if nm in (NAME, 'Events'):
                    raise TranslatorGap(f'{nm} is also bound at module level (line {n.lineno})')
    if ast.unparse(strip_doc(_lookup(tree, 'Events.__init__'))) != PINNED_TEXT['Events.__init__']:
        raise TranslatorGap('Events.__init__ is not the pinned text any more')
    node = strip_doc(_lookup(tree, NAME))
    if ast.unparse(node.args) != SIG or node.decorator_list:
        gap(node, f'signature / decorators are not `{SIG}`')
    fn = Fn()
    text = fn.block(node.body, {'events': 'blocks', '#mode': 'top'}, lambda env: gap(node, 'a path falls off the end'))
    if sorted(fn.raised) != sorted(RAISES):
        gap(node, 'the pinned raise statements do not occur exactly once each')
    out = '\n'.join(fn.defs) + f'Definition gen_{NAME} (events_ : list events) : events + exn :=\n{text}.\n'
    return HEADER + f'\n(* pipeline.{NAME}, line {node.lineno} *)\n' + out, \
        {'source': path, 'function': NAME, 'line': node.lineno, 'raises': RAISES, 'coq': f'gen_{NAME}'}


def selftest_terms(P, rng):
    """Coq boolean terms: gen_combine_events on a list of blocks == what the real function did (merged block / which exception)"""
    terms = []
    for trial in range(80):
        nb = rng.choice([0, 1, 1, 2, 3, 4]) if trial else 0
        s, blocks = rng.randint(-10, 30), []
        for j in range(nb):
            n = rng.randint(0, 8)
            rows = [(rng.choice(['rising', 'falling']), rng.randint(s - 2, s + n + 2)) for _ in range(rng.choice([0, 0, 1, 2, 4]))]
            fs = None if trial % 7 == 3 else 1000.0
            blocks.append(P.Events(rows, s, s + n, fs))
            s += n
        kind = rng.choice(['ok', 'ok', 'align', 'fs', 'both', 'firstfs']) if nb > 1 else 'ok'
        if kind in ('align', 'both'):
            j = rng.randint(1, nb - 1)
            blocks[j] = P.Events(list(zip(blocks[j].events['event'], blocks[j].events['sample'])), blocks[j].start + rng.choice([-1, 1]),
                                 blocks[j].end, blocks[j].fs)
        if kind in ('fs', 'both', 'firstfs'):
            j = 0 if kind == 'firstfs' else rng.randint(1, nb - 1)
            blocks[j].fs = 25.0
        arg = tuple(blocks) if trial % 2 else blocks
        lit = '[' + '; '.join(f'dec_block {_block(B)}' for B in blocks) + ']'
        try:
            want = f'inl E => eqb_block (enc_block E) {_block(P.combine_events(arg))}'
        except IndexError:
            want = 'inr EIndex => true'
        except ValueError as e:
            want = 'inr EAlign => true' if 'not aligned' in str(e) else 'inr EFs => true' if 'sampling rates' in str(e) else 'inr _ => false'
        terms.append(f'match gen_{NAME} {lit} with {want} | _ => false end')
    return terms


if __name__ == '__main__':
    import sys
    print(translate(sys.argv[1] if len(sys.argv) > 1 else '/repo')[0])
