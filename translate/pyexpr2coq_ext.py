"""pyexpr2coq_ext - extension of translate/pyexpr2coq.py (which is reused UNCHANGED through subclassing) for the
scalar expressions that properties C16 and C08 need out of functions that also contain array glue.

Still fail-closed: whatever the tables do not cover raises TranslatorGap.  Added on top of the base translator:

  * constants            spec['consts'] = {'np.pi': 'PI'}                      (emitted as the Coq constant)
  * more primitives      through the base table spec['prims'] ('np.cos': 'cos', 'np.sin': 'sin')
  * e ** 0.5 -> sqrt e;  e ** 2.0 -> pow e 2  (float exponent with an integer value)
  * `a if TEST else b` and `if TEST:` statements whose TEST (source text) is listed in entry['assume'] are resolved
    statically (the definition is the function UNDER those argument conventions, e.g. calibration given, detrend=None);
    a selected branch that raises is a gap
  * entry['mode'] = 'slice': the value of one local / attribute (entry['target'], default the returned expression) is
    translated by forward evaluation of the straight-line assignments; every statement that cannot be translated
    POISONS the names it stores, and a poisoned name reaching the target is a gap.  entry['return_text'] pins the text
    of the return expression (how the translated local is used by the array code); entry['ignore_stmts'] lists the
    expression statements (calls for effect) that may be skipped.
  * identity subscripts  spec['identity_subscripts'] = ['(..., np.newaxis)']: x[..., np.newaxis] is x pointwise
  * component mode       entry['component'] = j: np.array([a, b, c]) -> its j-th element, np.arange(-1, 2) -> -1 + j,
    substitution values given as lists -> their j-th element (all other operations are elementwise, so projection on
    a component commutes with them; reductions over the component axis are pinned by return_text)
  * ones                 spec['ones_calls'] = ['np.ones']: np.ones(n) is 1 pointwise
  * complex mode         entry['part'] = 're' | 'im': complex constants (1.0j), + - * of complex values, division by a
    real value, np.exp of a purely imaginary argument (cos + j sin); the real or imaginary part is emitted
  * method calls on an object other than self   spec['bound_prefixes'] = ['calibration']: calibration.get_sf(f, L)
    binds like self.get_sf; abstract parameters of the callee (sens = self.get_sens(frequency)) are looked up in the
    caller's table after substituting the actual arguments and the object (calibration.get_sens(<actual>))
  * entry['emit'] = False: translated (so that it can be called) but not emitted (it lives in another generated file)
  * decorators must be listed in spec['allowed_decorators'].
"""
import ast
from fractions import Fraction

from translate.pyexpr2coq import (Translator, TranslatorGap, gap, BINOPS, show, parse_defs, _free, Fn)  # noqa: F401

POISON = 'poison'


def stores(node):
    """source texts of every name / attribute / subscripted base stored anywhere inside node"""
    out = set()
    for n in ast.walk(node):
        if isinstance(n, (ast.Name, ast.Attribute)) and isinstance(getattr(n, 'ctx', None), ast.Store):
            out.add(ast.unparse(n))
        elif isinstance(n, ast.Subscript) and isinstance(n.ctx, ast.Store):
            out.add(ast.unparse(n.value))
        elif isinstance(n, ast.AugAssign):
            out.add(ast.unparse(n.target))
    return out


class TranslatorX(Translator):
    # ---- expressions ------------------------------------------------------------------------------------------
    def pick(self, v, fn, node):
        """substitution value: a name, or (component mode) a list of names"""
        if isinstance(v, (list, tuple)):
            j = fn.e.get('component')
            if j is None or not 0 <= j < len(v):
                gap(node, 'vector-valued substitution outside component mode', fn.e['qual'])
            return ('var', v[j])
        return ('var', v)

    def tr(self, node, fn, env):
        e, S = fn.e, self.spec
        text = ast.unparse(node)
        if text in e.get('subst', {}):
            return self.pick(e['subst'][text], fn, node)
        if text in S.get('consts', {}):
            return ('call', S['consts'][text], ())
        if text in env and isinstance(node, (ast.Name, ast.Attribute)):
            v = env[text]
            if v[0] == POISON:
                gap(node, f'value depends on code that is not translated ({v[1][:150]})', e['qual'])
            return v
        if isinstance(node, ast.Attribute):
            gap(node, 'attribute that is neither assigned before, substituted nor a declared constant', e['qual'])
        if isinstance(node, ast.IfExp):
            t = ast.unparse(node.test)
            if t not in e.get('assume', {}):
                gap(node, 'conditional expression whose test is not in the assume table', e['qual'])
            return self.tr(node.body if e['assume'][t] else node.orelse, fn, env)
        if isinstance(node, ast.Subscript):
            if ast.unparse(node.slice) in S.get('identity_subscripts', ()):
                return self.tr(node.value, fn, env)
            gap(node, 'subscript that is not a declared identity', e['qual'])
        if isinstance(node, ast.BinOp) and isinstance(node.op, ast.Pow) and isinstance(node.right, ast.Constant) \
                and isinstance(node.right.value, float):
            x = node.right.value
            if x == 0.5:
                return ('sqrt', self.tr(node.left, fn, env))
            if x == int(x) and 0 <= x <= 64 and \
                    not (isinstance(node.left, ast.Constant) and node.left.value == 10):
                return ('pow', self.tr(node.left, fn, env), ('nat', int(x)))
            gap(node, '** with a float exponent other than 0.5 or a small natural number', e['qual'])
        if isinstance(node, ast.Call):
            name = ast.unparse(node.func)
            j = e.get('component')
            if name in S.get('vector_ctors', ()):
                if j is None or len(node.args) != 1 or node.keywords or not isinstance(node.args[0], ast.List) \
                        or not 0 <= j < len(node.args[0].elts):
                    gap(node, 'vector constructor outside component mode / unexpected arguments', e['qual'])
                if len(node.args[0].elts) != e['ncomp']:
                    gap(node, f'vector of length other than {e["ncomp"]}', e['qual'])
                return self.tr(node.args[0].elts[j], fn, env)
            if name in S.get('vector_ranges', ()):
                ok = j is not None and len(node.args) == 2 and not node.keywords
                vals = []
                for a in node.args if ok else ():
                    try:
                        v = ast.literal_eval(a)
                    except (ValueError, SyntaxError):
                        v = None
                    ok = ok and isinstance(v, int) and not isinstance(v, bool)
                    vals.append(v)
                if not ok or vals[1] - vals[0] != e['ncomp']:
                    gap(node, 'integer range outside component mode / of the wrong length', e['qual'])
                return ('num', Fraction(vals[0] + j))
            if name in S.get('ones_calls', ()):
                if len(node.args) != 1 or node.keywords:
                    gap(node, 'ones() with unexpected arguments', e['qual'])
                return ('num', Fraction(1))
        return super().tr(node, fn, env)

    def call(self, node, fn, env):
        S, e = self.spec, fn.e
        name = ast.unparse(node.func)
        calls = dict(S.get('calls', {}))
        calls.update(e.get('calls', {}))
        prefix = name.split('.')[0]
        if name in calls and '.' in name and prefix in S.get('bound_prefixes', ()):
            return self.tcallx(node, calls[name], fn, env, prefix)
        return super().call(node, fn, env)

    def tcallx(self, node, coqname, fn, env, prefix):
        """obj.method(args) where obj is a declared bound prefix: as Translator.tcall with self := obj."""
        e = fn.e
        if coqname not in self.fns:
            gap(node, f'callee {coqname} must be listed before its caller', e['qual'])
        g = self.fns[coqname]
        if not (g.pyparams and g.pyparams[0] in ('self', 'cls')):
            gap(node, f'callee {coqname} is not a method', e['qual'])
        gp = g.pyparams[1:]
        actual = {}
        if len(node.args) > len(gp) or any(isinstance(a, ast.Starred) for a in node.args):
            gap(node, 'too many / starred positional arguments', e['qual'])
        for p, a in zip(gp, node.args):
            actual[p] = a
        for k in node.keywords:
            if k.arg is not None and k.arg in gp and k.arg not in actual:
                actual[k.arg] = k.value
            else:
                gap(node, f'unexpected keyword {k.arg}', e['qual'])
        args = []
        for cp in g.e['params']:
            if cp in gp:
                if cp in actual:
                    args.append(self.tr(actual[cp], fn, env))
                elif cp in g.defaults:
                    args.append(self.num(g.defaults[cp], g))
                else:
                    gap(node, f'missing argument {cp}', e['qual'])
            else:
                pats = [p for p, v in g.e.get('subst', {}).items() if v == cp]
                if len(pats) != 1:
                    gap(node, f'abstract parameter {cp} of {coqname} has no unique pattern', e['qual'])
                pt = ast.parse(pats[0], mode='eval').body
                outer = self

                class Sub(ast.NodeTransformer):
                    def visit_Name(s, n):
                        if n.id in gp:
                            if n.id not in actual:
                                gap(node, f'pattern of {cp} needs argument {n.id}', e['qual'])
                            return actual[n.id]
                        if n.id in ('self', 'cls'):
                            return ast.parse(prefix, mode='eval').body
                        return n
                rew = ast.unparse(Sub().visit(pt))
                if rew not in e.get('subst', {}):
                    gap(node, f'abstract parameter {cp} of {coqname} = `{rew}` is not in the caller\'s table', e['qual'])
                args.append(outer.pick(e['subst'][rew], fn, node))
        return ('call', coqname, tuple(args))

    # ---- complex values: (re, im) with None for a zero part -----------------------------------------------------
    @staticmethod
    def _has_complex(node):
        return any(isinstance(n, ast.Constant) and isinstance(n.value, complex) for n in ast.walk(node))

    def trc(self, node, fn, env):
        e = fn.e
        text = ast.unparse(node)
        if text in env and isinstance(node, (ast.Name, ast.Attribute)) and env[text][0] == 'cplx':
            return env[text][1], env[text][2]
        if not self._has_complex(node) and not any(
                isinstance(n, (ast.Name, ast.Attribute)) and ast.unparse(n) in env and env[ast.unparse(n)][0] == 'cplx'
                for n in ast.walk(node)):
            return self.tr(node, fn, env), None
        if isinstance(node, ast.Constant) and isinstance(node.value, complex):
            txt = ast.get_source_segment(fn.src, node)
            try:
                q = Fraction(txt.rstrip('jJ').replace('_', ''))
            except (ValueError, AttributeError):
                gap(node, 'cannot read complex literal exactly', e['qual'])
            if node.value.real != 0 or float(q) != node.value.imag:
                gap(node, 'complex literal text and value disagree', e['qual'])
            return None, ('num', q)
        if isinstance(node, ast.UnaryOp) and isinstance(node.op, ast.USub):
            a, b = self.trc(node.operand, fn, env)
            return (None if a is None else ('Ropp', a)), (None if b is None else ('Ropp', b))
        if isinstance(node, ast.BinOp) and type(node.op) in (ast.Add, ast.Sub):
            op = BINOPS[type(node.op)]
            (a, b), (c, d) = self.trc(node.left, fn, env), self.trc(node.right, fn, env)

            def comb(x, y):
                if y is None:
                    return x
                if x is None:
                    return y if op == 'Rplus' else ('Ropp', y)
                return (op, x, y)
            return comb(a, c), comb(b, d)
        if isinstance(node, ast.BinOp) and isinstance(node.op, ast.Mult):
            (a, b), (c, d) = self.trc(node.left, fn, env), self.trc(node.right, fn, env)

            def mul(x, y):
                return None if x is None or y is None else ('Rmult', x, y)

            def sub(x, y):
                return x if y is None else ('Ropp', y) if x is None else ('Rminus', x, y)

            def add(x, y):
                return x if y is None else y if x is None else ('Rplus', x, y)
            return sub(mul(a, c), mul(b, d)), add(mul(a, d), mul(b, c))
        if isinstance(node, ast.BinOp) and isinstance(node.op, ast.Div):
            (a, b), (c, d) = self.trc(node.left, fn, env), self.trc(node.right, fn, env)
            if d is not None or c is None:
                gap(node, 'division by a complex value', e['qual'])
            return (None if a is None else ('Rdiv', a, c)), (None if b is None else ('Rdiv', b, c))
        if isinstance(node, ast.Call) and ast.unparse(node.func) in self.spec.get('cexp_calls', ()):
            if len(node.args) != 1 or node.keywords:
                gap(node, 'exp with unexpected arguments', e['qual'])
            a, b = self.trc(node.args[0], fn, env)
            if a is not None or b is None:
                gap(node, 'exp of a value that is not purely imaginary', e['qual'])
            return ('cos', b), ('sin', b)
        gap(node, f'unsupported complex expression {type(node).__name__}', e['qual'])

    # ---- statements -------------------------------------------------------------------------------------------
    def block(self, stmts, fn, env):
        if fn.e.get('mode') != 'slice':
            return super().block(stmts, fn, env)
        env = dict(env)
        ret = self.slice(list(stmts), fn, env)
        e = fn.e
        target = e.get('target', 'return')
        if 'return_text' in e:
            if ret is None or ast.unparse(ret) != e['return_text']:
                gap(ret if ret is not None else fn.node,
                    f'the return expression is not the declared `{e["return_text"]}`', e['qual'])
        if target == 'return':
            if ret is None:
                gap(fn.node, 'no return statement reached', e['qual'])
            if e.get('part'):
                return ('ir', self.part(self.trc(ret, fn, env), fn, ret))
            return ('ir', self.tr(ret, fn, env))
        if target not in env:
            gap(fn.node, f'{target} is never assigned on the path selected by the assume table', e['qual'])
        v = env[target]
        if v[0] == POISON:
            gap(fn.node, f'{target} depends on code that is not translated ({v[1][:200]})', e['qual'])
        if v[0] == 'cplx':
            return ('ir', self.part((v[1], v[2]), fn, fn.node))
        if e.get('part'):
            gap(fn.node, f'{target} is not complex-valued', e['qual'])
        return ('ir', v)

    def part(self, z, fn, node):
        v = z[0] if fn.e['part'] == 're' else z[1]
        return ('num', Fraction(0)) if v is None else v

    def slice(self, stmts, fn, env):
        """forward evaluation; returns the node of the returned expression (or None)"""
        e = fn.e
        for st in stmts:
            if isinstance(st, ast.Expr) and isinstance(st.value, ast.Constant) and isinstance(st.value.value, str):
                continue
            if isinstance(st, ast.Expr):
                if ast.unparse(st) in e.get('ignore_stmts', ()):
                    continue
                gap(st, 'expression statement that is not declared ignorable', e['qual'])
            if isinstance(st, ast.Assign) and len(st.targets) == 1 and \
                    isinstance(st.targets[0], (ast.Name, ast.Attribute)):
                key = ast.unparse(st.targets[0])
                try:
                    if e.get('part') and (self._has_complex(st.value) or any(
                            ast.unparse(n) in env and env[ast.unparse(n)][0] == 'cplx' for n in ast.walk(st.value)
                            if isinstance(n, (ast.Name, ast.Attribute)))):
                        a, b = self.trc(st.value, fn, env)
                        v = ('cplx', a, b)
                    else:
                        v = self.tr(st.value, fn, env)
                except TranslatorGap as g:
                    v = (POISON, str(g))
                env[key] = v
                continue
            if isinstance(st, ast.AugAssign) and isinstance(st.target, (ast.Name, ast.Attribute)) \
                    and type(st.op) in BINOPS:
                key = ast.unparse(st.target)
                try:
                    load = ast.parse(key, mode='eval').body
                    v = (BINOPS[type(st.op)], self.tr(load, fn, env), self.tr(st.value, fn, env))
                except TranslatorGap as g:
                    v = (POISON, str(g))
                env[key] = v
                continue
            if isinstance(st, ast.If) and ast.unparse(st.test) in e.get('assume', {}):
                chosen = st.body if e['assume'][ast.unparse(st.test)] else st.orelse
                if any(isinstance(x, ast.Raise) for x in chosen):
                    gap(st, 'the assume table selects a branch that raises', e['qual'])
                r = self.slice(list(chosen), fn, env)
                if r is not None:
                    return r
                continue
            if isinstance(st, ast.Return):
                if st.value is None:
                    gap(st, 'bare return', e['qual'])
                return st.value
            if isinstance(st, ast.Raise):
                gap(st, 'unconditional raise on the selected path', e['qual'])
            if isinstance(st, (ast.If, ast.With, ast.For, ast.While, ast.Try, ast.Assign, ast.AugAssign,
                               ast.AnnAssign)):
                if any(isinstance(x, ast.Return) for x in ast.walk(st)):
                    gap(st, 'return inside a statement that is not resolved by the assume table', e['qual'])
                for key in stores(st):
                    env[key] = (POISON, f'assigned inside `{ast.unparse(st)[:80]}`')
                continue
            gap(st, f'unsupported statement {type(st).__name__}', e['qual'])
        return None

    # ---- driver -----------------------------------------------------------------------------------------------
    def run(self):
        for entry in self.spec['functions']:
            entry.setdefault('ncomp', self.spec.get('ncomp', 3))
        notes = super().run()
        allowed = set(self.spec.get('allowed_decorators', ()))
        for name, fn in self.fns.items():
            for d in fn.node.decorator_list:
                if ast.unparse(d) not in allowed:
                    raise TranslatorGap(f'{fn.e["qual"]}: decorator {ast.unparse(d)} is not declared harmless')
            unused = [t for t in fn.e.get('assume', {})
                      if not any(isinstance(n, (ast.If, ast.IfExp)) and ast.unparse(n.test) == t
                                 for n in ast.walk(fn.node))]
            if unused:
                raise TranslatorGap(f'{fn.e["qual"]}: assume table names tests that do not occur: {unused}')
        return notes

    def emit(self):
        out = []
        for name, fn in self.fns.items():
            if fn.e.get('emit', True) is False:
                continue
            ps = fn.e['params']
            sig = f' ({" ".join(ps)} : R)' if ps else ''
            extra = ''
            if fn.e.get('assume'):
                extra += '  under ' + ', '.join(f'{k} = {v}' for k, v in fn.e['assume'].items())
            if 'component' in fn.e:
                extra += f'  component {fn.e["component"]}'
            if fn.e.get('part'):
                extra += f'  {fn.e["part"]} part'
            if fn.e.get('target', 'return') != 'return':
                extra += f'  value of `{fn.e["target"]}`'
            out.append(f'(* {fn.e["file"]}:{fn.node.lineno}  {fn.e["qual"]}{extra} *)')
            out.append(f'Definition {name}{sig} : R :=\n  {show(fn.ir)}.')
        return '\n'.join(out) + '\n'


def translate(repo, spec):
    """Returns (coq_text_of_definitions, info).  Raises TranslatorGap."""
    t = TranslatorX(repo, spec)
    notes = t.run()
    return t.emit(), {'functions': [f'{fn.e["qual"]} -> {n}' for n, fn in t.fns.items() if fn.e.get('emit', True)],
                      'notes': notes}


# ---- independent interpreter of the EMITTED TEXT (translator self-test): the base one plus cos, sin, PI -------------
def evaluate(defs, name, args, np):
    prim = {'Rplus': lambda a, b: a + b, 'Rminus': lambda a, b: a - b, 'Rmult': lambda a, b: a * b,
            'Rdiv': lambda a, b: a / b, 'Ropp': lambda a: -a, 'pow10': lambda a: 10.0 ** a, 'log10': np.log10,
            'sqrt': np.sqrt, 'pow': lambda a, n: a ** n, 'cos': np.cos, 'sin': np.sin, 'PI': lambda: np.pi}

    def ev(sx, env):
        if isinstance(sx, str):
            if sx in env:
                return env[sx]
            if sx.endswith('%nat'):
                return int(sx[:-4])
            if sx.isdigit():
                return float(sx)
            return app(sx, [])
        return app(sx[0], [ev(a, env) for a in sx[1:]])

    def app(f, vals):
        if f in prim:
            return prim[f](*vals)
        ps, body = defs[f]
        assert len(ps) == len(vals), f
        return ev(body, dict(zip(ps, vals)))
    return app(name, list(args))
