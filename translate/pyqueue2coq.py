"""Fail-closed translator: bookkeeping of the generation path of psiaudio.queue -> coq/gen/QueueStepGen.v (C02, C03, C04).

Reads the CURRENT source of the methods listed in TARGETS (class AbstractSignalQueue and its subclasses) with `ast` and
emits one Gallina definition `g_<Class>_<method>` per method, statement by statement, over the object `obj` of
coq/Queue/TieLib.v (the record `qstate` of coq/Queue/Model.v + the notifications delivered so far):

    x = e                       let v_x := e in                     self.f = e / self.f op= e      let self := set_f self .. in
    if c: A else: B; rest       if c then A;rest else B;rest        raise E                        GRaise E self
    x = self.m(..)              gbind (g_m self ..) (fun self v_x   return e                       GOk self e
    while c: B; rest            Fixpoint g_.._loop on fuel (rest at the exit / at `break`; out of fuel = GRaise EFuel)
    try: x = self.m(..)         gcatch (g_m ..) E (fun self v_x => rest) (fun self => H;rest)
    except E: H
    for x in L: if c: return v  gtry (exists_r (fun v_x => c) L) ..      for x in L: self.m(x)    gbind (gfold ..) ..
    a % b, l[i], self._data[k], np.zeros(n), np.concatenate(l), l.remove(x), l.pop()
                                gtry (py_mod / py_get / lookup / np_zeros / np_concatenate / py_remove / py_pop_last ..) self (fun r =>
    self._source[a:b]           view_slice (an ndarray source is a view (key, start, stop) of the queued waveform)
    self.next_key() / self.decrement_key(..)     the dispatchers g_next_key / g_decrement_key: `match` on the policy, built from
                                the class hierarchy found in the source (which class's method each queue class inherits)

Everything that is not integer / list bookkeeping goes through the explicit tables: PINS (class, method, statement text ->
replacement statement / dropped), PINNED_DEFS (whole functions and methods whose text is relied upon), SIGNATURES.  A change
of a pinned text stops the translator exactly like a construct it does not know (class Gap).  The emitted file ends with a
self-test: the real methods run on real queue objects (fs = 1), the outcome - returned value, every field, the
notifications, the exception - written as `Example`s that Coq checks against the emitted definitions by vm_compute."""
import ast
import copy
import os


class Gap(Exception):
    """the source contains something the translator does not know, or a pinned text changed"""


ROOT = 'AbstractSignalQueue'
# queue class -> the constructor of `policy` (Queue/Model.v) that stands for it
POLICY = {'FIFOSignalQueue': 'PFifo', 'InterleavedFIFOSignalQueue': 'PInter _', 'RandomSignalQueue': 'PRandom',
          'BlockedRandomSignalQueue': 'PBlockedRandom', 'GroupedFIFOSignalQueue': 'PGrouped _',
          'BlockedFIFOSignalQueue': 'PGrouped _'}
BASES = {ROOT: None, 'FIFOSignalQueue': ROOT, 'InterleavedFIFOSignalQueue': ROOT, 'RandomSignalQueue': ROOT,
         'BlockedRandomSignalQueue': 'InterleavedFIFOSignalQueue', 'GroupedFIFOSignalQueue': 'FIFOSignalQueue',
         'BlockedFIFOSignalQueue': 'GroupedFIFOSignalQueue'}

COQTY = {'Z': 'Z', 'bool': 'bool', 'wave': '(list osample)', 'waves': '(list (list osample))', 'src': 'view', 'dref': 'Z',
         'zlist': '(list Z)', 'info': 'info', 'infos': '(list info)', 'unit': 'unit', 'pair': '(Z * Z)%type', 'entry': 'entry',
         'optZ': '(option Z)'}

# (class, method) -> (pinned signature, parameters, type returned, options)
#   needs_src: the method works on `self._source` (bound at entry; None there is an error)
#   fuel: the fuel of the method's `while` loop: 'param' (a parameter of the definition) or a Gallina expression
TARGETS = {
    (ROOT, '_get_samples_waveform'): ('self, samples', [('samples', 'Z')], 'wave', {'needs_src': True}),
    (ROOT, '_get_samples_generator'): ('self, samples', [('samples', 'Z')], 'wave', {'needs_src': True}),
    (ROOT, 'remove_key'): ('self, key', [('key', 'Z')], 'unit', {}),
    (ROOT, 'decrement_key'): ('self, key, n=1', [('key', 'Z'), ('n', 'Z')], 'bool', {}),
    ('InterleavedFIFOSignalQueue', 'decrement_key'): ('self, key, n=1', [('key', 'Z'), ('n', 'Z')], 'bool', {}),
    ('GroupedFIFOSignalQueue', 'decrement_key'): ('self, key, n=1', [('key', 'Z'), ('n', 'Z')], 'bool', {}),
    ('FIFOSignalQueue', 'next_key'): ('self', [], 'Z', {}),
    ('InterleavedFIFOSignalQueue', 'next_key'): ('self', [], 'Z', {'fuel': '(length (f_ordering self))'}),
    ('RandomSignalQueue', 'next_key'): ('self', [], 'Z', {}),
    ('BlockedRandomSignalQueue', 'next_key'): ('self', [], 'Z', {}),
    ('GroupedFIFOSignalQueue', 'next_key'): ('self', [], 'Z', {}),
    (ROOT, 'pop_key'): ('self, key, decrement=True', [('key', 'Z'), ('decrement', 'bool')], 'dref', {}),
    (ROOT, 'pop_next'): ('self, decrement=True', [('decrement', 'bool')], 'pair', {}),
    (ROOT, 'next_trial'): ('self, decrement=True', [('decrement', 'bool')], 'unit', {}),
    (ROOT, '_pop_buffer'): ('self, samples, decrement', [('samples', 'Z'), ('decrement', 'bool')], 'wave', {}),
    (ROOT, 'pop_buffer'): ('self, samples, decrement=True', [('samples', 'Z'), ('decrement', 'bool')], 'wave',
                           {'fuel': 'param'}),
    # pause / resume (times are sample numbers relative to the start of the queue: see PINS)
    (ROOT, '_ends_after'): ('self, info, t', [('info', 'info'), ('t', 'Z')], 'bool', {}),
    (ROOT, 'rewind_samples'): ('self, t, check=True', [('t', 'Z'), ('check', 'bool')], 'unit', {}),
    (ROOT, 'cancel'): ('self, t, delay=0', [('t', 'Z'), ('delay', 'Z')], 'unit', {}),
    (ROOT, 'requeue'): ('self, t', [('t', 'Z')], 'unit', {}),
    ('InterleavedFIFOSignalQueue', 'requeue'): ('self, t', [('t', 'Z')], 'unit', {}),
    (ROOT, 'pause'): ('self, t=None', [('t', 'optZ')], 'unit', {}),
    (ROOT, 'resume'): ('self, t=None', [('t', 'optZ')], 'unit', {}),
}
# methods every queue class may override: calls go through a dispatcher on the policy
VIRTUAL = {'next_key': ([], 'Z'), 'decrement_key': ([('key', 'Z'), ('n', 'Z')], 'bool'), 'requeue': ([('t', 'Z')], 'unit')}

# self.<field> -> (name in TieLib, type, assignable); per class where a subclass reuses a name with another type
FIELDS = {'_delay_samples': ('delay', 'Z', True), '_ordering': ('ordering', 'zlist', True), '_samples': ('samples', 'Z', True),
          '_paused': ('paused', 'bool', True), '_empty': ('empty', 'bool', True), '_generated': ('generated', 'infos', True),
          '_i': ('i', 'Z', True), '_complete': ('complete', 'bool', True), '_keep_complete_waveforms': ('keep', 'bool', False),
          '_group_size': ('group_size', 'Z', False)}
CLASS_FIELDS = {('BlockedRandomSignalQueue', '_i'): ('iperm', 'zlist', True)}
DATA_KEYS = {'trials': 'e_trials', 'duration': 'e_dur'}
LOCAL_LISTS = {('pop_buffer', 'waveforms'): 'waves', ('requeue', 'to_requeue'): 'zlist'}          # `x = []`: what the list will hold
EXC = {'QueueEmptyError': 'EQueueEmpty', 'KeyError': 'EKeyError', 'ValueError': 'EValueError', 'IndexError': 'EIndexError'}
NOTIFY = {'added': 'ev_added', 'removed': 'ev_removed'}
INFO_KEYS = {'t0': 'i_t0', 'duration': 'i_dur', 'key': 'i_key', 'decrement': 'i_dec'}     # + 'metadata' (not modelled)
INFO_TYPES = {'t0': 'Z', 'duration': 'Z', 'key': 'Z', 'decrement': 'bool'}

# (class, method, statement text) -> replacement statement (translated instead) or None (dropped)
PINS = {
    # which of the two readers `_get_samples` is bound to is decided together with the source (next_trial, below)
    (ROOT, '_pop_buffer', 'return self._get_samples(samples)'): 'return _tie_get_samples(samples)',
    # the source of the trial: a factory is reset (position 0), an ndarray is taken as it is
    (ROOT, 'next_trial', "self._source = data['source']"): None,
    (ROOT, 'next_trial', "try:\n    self._source.reset()\n    self._get_samples = self._get_samples_generator\n"
                         "except AttributeError:\n    self._source = data['source']\n"
                         "    self._get_samples = self._get_samples_waveform"): 'self._source = _tie_fresh_source(data)',
    # the delay iterator and the float conversion: the harness hands the model int(round(delay * fs))
    (ROOT, 'next_trial', "delay = next(data['delays'])"): 'delay = _tie_next_delay(data)',
    (ROOT, 'next_trial', 'self._delay_samples = int(round(delay * self._fs))'): 'self._delay_samples = delay',
    # times in samples relative to the start of the queue
    (ROOT, 'next_trial', 't0 = self._t0 + self._samples / self._fs'): 't0 = self._samples',
    # the 'decrement' notification has no counterpart in the model (harness/queuecore.py checks it)
    (ROOT, 'decrement_key', "self._notify('decrement', {'key': key})"): None,
    # random choices are oracles of the model: the key drawn (checked to be queued) / the next shuffled block
    ('RandomSignalQueue', 'next_key', 'i = np.random.randint(0, len(self._ordering))'): None,
    ('RandomSignalQueue', 'next_key', 'return self._ordering[i]'): 'return _tie_draw_choice()',
    ('BlockedRandomSignalQueue', 'next_key', 'i = np.arange(len(self._ordering))'): None,
    ('BlockedRandomSignalQueue', 'next_key', 'self._rng.shuffle(i)'): None,
    ('BlockedRandomSignalQueue', 'next_key', 'self._i = i.tolist()'): 'self._i = _tie_draw_perm(len(self._ordering))',
    # ---- pause / resume: a time is read as the sample number int(round((t - t0) * fs)) the harness hands the model
    (ROOT, 'pause', "if int(round((t - self._t0) * self._fs)) > self._samples:\n    raise ValueError(f'Cannot pause at {t:.3f}s, "
                    "last sample was {self.get_ts():.3f}s.')"): 'if t > self._samples:\n    raise ValueError',
    (ROOT, 'rewind_samples', 'new_sample = int(round((t - self._t0) * self._fs))'): 'new_sample = t',
    # the end of a logged trial: start + declared duration, in samples
    (ROOT, '_ends_after', "end = int(round((info['t0'] + info['duration'] - self._t0) * self._fs))"): "end = info['t0'] + info['duration']",
    (ROOT, '_ends_after', 'return end > int(round((t - self._t0) * self._fs))'): 'return end > t',
    (ROOT, 'cancel', 'self._delay_samples = int(round(delay * self._fs))'): 'self._delay_samples = delay',
    # logging with compound arguments
    (ROOT, 'requeue', "log.debug('Need to requeue:: %r', dict(Counter(to_requeue)))"): None,
    (ROOT, 'requeue', "trials = {k: self._data[k]['trials'] for k in self._data.keys()}"): None,
    (ROOT, 'resume', "log.debug('Resumed queue. Current timestamp is %.3f.', self.get_ts())"): None,
}

# whole functions / methods whose text (docstrings removed) the reading above relies on
PINNED_DEFS = {
    'as_iterator': 'def as_iterator(x):\n    if x is None:\n        x = 0\n    try:\n        x = iter(x)\n'
                   '    except TypeError:\n        x = itertools.cycle([x])\n    return x',
    (ROOT, '_notify'): 'def _notify(self, event, info):\n    for notifier in self._notifiers[event]:\n        try:\n'
                       "            notifier(info)\n        except:\n            log.error('Error when notifying %r', notifier)\n"
                       '            raise',
    (ROOT, 'next_key'): 'def next_key(self):\n    raise NotImplementedError',
    ('InterleavedFIFOSignalQueue', '__init__'):
        'def __init__(self, keep_complete_waveforms=True, **kwargs):\n    super().__init__(**kwargs)\n    self._i = -1\n'
        '    self._complete = False\n    self._keep_complete_waveforms = keep_complete_waveforms',
    ('BlockedRandomSignalQueue', '__init__'):
        'def __init__(self, seed=0, **kwargs):\n    super().__init__(**kwargs)\n    self._i = []\n'
        '    self._rng = np.random.RandomState(seed)',
    ('GroupedFIFOSignalQueue', '__init__'):
        'def __init__(self, group_size, **kwargs):\n    super().__init__(**kwargs)\n    self._group_size = group_size\n'
        '    self._i = -1',
    ('BlockedFIFOSignalQueue', '__init__'): 'def __init__(self, **kwargs):\n    super().__init__(group_size=0, **kwargs)',
    ('BlockedFIFOSignalQueue', 'append'):
        'def append(self, *args, **kwargs):\n    self._group_size += 1\n    return super().append(*args, **kwargs)',
}
# the other methods (separate operations of the model, tied by the differential harness; not called by the targets)
OTHER_METHODS = {
    ROOT: {'__init__', 'clone', 'fs', 'get_ts', 'remaining_trials', 'is_empty', 'set_fs', 'set_t0', '_add_source', 'get_max_duration', 'connect', 'insert',
           'append', 'extend', 'count_factories', 'count_trials', 'count_requested_trials', 'get_closest_key', 'get_info'},
    'InterleavedFIFOSignalQueue': {'count_trials'},
}

CMP = {ast.Lt: '<?', ast.LtE: '<=?', ast.Gt: '>?', ast.GtE: '>=?', ast.Eq: '=?'}
BIN = {ast.Add: '{} + {}', ast.Sub: '{} - {}', ast.Mult: '{} * {}'}


def zl(n):
    return f'({n})%Z' if n < 0 else f'{n}%Z'


def _strip_doc(fn):
    fn = copy.deepcopy(fn)
    if fn.body and isinstance(fn.body[0], ast.Expr) and isinstance(getattr(fn.body[0].value, 'value', None), str):
        fn.body = fn.body[1:] or [ast.Pass()]
    return fn


def _is_self(e, attr=None):
    return isinstance(e, ast.Attribute) and isinstance(e.value, ast.Name) and e.value.id == 'self' and attr in (None, e.attr)


def coqname(cls, name):
    return f'g_{name}' if cls == ROOT and name not in VIRTUAL else f'g_{cls}_{name}'


class _Fn:
    """translation of one method"""

    def __init__(self, cls, name, resolve):
        self.cls, self.name, self.resolve = cls, name, resolve
        self.sig, self.params, self.ret, self.opt = TARGETS[(cls, name)]
        self.used_pins, self.fixpoints, self.n = set(), [], 0
        self.coq = coqname(cls, name)

    def gap(self, node, why):
        raise Gap(f'{self.cls}.{self.name}, line {getattr(node, "lineno", "?")}: {why}: `{ast.unparse(node)[:120]}`')

    def fresh(self):
        self.n += 1
        return f'r{self.n}'

    def field(self, node):
        f = CLASS_FIELDS.get((self.cls, node.attr)) or FIELDS.get(node.attr)
        if f is None:
            self.gap(node, 'unknown field')
        return f

    # ---- expressions without effect on the object: (text, type); partial operations are bound in `pre` ------------
    def expr(self, e, env, pre):
        if isinstance(e, ast.Constant) and type(e.value) is bool:
            return ('true' if e.value else 'false'), 'bool'
        if isinstance(e, ast.Constant) and type(e.value) is int:
            return zl(e.value), 'Z'
        if isinstance(e, ast.Name):
            if e.id not in env or e.id.startswith('@') or env[e.id] == 'none':
                self.gap(e, 'unknown name (or a name not assigned on this path)')
            return 'v_' + e.id, env[e.id]
        if _is_self(e, '_source'):
            if env['@src'] != 'some':
                self.gap(e, 'self._source read where it is not known to be a source')
            return 'v__src', 'src'
        if _is_self(e):
            name, ty, _ = self.field(e)
            return f'(f_{name} self)', ty
        if isinstance(e, ast.UnaryOp) and isinstance(e.op, ast.USub):
            return f'(- {self.typed(e.operand, env, pre, "Z")})', 'Z'
        if isinstance(e, ast.UnaryOp) and isinstance(e.op, ast.Not):
            t, ty = self.expr(e.operand, env, pre)
            if ty == 'bool':
                return f'(negb {t})', 'bool'
            if ty in ('zlist', 'waves'):                    # `not l`: the list is empty
                return f'(zlen {t} =? 0%Z)', 'bool'
            self.gap(e, f'`not` of a {ty}')
        if isinstance(e, ast.BoolOp):
            ts = [self.typed(v, env, pre, 'bool') for v in e.values]
            if len(pre) and len(e.values) > 1:
                self.gap(e, 'a partial operation under and / or (evaluation order)')
            return '(' + (' || ' if isinstance(e.op, ast.Or) else ' && ').join(ts) + ')', 'bool'
        if isinstance(e, ast.BinOp) and type(e.op) in BIN:
            return '(' + BIN[type(e.op)].format(self.typed(e.left, env, pre, 'Z'), self.typed(e.right, env, pre, 'Z')) + ')', 'Z'
        if isinstance(e, ast.BinOp) and isinstance(e.op, ast.Mod):
            r = self.fresh()
            pre.append((f'(py_mod {self.typed(e.left, env, pre, "Z")} {self.typed(e.right, env, pre, "Z")})', r))
            return r, 'Z'
        if isinstance(e, ast.Compare) and len(e.ops) == 1:
            op, rhs = e.ops[0], e.comparators[0]
            if isinstance(op, (ast.Is, ast.IsNot)) and _is_self(e.left, '_source') and ast.unparse(rhs) == 'None':
                return ('(negb (has_source self))' if isinstance(op, ast.Is) else '(has_source self)'), 'bool'
            if type(op) in CMP:
                return f'({self.typed(e.left, env, pre, "Z")} {CMP[type(op)]} {self.typed(rhs, env, pre, "Z")})', 'bool'
            if isinstance(op, ast.NotIn) and isinstance(rhs, ast.Attribute):
                return f'(negb (memZ {self.typed(e.left, env, pre, "Z")} {self.typed(rhs, env, pre, "zlist")}))', 'bool'
            self.gap(e, 'unknown comparison')
        if isinstance(e, ast.Subscript):
            return self.subscript(e, env, pre)
        if isinstance(e, ast.Dict):
            keys = [k.value if isinstance(k, ast.Constant) else None for k in e.keys]
            if sorted(keys, key=str) != sorted(list(INFO_KEYS) + ['metadata']) or \
                    ast.unparse(e.values[keys.index('metadata')]) != "data['metadata']":
                self.gap(e, 'unknown dict (only the info dict of a trial is known)')
            want = {'t0': 'Z', 'duration': 'Z', 'key': 'Z', 'decrement': 'bool'}
            fs = [f'{INFO_KEYS[k]} := {self.typed(v, env, pre, want[k])}' for k, v in zip(keys, e.values) if k != 'metadata']
            return '{| ' + '; '.join(fs) + ' |}', 'info'
        if isinstance(e, ast.Call):
            return self.call(e, env, pre)
        self.gap(e, 'unknown expression')

    def typed(self, e, env, pre, ty):
        t, got = self.expr(e, env, pre)
        if got != ty:
            self.gap(e, f'expected {ty}, found {got}')
        return t

    def subscript(self, e, env, pre):
        s = e.slice
        if isinstance(s, ast.Constant) and isinstance(s.value, str) and isinstance(e.value, ast.Name) \
                and env.get(e.value.id) == 'info':                                # info['t0']: a field of a log entry
            if s.value not in INFO_KEYS:
                self.gap(e, 'unknown key of an info dict')
            return f'({INFO_KEYS[s.value]} v_{e.value.id})', INFO_TYPES[s.value]
        if isinstance(s, ast.Constant) and isinstance(s.value, str):            # d['trials']
            if s.value not in DATA_KEYS:
                self.gap(e, 'unknown key of a stimulus dict')
            v = e.value
            if isinstance(v, ast.Subscript) and _is_self(v.value, '_data') and isinstance(v.slice, ast.Name):
                k = self.typed(v.slice, env, pre, 'Z')                          # self._data[key]['trials']
                if v.slice.id not in env['@checked']:
                    pre.append((f'(lookup self {k})', '_'))
                    env['@checked'] = env['@checked'] | {v.slice.id}
                return f'({DATA_KEYS[s.value]} (deref self {k}))', 'Z'
            t, ty = self.expr(v, env, pre)
            if ty == 'dref':
                return f'({DATA_KEYS[s.value]} (deref self {t}))', 'Z'
            if ty == 'entry':
                return f'({DATA_KEYS[s.value]} {t})', 'Z'
            self.gap(e, f'string key on a {ty}')
        if isinstance(s, ast.Slice) and ast.unparse(s) == '::-1':              # l[::-1]: reversed copy
            t, ty = self.expr(e.value, env, pre)
            if ty not in ('zlist', 'infos'):
                self.gap(e, f'reversal of a {ty}')
            return f'(rev {t})', ty
        if isinstance(s, ast.Slice):
            if s.step is not None:
                self.gap(e, 'stepped slice')
            lo, hi = ('None' if b is None else f'(Some {self.typed(b, env, pre, "Z")})' for b in (s.lower, s.upper))
            t, ty = self.expr(e.value, env, pre)
            if ty == 'src':
                return f'(view_slice {lo} {hi} {t})', 'src'
            if ty == 'zlist':
                return f'(py_slice {lo} {hi} {t})', 'zlist'
            self.gap(e, f'slice of a {ty}')
        t, ty = self.expr(e.value, env, pre)                                     # l[i]
        if ty != 'zlist':
            self.gap(e, f'index into a {ty}')
        r = self.fresh()
        pre.append((f'(py_get {t} {self.typed(s, env, pre, "Z")})', r))
        return r, 'Z'

    def call(self, e, env, pre):
        f, a = e.func, e.args
        u = ast.unparse(f)
        if isinstance(f, ast.Name) and not e.keywords:
            if f.id in ('max', 'min') and len(a) == 2:
                return f'(Z.{f.id} {self.typed(a[0], env, pre, "Z")} {self.typed(a[1], env, pre, "Z")})', 'Z'
            if f.id == 'len' and len(a) == 1:
                t, ty = self.expr(a[0], env, pre)
                if ty == 'src':
                    return f'(view_len {t})', 'Z'
                if ty in ('zlist', 'wave', 'waves'):
                    return f'(zlen {t})', 'Z'
                self.gap(e, f'len of a {ty}')
            if f.id == 'all' and len(a) == 1 and isinstance(a[0], ast.GeneratorExp) and len(a[0].generators) == 1:
                g = a[0].generators[0]                                          # all(c(d) for d in self._data.values())
                if ast.unparse(g.iter) == 'self._data.values()' and isinstance(g.target, ast.Name) and not g.ifs and not g.is_async:
                    inner = dict(env)
                    inner[g.target.id] = 'entry'
                    p2 = []
                    c = self.typed(a[0].elt, inner, p2, 'bool')
                    if not p2:
                        return f'(forallb (fun v_{g.target.id} => {c}) (f_data self))', 'bool'
            if f.id == '_tie_fresh_source' and len(a) == 1:                     # only reachable through PINS
                return f'(fresh_source self {self.typed(a[0], env, pre, "dref")})', 'src'
        if u == 'np.zeros' and len(a) == 1 and not e.keywords:
            r = self.fresh()
            pre.append((f'(np_zeros {self.typed(a[0], env, pre, "Z")})', r))
            return r, 'wave'
        if u == 'np.empty' and [ast.unparse(x) for x in a] == ['0'] and not e.keywords:
            return '(@nil osample)', 'wave'
        if u == 'np.concatenate' and len(a) == 1 and [(k.arg, ast.unparse(k.value)) for k in e.keywords] == [('axis', '-1')]:
            r = self.fresh()
            pre.append((f'(np_concatenate {self.typed(a[0], env, pre, "waves")})', r))
            return r, 'wave'
        if isinstance(f, ast.Attribute) and _is_self(f.value, '_source') and not a and not e.keywords:
            m = {'n_samples_remaining': ('gen_remaining', 'Z'), 'is_complete': ('gen_complete', 'bool')}.get(f.attr)
            if m:
                return f'({m[0]} {self.typed(f.value, env, pre, "src")})', m[1]
        self.gap(e, 'unknown call')

    def selfcall(self, e, env):
        """self.m(..) of a translated method -> (text, type returned); arguments are total expressions"""
        sup = isinstance(e, ast.Call) and isinstance(e.func, ast.Attribute) and ast.unparse(e.func.value) == 'super()'
        if not (isinstance(e, ast.Call) and (_is_self(e.func) or sup)):
            return None
        name = e.func.attr
        if sup:                                             # the method of the base class, whatever the queue's class
            owner = self.resolve(BASES[self.cls], name, owner=True) if BASES[self.cls] else None
            if owner is None or (owner, name) not in TARGETS:
                self.gap(e, 'super() call of a method that is not translated')
            params, ret = TARGETS[(owner, name)][1:3]
            target, fn = coqname(owner, name), self.resolve(owner, name)
        elif name in VIRTUAL:
            params, ret = VIRTUAL[name]
            target, fn = f'g_{name}', self.resolve(self.cls, name)
        else:
            owner = self.resolve(self.cls, name, owner=True)
            if owner is None or (owner, name) not in TARGETS:
                return None
            params, ret = TARGETS[(owner, name)][1:3]
            if TARGETS[(owner, name)][3].get('fuel') == 'param':
                self.gap(e, 'call of a method that takes fuel')
            target, fn = coqname(owner, name), self.resolve(self.cls, name)
        given = dict(zip([p for p, _ in params], e.args))
        if len(e.args) > len(params):
            self.gap(e, 'too many arguments')
        for kw in e.keywords:
            if kw.arg is None or kw.arg in given or kw.arg not in dict(params):
                self.gap(e, 'unknown keyword')
            given[kw.arg] = kw.value
        names = [x.arg for x in fn.args.args][1:]
        defaults = dict(zip(names[len(names) - len(fn.args.defaults):], fn.args.defaults))
        out, pre = [], []
        for p, ty in params:
            x = given.get(p, defaults.get(p))
            if x is None:
                self.gap(e, f'argument {p} missing')
            out.append(self.typed(x, env, pre, ty))
        if pre:
            self.gap(e, 'a partial operation in an argument')
        return '(' + ' '.join([target, 'self'] + out) + ')', ret

    # ---- statements -----------------------------------------------------------------------------------------------
    def wrap(self, pre, body, pad):
        for r, v in reversed(pre):
            body = f'{pad}gtry {r} self (fun {v} =>\n{body})'
        return body

    def after_call(self, env):
        env['@src'] = 'unknown'                     # the callee may have replaced the source

    def block(self, stmts, env, ctx, ind):
        """the statements `stmts` followed by what ctx says comes after them, as one Gallina expression"""
        pad = '  ' * ind
        if not stmts:
            return ctx['end'](env, ind)
        s, rest = stmts[0], stmts[1:]
        env = dict(env)
        text = ast.unparse(s)
        if (self.cls, self.name, text) in PINS:
            self.used_pins.add((self.cls, self.name, text))
            to = PINS[(self.cls, self.name, text)]
            return self.block(([] if to is None else ast.parse(to).body) + rest, env, ctx, ind)
        nxt = lambda: self.block(rest, env, ctx, ind)
        if isinstance(s, ast.Pass):
            return nxt()
        if isinstance(s, ast.Expr):
            return self.expr_stmt(s, rest, env, ctx, ind)
        if isinstance(s, ast.Return):
            return self.ret_stmt(s, env, ind)
        if isinstance(s, ast.Raise):
            n = s.exc.func if isinstance(s.exc, ast.Call) else s.exc
            if s.cause or not isinstance(n, ast.Name) or n.id not in EXC:
                self.gap(s, 'unknown raise')
            return f'{pad}GRaise {EXC[n.id]} self'
        if isinstance(s, ast.Break):
            if ctx.get('brk') is None:
                self.gap(s, 'break outside a loop')
            return ctx['brk'](env, ind)
        if isinstance(s, ast.Continue):
            if ctx.get('cont') is None:
                self.gap(s, 'continue outside a for loop')
            return ctx['cont'](env, ind)
        if isinstance(s, ast.AugAssign) and type(s.op) in (ast.Add, ast.Sub):
            t = s.target
            if isinstance(t, ast.Subscript) and ast.unparse(t.slice) == "'trials'" and isinstance(t.value, ast.Subscript) \
                    and _is_self(t.value.value, '_data') and isinstance(t.value.slice, ast.Name):
                pre = []                                            # self._data[key]['trials'] -= n
                k = self.typed(t.value.slice, env, pre, 'Z')
                d = self.typed(s.value, env, pre, 'Z')
                d = d if isinstance(s.op, ast.Add) else f'(- {d})'
                env['@checked'] = env['@checked'] | {t.value.slice.id}
                return self.wrap(pre, f'{pad}gtry (lookup self {k}) self (fun _ =>\n{pad}let self := set_data self '
                                      f'(upd_entry (f_data self) {k} (add_trials {d})) in\n{nxt()})', pad)
            s = ast.Assign(targets=[t], value=ast.BinOp(left=copy.deepcopy(t), op=s.op, right=s.value), lineno=s.lineno)
        if isinstance(s, ast.Assign) and len(s.targets) == 1:
            return self.assign(s, s.targets[0], rest, env, ctx, ind)
        if isinstance(s, ast.If):
            c = s.test
            if isinstance(c, ast.Compare) and len(c.ops) == 1 and isinstance(c.ops[0], (ast.Is, ast.IsNot)) \
                    and isinstance(c.left, ast.Name) and ast.unparse(c.comparators[0]) == 'None' \
                    and env.get(c.left.id) in ('optZ', 'Z', 'none'):
                x, some, no = c.left.id, (s.body if isinstance(c.ops[0], ast.IsNot) else s.orelse), \
                    (s.orelse if isinstance(c.ops[0], ast.IsNot) else s.body)
                if env[x] == 'Z':                           # known not to be None on this path
                    return self.block(some + rest, env, ctx, ind)
                if env[x] == 'none':
                    return self.block(no + rest, env, ctx, ind)
                e0, e1 = dict(env), dict(env)
                e0[x], e1[x] = 'none', 'Z'
                return (f'{pad}match v_{x} with\n{pad}| None =>\n{self.block(no + rest, e0, ctx, ind + 1)}\n'
                        f'{pad}| Some v_{x} =>\n{self.block(some + rest, e1, ctx, ind + 1)}\n{pad}end')
            neg = isinstance(c, ast.UnaryOp) and isinstance(c.op, ast.Not)
            call = self.selfcall(c.operand if neg else c, env)
            if call:                                        # if self.m(..): / if not self.m(..):
                if call[1] != 'bool':
                    self.gap(s, f'a {call[1]} as a condition')
                self.after_call(env)
                b = self.fresh()
                return (f'{pad}gbind {call[0]} (fun self {b} =>\n{pad}if {"negb " if neg else ""}{b} then\n'
                        f'{self.block(s.body + rest, env, ctx, ind + 1)}\n{pad}else\n{self.block(s.orelse + rest, env, ctx, ind + 1)})')
            if isinstance(c, ast.Name) and env.get(c.id) == 'zlist':       # if l: the list is not empty
                return (f'{pad}if negb (zlen v_{c.id} =? 0%Z) then\n{self.block(s.body + rest, env, ctx, ind + 1)}\n{pad}else\n'
                        f'{self.block(s.orelse + rest, env, ctx, ind + 1)}')
            pre = []
            t = self.typed(s.test, env, pre, 'bool')
            return self.wrap(pre, f'{pad}if {t} then\n{self.block(s.body + rest, env, ctx, ind + 1)}\n{pad}else\n'
                                  f'{self.block(s.orelse + rest, env, ctx, ind + 1)}', pad)
        if isinstance(s, ast.While):
            return self.loop(s, rest, env, ctx, ind)
        if isinstance(s, ast.Try):
            return self.try_stmt(s, rest, env, ctx, ind)
        if isinstance(s, ast.For):
            return self.for_stmt(s, rest, env, ctx, ind)
        self.gap(s, 'unknown statement')

    def expr_stmt(self, s, rest, env, ctx, ind):
        pad, v = '  ' * ind, s.value
        nxt = lambda: self.block(rest, env, ctx, ind)
        if isinstance(v, ast.Constant) and isinstance(v.value, str):
            return nxt()                                                            # docstring
        if not isinstance(v, ast.Call):
            self.gap(s, 'unknown expression statement')
        f = v.func
        if isinstance(f, ast.Attribute) and ast.unparse(f.value) == 'log':          # logging: arguments without effects
            for a in v.args:
                ok = isinstance(a, (ast.Constant, ast.Name)) or _is_self(a) or \
                    (isinstance(a, ast.Call) and ast.unparse(a.func) == 'len' and len(a.args) == 1 and isinstance(a.args[0], ast.Name))
                if not ok or v.keywords:
                    self.gap(s, 'logging call with a compound argument')
            return nxt()
        c = self.selfcall(v, env)
        if c:
            self.after_call(env)
            return f'{pad}gbind {c[0]} (fun self _ =>\n{nxt()})'
        if _is_self(f, '_notify') and len(v.args) == 2 and not v.keywords and isinstance(v.args[0], ast.Constant):
            ev = v.args[0].value
            if ev == 'empty' and ast.unparse(v.args[1]) == '{}':
                return f'{pad}let self := notify self EEmpty in\n{nxt()}'
            if ev in NOTIFY:
                pre = []
                i = self.typed(v.args[1], env, pre, 'info')
                return self.wrap(pre, f'{pad}let self := notify self ({NOTIFY[ev]} {i}) in\n{nxt()}', pad)
            self.gap(s, 'unknown notification')
        if isinstance(f, ast.Attribute) and f.attr == 'append' and len(v.args) == 1 and not v.keywords:
            pre = []
            l, lt = self.expr(f.value, env, pre)
            x, xt = self.expr(v.args[0], env, pre)
            if (lt, xt) == ('waves', 'wave') and isinstance(f.value, ast.Name):
                return self.wrap(pre, f'{pad}let {l} := {l} ++ [{x}] in\n{nxt()}', pad)
            if (lt, xt) == ('zlist', 'Z') and isinstance(f.value, ast.Name):
                return self.wrap(pre, f'{pad}let {l} := {l} ++ [{x}] in\n{nxt()}', pad)
            if (lt, xt) == ('infos', 'info') and _is_self(f.value):
                return self.wrap(pre, f'{pad}let self := set_{self.field(f.value)[0]} self ({l} ++ [{x}]) in\n{nxt()}', pad)
            self.gap(s, f'append of a {xt} to a {lt}')
        if isinstance(f, ast.Attribute) and f.attr == 'insert' and _is_self(f.value) and len(v.args) == 2 and not v.keywords \
                and ast.unparse(v.args[0]) == '0':                                  # l.insert(0, x)
            name, ty, rw = self.field(f.value)
            pre = []
            x = self.typed(v.args[1], env, pre, 'Z')
            if ty != 'zlist' or not rw:
                self.gap(s, f'insert into a {ty}')
            return self.wrap(pre, f'{pad}let self := set_{name} self ({x} :: (f_{name} self)) in\n{nxt()}', pad)
        if isinstance(f, ast.Attribute) and f.attr == 'remove' and _is_self(f.value) and len(v.args) == 1 and not v.keywords:
            name, ty, rw = self.field(f.value)
            pre = []
            x = self.typed(v.args[0], env, pre, 'Z')
            if ty != 'zlist' or not rw:
                self.gap(s, f'remove from a {ty}')
            r = self.fresh()
            return self.wrap(pre, f'{pad}gtry (py_remove {x} (f_{name} self)) self (fun {r} =>\n'
                                  f'{pad}let self := set_{name} self {r} in\n{nxt()})', pad)
        self.gap(s, 'unknown call statement')

    def ret_stmt(self, s, env, ind):
        pad, v = '  ' * ind, s.value
        if v is None:
            if self.ret != 'unit':
                self.gap(s, 'bare return')
            return f'{pad}GOk self tt'
        if isinstance(v, ast.Call) and ast.unparse(v.func) == '_tie_get_samples' and len(v.args) == 1:
            a = self.typed(v.args[0], env, [], 'Z')
            return (f'{pad}match src_kind self with\n{pad}| KArray => g__get_samples_waveform self {a}\n'
                    f'{pad}| KGen => g__get_samples_generator self {a}\n{pad}end')
        if isinstance(v, ast.Call) and ast.unparse(v.func) == '_tie_draw_choice' and not v.args and self.ret == 'Z':
            return f'{pad}draw_choice self'
        c = self.selfcall(v, env)
        if c:
            if c[1] != self.ret:
                self.gap(s, f'returns a {c[1]}, expected {self.ret}')
            return pad + c[0]
        if isinstance(v, ast.Tuple) and len(v.elts) == 2 and self.ret == 'pair' and isinstance(v.elts[0], ast.Name):
            a = self.typed(v.elts[0], env, [], 'Z')                                   # return key, self.m(..)
            c = self.selfcall(v.elts[1], env)
            if c and c[1] == 'dref':
                r = self.fresh()
                return f'{pad}gbind {c[0]} (fun self {r} =>\n{pad}GOk self ({a}, {r}))'
        pre = []
        t, ty = self.expr(v, env, pre)
        if (ty, self.ret) == ('src', 'wave'):
            t, ty = f'(view_samples {t})', 'wave'           # an ndarray handed to the caller: its samples
        if ty != self.ret:
            self.gap(s, f'returns a {ty}, expected {self.ret}')
        return self.wrap(pre, f'{pad}GOk self {t}', pad)

    def assign(self, s, tgt, rest, env, ctx, ind):
        pad, v = '  ' * ind, s.value
        nxt = lambda: self.block(rest, env, ctx, ind)

        def bind(x, ty):
            env[x] = ty
            env['@checked'] = env['@checked'] - {x}
        if isinstance(tgt, ast.Tuple) and all(isinstance(x, ast.Name) for x in tgt.elts) and len(tgt.elts) == 2:
            c = self.selfcall(v, env)                                               # key, data = self.pop_next(..)
            if not c or c[1] != 'pair':
                self.gap(s, 'unknown tuple assignment')
            self.after_call(env)
            a, b = (x.id for x in tgt.elts)
            bind(a, 'Z'), bind(b, 'dref')
            r = self.fresh()
            return f'{pad}gbind {c[0]} (fun self {r} =>\n{pad}let v_{a} := fst {r} in\n{pad}let v_{b} := snd {r} in\n{nxt()})'
        if isinstance(tgt, ast.Name):
            x = tgt.id
            c = self.selfcall(v, env)
            if c:
                if c[1] == 'unit':
                    self.gap(s, 'the value of a method that returns nothing')
                self.after_call(env)
                bind(x, c[1])
                return f'{pad}gbind {c[0]} (fun self v_{x} =>\n{nxt()})'
            if isinstance(v, ast.Call) and isinstance(v.func, ast.Name) and v.func.id == '_tie_next_delay' and len(v.args) == 1:
                d = self.typed(v.args[0], env, [], 'dref')
                bind(x, 'Z')
                return f'{pad}gbind (next_delay_samples self {d}) (fun self v_{x} =>\n{nxt()})'
            if isinstance(v, ast.Subscript) and _is_self(v.value, '_data') and isinstance(v.slice, ast.Name):
                k = self.typed(v.slice, env, [], 'Z')                               # data = self._data[key]: a reference
                bind(x, 'dref')
                return f'{pad}gtry (lookup self {k}) self (fun v_{x} =>\n{nxt()})'
            if isinstance(v, ast.Call) and isinstance(v.func, ast.Attribute) and not v.keywords:
                f = v.func
                if _is_self(f.value, '_source') and f.attr == 'next' and len(v.args) == 1:
                    n = self.typed(v.args[0], env, [], 'Z')                         # the factory hands out n samples and advances
                    src = self.typed(f.value, env, [], 'src')
                    bind(x, 'wave')
                    return (f'{pad}let v_{x} := gen_samples {src} {n} in\n{pad}let v__src := gen_advance {src} {n} in\n'
                            f'{pad}let self := set_source self (Some v__src) in\n{nxt()}')
                if _is_self(f.value) and f.attr == 'pop' and not v.args:
                    name, ty, rw = self.field(f.value)
                    if ty != 'zlist' or not rw:
                        self.gap(s, f'pop from a {ty}')
                    bind(x, 'Z')
                    r = self.fresh()
                    return (f'{pad}gtry (py_pop_last (f_{name} self)) self (fun {r} =>\n{pad}let v_{x} := fst {r} in\n'
                            f'{pad}let self := set_{name} self (snd {r}) in\n{nxt()})')
            if isinstance(v, ast.List) and not v.elts:
                ty = LOCAL_LISTS.get((self.name, x))
                if ty not in ('waves', 'zlist'):
                    self.gap(s, 'an empty list of unknown content')
                bind(x, ty)
                return f'{pad}let v_{x} := (@nil {"(list osample)" if ty == "waves" else "Z"}) in\n{nxt()}'
            pre = []
            t, ty = self.expr(v, env, pre)
            if ty not in ('Z', 'bool', 'wave', 'src', 'info', 'zlist'):
                self.gap(s, f'assignment of a {ty}')
            bind(x, ty)
            return self.wrap(pre, f'{pad}let v_{x} := {t} in\n{nxt()}', pad)
        if _is_self(tgt, '_source'):
            if isinstance(v, ast.Constant) and v.value is None:
                env['@src'] = 'none'
                return f'{pad}let self := set_source self None in\n{nxt()}'
            pre = []
            t = self.typed(v, env, pre, 'src')
            env['@src'] = 'some'
            return self.wrap(pre, f'{pad}let v__src := {t} in\n{pad}let self := set_source self (Some v__src) in\n{nxt()}', pad)
        if _is_self(tgt):
            name, fty, rw = self.field(tgt)
            if not rw:
                self.gap(s, 'assignment to a field that stands for a parameter of the policy')
            if isinstance(v, ast.ListComp) and len(v.generators) == 1 and fty == 'infos':
                g = v.generators[0]                         # [x for x in l if (not) self.m(x, ..)]
                if isinstance(g.target, ast.Name) and ast.unparse(v.elt) == g.target.id and len(g.ifs) == 1 and not g.is_async:
                    pre = []
                    l = self.typed(g.iter, env, pre, 'infos')
                    inner = dict(env)
                    inner[g.target.id] = 'info'
                    c = g.ifs[0]
                    neg = isinstance(c, ast.UnaryOp) and isinstance(c.op, ast.Not)
                    call = self.selfcall(c.operand if neg else c, inner)
                    if call and call[1] == 'bool' and not pre:
                        b, r = self.fresh(), self.fresh()
                        k = f'gbind {call[0]} (fun self {b} => GOk self (negb {b}))' if neg else call[0]
                        return (f'{pad}gbind (gfilter (fun self v_{g.target.id} => {k}) {l} self) (fun self {r} =>\n'
                                f'{pad}let self := set_{name} self {r} in\n{nxt()})')
                self.gap(s, 'unknown list comprehension')
            if isinstance(v, ast.Call) and isinstance(v.func, ast.Name) and v.func.id == '_tie_draw_perm' and len(v.args) == 1 \
                    and fty == 'zlist':
                pre = []
                n = self.typed(v.args[0], env, pre, 'Z')
                r = self.fresh()
                return self.wrap(pre, f'{pad}gbind (draw_perm self {n}) (fun self {r} =>\n'
                                      f'{pad}let self := set_{name} self {r} in\n{nxt()})', pad)
            pre = []
            t = self.typed(v, env, pre, fty)
            return self.wrap(pre, f'{pad}let self := set_{name} self {t} in\n{nxt()}', pad)
        self.gap(s, 'unknown assignment')

    def loop(self, s, rest, env, ctx, ind):
        pad = '  ' * ind
        fuel = self.opt.get('fuel')
        if s.orelse or self.fixpoints or fuel is None:
            self.gap(s, 'a loop with else / a second loop / a loop without fuel in TARGETS')
        params = [(n, t) for n, t in env.items() if not n.startswith('@')]
        name = self.coq + '_loop'
        inner = dict(env)
        inner['@src'], inner['@checked'] = 'unknown', frozenset()

        def again(e, i):
            if [(n, e.get(n)) for n, _ in params] != params:
                self.gap(s, 'a variable of the loop changes its type')
            return '  ' * i + ' '.join([name, 'fuel', 'self'] + ['v_' + n for n, _ in params])
        ictx = {'end': again, 'cont': again, 'brk': lambda e, i: self.block(rest, e, ctx, i)}
        body = f'{pad}match fuel with\n{pad}| O => GRaise EFuel self\n{pad}| S fuel =>\n{self.block(s.body, inner, ictx, ind + 1)}\n{pad}end'
        if not (isinstance(s.test, ast.Constant) and s.test.value is True):
            pre = []
            t = self.typed(s.test, inner, pre, 'bool')
            if pre:
                self.gap(s, 'a partial operation in the loop condition')
            body = f'{pad}if {t} then\n{body}\n{pad}else\n{self.block(rest, inner, ctx, ind + 1)}'
        ps = ''.join(f' (v_{n} : {COQTY[t]})' for n, t in params)
        self.fixpoints.append(f'Fixpoint {name} (fuel : nat) (self : obj){ps} {{struct fuel}} : gres {COQTY[self.ret]} :=\n{body}.\n')
        return pad + ' '.join([name, 'fuel' if fuel == 'param' else fuel, 'self'] + ['v_' + n for n, _ in params])

    def try_stmt(self, s, rest, env, ctx, ind):
        pad = '  ' * ind
        h = s.handlers[0] if len(s.handlers) == 1 else None
        one = s.body[0] if len(s.body) == 1 else None
        if s.orelse or s.finalbody or h is None or h.name or not isinstance(h.type, ast.Name) or h.type.id not in EXC \
                or not (isinstance(one, ast.Assign) and len(one.targets) == 1 and isinstance(one.targets[0], ast.Name)):
            self.gap(s, 'unknown try statement')
        c = self.selfcall(one.value, env)
        if not c or c[1] == 'unit':
            self.gap(s, 'try around something that is not a call of a translated method')
        x = one.targets[0].id
        self.after_call(env)
        ok = dict(env)
        ok[x] = c[1]
        return (f'{pad}gcatch {c[0]} {EXC[h.type.id]}\n{pad}(fun self v_{x} =>\n{self.block(rest, ok, ctx, ind + 1)})\n'
                f'{pad}(fun self =>\n{self.block(h.body + rest, env, ctx, ind + 1)})')

    def for_stmt(self, s, rest, env, ctx, ind):
        pad = '  ' * ind
        one = s.body[0] if len(s.body) == 1 else None
        if s.orelse:
            self.gap(s, 'unknown for statement')
        pre = []
        if ast.unparse(s.iter) == 'self._data.items()' and ast.unparse(s.target) == '(key, data)':
            x, xt, l = 'data', 'entry', '(f_data self)'        # the key is not bound: a use of it below is an unknown name
        elif isinstance(s.target, ast.Tuple) and len(s.target.elts) == 2 and all(isinstance(n, ast.Name) for n in s.target.elts) \
                and isinstance(s.iter, ast.Call) and not s.iter.args and not s.iter.keywords and isinstance(s.iter.func, ast.Attribute) \
                and s.iter.func.attr == 'items' and isinstance(s.iter.func.value, ast.Call) and ast.unparse(s.iter.func.value.func) == 'Counter' \
                and len(s.iter.func.value.args) == 1 and not s.iter.func.value.keywords:
            # for key, count in Counter(l).items(): (key, number of occurrences), keys in order of first occurrence
            l = f'(py_counter {self.typed(s.iter.func.value.args[0], env, pre, "zlist")})'
            x, xt, pair = '_kc', 'pair', [n.id for n in s.target.elts]
        elif isinstance(s.target, ast.Name):
            l, lt = self.expr(s.iter, env, pre)
            if lt not in ('zlist', 'infos'):
                self.gap(s, f'iteration over a {lt}')
            x, xt = s.target.id, ('Z' if lt == 'zlist' else 'info')
        else:
            self.gap(s, 'unknown for target')
        inner = {k: v for k, v in env.items() if k != 'key' or x != 'data'}
        inner[x] = xt
        inner['@checked'] = inner['@checked'] - {x}
        after = {k: v for k, v in env.items() if k not in (x, 'key' if x == 'data' else x)}
        after['@checked'] = after['@checked'] - {x, 'key'}
        unpack = ''
        if x == '_kc':
            for n, proj in zip(pair, ('fst', 'snd')):
                inner[n] = 'Z'
                inner['@checked'] = inner['@checked'] - {n}
                after.pop(n, None)
                after['@checked'] = after['@checked'] - {n}
                unpack += f'{pad}  let v_{n} := {proj} v__kc in\n'
        if isinstance(one, ast.If) and not one.orelse and len(one.body) == 1 and isinstance(one.body[0], ast.Return):
            p2 = []
            c = self.typed(one.test, inner, p2, 'bool')
            c = f'Ret {c}'
            for r, v in reversed(p2):
                c = f'rbind {r} (fun {v} => {c})'
            b = self.fresh()
            return self.wrap(pre, f'{pad}gtry (exists_r (fun v_{x} => {c}) {l}) self (fun {b} =>\n{pad}if {b} then\n'
                                  f'{self.block(one.body, after, ctx, ind + 1)}\n{pad}else\n{self.block(rest, after, ctx, ind + 1)})', pad)
        if isinstance(one, ast.Expr):
            c = self.selfcall(one.value, inner)
            if c and c[1] == 'unit':
                self.after_call(after)
                return self.wrap(pre, f'{pad}gbind (gfold (fun self v_{x} => {c[0]}) {l} self) (fun self _ =>\n'
                                      f'{self.block(rest, after, ctx, ind)})', pad)
        # any other body: statements that change the object and at most one local (the accumulator); no return / break
        carried = set()
        for node in [n for st in s.body for n in ast.walk(st)]:
            if isinstance(node, (ast.Return, ast.Break, ast.While, ast.For, ast.Try)):
                self.gap(s, 'return / break / nested loop in the body of a for loop')
            if isinstance(node, (ast.Assign, ast.AugAssign)):
                for tg in (node.targets if isinstance(node, ast.Assign) else [node.target]):
                    if isinstance(tg, ast.Name):
                        carried.add(tg.id)
            if isinstance(node, ast.Call) and isinstance(node.func, ast.Attribute) and node.func.attr in ('append', 'insert', 'remove', 'pop') \
                    and isinstance(node.func.value, ast.Name):
                carried.add(node.func.value.id)
        carried = sorted(c for c in carried if c in env and c != x and not (x == '_kc' and c in pair))
        if len(carried) > 1 or pre:
            self.gap(s, 'a for loop that changes more than one local')
        acc = carried[0] if carried else None
        inner['@src'] = 'unknown'

        def done(e, i):
            if acc and e.get(acc) != env[acc]:
                self.gap(s, 'the accumulator of the loop changes its type')
            return '  ' * i + (f'GOk self v_{acc}' if acc else 'GOk self tt')
        body = self.block(list(s.body), inner, {'end': done, 'cont': done, 'brk': None}, ind + 1)
        self.after_call(after)
        if acc:
            return (f'{pad}gbind (gfoldl (fun self v_{acc} v_{x} =>\n{unpack}{body}) {l} self v_{acc}) (fun self v_{acc} =>\n'
                    f'{self.block(rest, after, ctx, ind)})')
        return (f'{pad}gbind (gfoldl (fun self (_ : unit) v_{x} =>\n{unpack}{body}) {l} self tt) (fun self _ =>\n'
                f'{self.block(rest, after, ctx, ind)})')

    def translate(self, fn):
        if ast.unparse(fn.args) != self.sig:
            raise Gap(f'{self.cls}.{self.name}: signature `{ast.unparse(fn.args)}`, pinned `{self.sig}`')
        for node in ast.walk(fn):
            for fld in ('body', 'orelse'):
                b = getattr(node, fld, None)
                if isinstance(b, list):
                    for st in b[:-1]:
                        if isinstance(st, (ast.Return, ast.Raise, ast.Break)):
                            raise Gap(f'{self.cls}.{self.name}, line {st.lineno}: statements after a return / raise / break')
        env = {p: ty for p, ty in self.params}
        env['@src'], env['@checked'] = ('some' if self.opt.get('needs_src') else 'unknown'), frozenset()

        def end(e, i):      # falling off the end returns None: fine for a method without a value, an error for the caller otherwise
            return '  ' * i + ('GOk self tt' if self.ret == 'unit' else 'GRaise ETypeError self')
        body = self.block(list(fn.body), env, {'end': end, 'brk': None}, 2 if self.opt.get('needs_src') else 1)
        if self.opt.get('needs_src'):
            body = f'  match f_source self with\n  | None => GRaise ETypeError self\n  | Some v__src =>\n{body}\n  end'
        fuel = ' (fuel : nat)' if self.opt.get('fuel') == 'param' else ''
        args = fuel + ' (self : obj)' + ''.join(f' (v_{p} : {COQTY[ty]})' for p, ty in self.params)
        return (f'(* {self.cls}.{self.name}, line {fn.lineno} *)\n' + ''.join(self.fixpoints)
                + f'Definition {self.coq}{args} : gres {COQTY[self.ret]} :=\n{body}.\n')


def translate_source(src):
    """-> (Gallina text of all definitions, info).  Raises Gap on anything unknown."""
    if '_tie_' in src:
        raise Gap('the source uses a name reserved by the translator (_tie_..)')
    tree = ast.parse(src)
    classes, funcs = {}, {}
    for n in tree.body:
        if isinstance(n, ast.ClassDef):
            classes[n.name] = n
        elif isinstance(n, ast.FunctionDef):
            funcs[n.name] = n
    if ast.unparse(_strip_doc(funcs.get('as_iterator', ast.parse('def f(): pass').body[0]))) != PINNED_DEFS['as_iterator']:
        raise Gap('the pinned function as_iterator changed')
    methods = {}
    for c, base in BASES.items():
        if c not in classes:
            raise Gap(f'class {c} not found')
        k = classes[c]
        if [ast.unparse(b) for b in k.bases] != ([] if base is None else [base]) or k.keywords or k.decorator_list:
            raise Gap(f'class {c}: bases `{[ast.unparse(b) for b in k.bases]}`, pinned `{base}`')
        methods[c] = {}
        for n in k.body:
            if isinstance(n, ast.FunctionDef):
                if n.name in methods[c] or (n.decorator_list and (c, n.name) != (ROOT, 'fs')):
                    raise Gap(f'{c}.{n.name}: defined twice / decorated')
                methods[c][n.name] = n
            elif not (isinstance(n, ast.Expr) and isinstance(n.value, ast.Constant)):
                raise Gap(f'class {c}, line {n.lineno}: `{ast.unparse(n)[:80]}`')
        known = {m for (cc, m) in TARGETS if cc == c} | {m for kk in PINNED_DEFS if isinstance(kk, tuple) and kk[0] == c for m in [kk[1]]} \
            | OTHER_METHODS.get(c, set())
        if set(methods[c]) != known:
            # a new / renamed method may change the fields behind the back of the translated ones or override one of them
            raise Gap(f'methods of {c} changed: unknown {sorted(set(methods[c]) - known)}, missing {sorted(known - set(methods[c]))}')
    extra = [c for c, k in classes.items() if c not in BASES and c != 'QueueEmptyError']
    if extra:
        raise Gap(f'unknown classes {extra}')
    for key, text in PINNED_DEFS.items():
        if isinstance(key, tuple) and ast.unparse(_strip_doc(methods[key[0]][key[1]])) != text:
            raise Gap(f'the pinned method {key[0]}.{key[1]} changed')

    def resolve(cls, name, owner=False):
        c = cls
        while c is not None:
            if name in methods[c]:
                return c if owner else methods[c][name]
            c = BASES[c]
        return None
    # a target reached from a subclass must be the one translated (not overridden on the way)
    for (c, m) in TARGETS:
        for sub in BASES:
            chain, x = [], sub
            while x is not None:
                chain.append(x)
                x = BASES[x]
            if c in chain and m not in VIRTUAL and resolve(sub, m, owner=True) != c:
                raise Gap(f'{sub} overrides {c}.{m}')
    defs, used = {}, set()
    for (c, m) in TARGETS:
        tr = _Fn(c, m, resolve)
        defs[(c, m)] = tr.translate(methods[c][m])
        used |= tr.used_pins
    if used != set(PINS):
        raise Gap(f'pinned statements not found in the source: {sorted(set(PINS) - used)}')
    disp = {}
    for v, (params, ret) in VIRTUAL.items():
        arms = {}
        for c, pol in POLICY.items():
            o = resolve(c, v, owner=True)
            if (o, v) not in TARGETS:
                raise Gap(f'{c}.{v} resolves to {o}.{v}, which is not translated')
            if arms.setdefault(pol, o) != o:
                raise Gap(f'two classes of policy {pol} resolve {v} differently')
        ps = ''.join(f' (v_{p} : {COQTY[t]})' for p, t in params)
        a = ''.join(f' v_{p}' for p, _ in params)
        disp[v] = (f'(* self.{v}(..): the method of the class of the queue *)\nDefinition g_{v} (self : obj){ps} : gres {COQTY[ret]} :=\n'
                   '  match f_pol self with\n' + ''.join(f'  | {pol} => {coqname(o, v)} self{a}\n' for pol, o in arms.items()) + '  end.\n')
    order = [(ROOT, '_get_samples_waveform'), (ROOT, '_get_samples_generator'), (ROOT, 'remove_key'),
             (ROOT, 'decrement_key'), ('InterleavedFIFOSignalQueue', 'decrement_key'), ('GroupedFIFOSignalQueue', 'decrement_key'),
             'decrement_key', ('FIFOSignalQueue', 'next_key'), ('InterleavedFIFOSignalQueue', 'next_key'),
             ('RandomSignalQueue', 'next_key'), ('BlockedRandomSignalQueue', 'next_key'), ('GroupedFIFOSignalQueue', 'next_key'),
             'next_key', (ROOT, 'pop_key'), (ROOT, 'pop_next'), (ROOT, 'next_trial'), (ROOT, '_pop_buffer'), (ROOT, 'pop_buffer'),
             (ROOT, '_ends_after'), (ROOT, 'rewind_samples'), (ROOT, 'cancel'), (ROOT, 'requeue'),
             ('InterleavedFIFOSignalQueue', 'requeue'), 'requeue', (ROOT, 'pause'), (ROOT, 'resume')]
    assert set(order) == set(TARGETS) | set(VIRTUAL)
    text = '\n'.join(disp[k] if isinstance(k, str) else defs[k] for k in order)
    return text, {'functions': [('g_' + k) if isinstance(k, str) else coqname(*k) for k in order], 'pins': len(PINS),
                  'pinned_defs': [k if isinstance(k, str) else '.'.join(k) for k in PINNED_DEFS]}


HEADER = '''From PV Require Import Common.PySlice Queue.Model Queue.TieLib Queue.TieLibC04.
Local Open Scope Z_scope.

'''


def generate(repo, selftest=True):
    """-> (text of coq/gen/QueueStepGen.v, info)"""
    path = os.path.join(repo, 'psiaudio', 'queue.py')
    defs, info = translate_source(open(path).read())
    head = ('(* GENERATED on every run by harness/C02.py translate() with translate/pyqueue2coq.py from\n'
            f'   {path} (AbstractSignalQueue and its subclasses) - do not edit.  One definition per method, statement by\n'
            '   statement, over the object of coq/Queue/TieLib.v.  Tied to the hand-written model by coq/Queue/ProofsTie.v. *)\n')
    tests = ''
    if selftest:
        from translate import pyqueue_selftest
        tests, n = pyqueue_selftest.selftest(repo)
        info['selftest_examples'] = n
        tests = '\n(* ---- self-test: what the real methods did on real queue objects (fs = 1) ---- *)\n' + tests + '\n'
    return head + HEADER + defs + tests, info


if __name__ == '__main__':
    import sys
    sys.path.insert(0, os.path.join(os.path.dirname(os.path.abspath(__file__)), '..'))
    t, i = generate(sys.argv[1] if len(sys.argv) > 1 else '/repo', selftest='--no-selftest' not in sys.argv)
    sys.stdout.write(t)
    sys.stderr.write(repr(i) + '\n')
