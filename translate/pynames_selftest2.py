# Importable self-test module for the STRICT reading of property C19 (coverage audit).
# The harness imports this file (never as __main__), runs every probe in PROBES and records which units raise
# NameError, or AttributeError on a module object.  The Coq checker (strict reading, coq/Names/Scope.v) must report
# exactly the same units of the regenerated model of THIS file.  Every function body is straight-line, so that
# "some read of the unit does not resolve" and "calling the unit raises" coincide.
import math
import os.path
from os import path as osp

try:
    import not_installed_optional_pkg as opt            # not installed: binds nothing
except ImportError:
    pass

try:
    import not_installed_optional_pkg as opt2
except ImportError:
    opt2 = None                                           # fallback binding takes effect

try:
    import json as js                                     # installed: binds
except ImportError:
    js = None

try:
    from math import no_such_name as nsn                  # math has no such attribute: binds nothing
except ImportError:
    pass

try:
    import not_installed_optional_pkg as xp
except ImportError:
    import math as xp                                     # the binding that takes effect decides the alias

try:
    1 / 0
except ZeroDivisionError as err:                          # err is deleted when the clause ends
    msg = str(err)

tmp = 1
del tmp                                                   # unbound again
kept = 1
alias = math                                              # alias of an imported module
sq = math.sqrt                                            # attribute of an imported module
pj = osp.join
sub = osp
deep = os.path.sep.upper

if __name__ == '__main__':                                # never runs under import
    import doctest
    only_main = 1
    print(only_main, doctest)


class K:
    attr = 1
    other = attr

    def meth(self):
        return attr                                       # class scope is not visible here

    def meth_ok(self):
        return self.attr, K.attr

    @classmethod
    def cm(cls):
        return cls.attr

    @staticmethod
    def sm():
        return kept

    def default_bad(self):
        def inner(a=missing_default):
            return a
        return inner

    def lam_bad(self):
        return (lambda: missing_in_lambda)()

    def comp_bad(self):
        return [v for v in (1, 2) if v is not missing_in_condition]

    def fstring_bad(self):
        return f'{missing_in_fstring}'


def p_opt():
    return opt


def p_opt2():
    return opt2


def p_js():
    return js.dumps


def p_js_bad():
    return js.dumpz


def p_nsn():
    return nsn


def p_xp():
    return xp.sqrt


def p_xp_bad():
    return xp.asarray


def p_err():
    return err


def p_msg():
    return msg


def p_tmp():
    return tmp


def p_alias():
    return alias.sqrt


def p_alias_bad():
    return alias.sqroot


def p_sq():
    return sq(4)


def p_pj():
    return pj('a', 'b'), deep()


def p_sub_bad():
    return sub.joinn


def p_chain():
    return os.path.join


def p_chain_bad():
    return os.path.joinn


def p_main():
    return only_main


def p_doctest():
    return doctest


def p_global_lazy():
    global lazy
    lazy = 1
    return lazy


def p_global_del():
    global kept2
    kept2 = 1
    del kept2
    return 0


def p_reads_deleted_global():
    return kept2


def p_builtin():
    return len, ValueError, __name__, __file__


# units whose failure only the live oracle can see: `js` has two bindings that both take effect statically (the import and
# the fallback `js = None`), so the model does not know which module - if any - it denotes and leaves the chain unchecked
LIVE_ONLY = ['p_js_bad']

PROBES = {
    'K.meth': lambda: K().meth(), 'K.meth_ok': lambda: K().meth_ok(), 'K.cm': lambda: K.cm(), 'K.sm': lambda: K.sm(),
    'K.default_bad': lambda: K().default_bad(), 'K.lam_bad': lambda: K().lam_bad(),
    'K.comp_bad': lambda: K().comp_bad(), 'K.fstring_bad': lambda: K().fstring_bad(),
    'p_opt': p_opt, 'p_opt2': p_opt2, 'p_js': p_js, 'p_js_bad': p_js_bad, 'p_nsn': p_nsn, 'p_xp': p_xp,
    'p_xp_bad': p_xp_bad, 'p_err': p_err, 'p_msg': p_msg, 'p_tmp': p_tmp, 'p_alias': p_alias,
    'p_alias_bad': p_alias_bad, 'p_sq': p_sq, 'p_pj': p_pj, 'p_sub_bad': p_sub_bad, 'p_chain': p_chain,
    'p_chain_bad': p_chain_bad, 'p_main': p_main, 'p_doctest': p_doctest, 'p_global_lazy': p_global_lazy,
    'p_global_del': p_global_del, 'p_reads_deleted_global': p_reads_deleted_global, 'p_builtin': p_builtin,
}
