"""Shared by harness/C16.py and harness/C08.py: regenerate one coq/gen/*.v file with translate/pyexpr2coq_ext.py, run the
translator self-test (emitted text interpreted independently vs the real functions), and write a deliberately ill-typed
file when the translator has a gap, so that the build fails and the driver reports the property as broken."""
import os

import numpy as np

from translate import pyexpr2coq, pyexpr2coq_ext

Gap = pyexpr2coq.TranslatorGap


def draw(domain, p, rng, kw):
    d = domain.get(p)
    if d == 'pos':
        return float(10 ** rng.uniform(-3, 3))
    if d == 'rate':
        return float(rng.choice([2000.0, 2500.0, 4000.0, rng.uniform(2000, 4000)]))
    if d == 'count':
        return float(rng.randint(2, 40))
    if d == 'bins':
        return float(rng.randint(3, 30))
    if d == 'index':
        return float(rng.randint(0, 12))
    if d == 'sign':
        return float(rng.choice([1, -1]))
    if d == 'one':
        return 1.0
    if d == 'lo':
        return float(rng.uniform(50, 120))
    if d == 'hi':
        return float(rng.uniform(150, 400))
    return float(rng.choice([rng.uniform(-40, 120), float(rng.randint(-20, 100))]))


def selftest(defs, spec_mod, rng, per=12, tol=1e-10):
    probes = spec_mod.probes()
    n, worst = 0, 0.0
    for name, (params, _) in defs.items():
        if name not in probes:
            raise Gap(f'no probe for emitted definition {name}')
        for _ in range(per):
            kw = {}
            for p in params:
                kw[p] = draw(spec_mod.DOMAIN, p, rng, kw)
            want = float(probes[name](**kw))
            with np.errstate(all='ignore'):
                got = float(pyexpr2coq_ext.evaluate(defs, name, [kw[p] for p in params], np))
            err = abs(want - got) / max(1.0, abs(want))
            worst = max(worst, err)
            n += 1
            if not err <= tol:
                raise Gap(f'self-test: emitted {name}{kw} evaluates to {got!r}, the real code gives {want!r}')
    return n, worst


def generate(repo, spec_mod, coq_dir, head, extra_defs=None, seed=7):
    """Returns (info, defs or None).  extra_defs: already parsed definitions the emitted text may call (CalibGen)."""
    import random
    spec = spec_mod.SPEC
    info = {'gen_files': [spec['out']], 'gap': None}
    defs = None
    try:
        body, tinfo = pyexpr2coq_ext.translate(repo, spec)
        own = pyexpr2coq.parse_defs(body)
        want = {f['coq'] for f in spec['functions'] if f.get('emit', True)}
        if set(own) != want:
            raise Gap(f'emitted text does not parse back to the listed definitions: {sorted(want ^ set(own))}')
        defs = dict(extra_defs or {})
        defs.update(own)
        n, worst = selftest(_SelfDefs(defs, own), spec_mod, random.Random(seed))
        info.update(functions=tinfo['functions'], notes=tinfo['notes'], selftest={'evaluations': n, 'max_rel_err': worst})
        text = head + spec['header'] + '\n' + body
    except Gap as e:
        defs = None
        info['gap'] = str(e)
        msg = ''.join(ch if ch.isalnum() or ch in " _.,:;()[]{}=+-*/<>'`" else ' ' for ch in str(e))
        msg = msg.replace('(*', '( *').replace('*)', '* )')[:400]
        text = (head + 'From Coq Require Import Reals String.\n'
                f'Definition translator_gap : R :=\n  "{msg}"%string.\n')
    with open(os.path.join(coq_dir, spec['out']), 'w') as f:       # always rewritten: always re-checked
        f.write(text)
    return info, defs


class _SelfDefs(dict):
    """all definitions for evaluation, but iteration (what the self-test probes) only over the newly emitted ones"""
    def __init__(self, alldefs, own):
        super().__init__(alldefs)
        self._own = list(own)

    def items(self):
        return [(k, self[k]) for k in self._own]
