"""pyexpr2coq - fail-closed translator of PURE ARITHMETIC Python functions/methods to Coq definitions over R.

Driven entirely by a per-property table (see translate/c07_spec.py); nothing about a particular property is
hard-wired here.  Every AST node / call / name the tables do not cover raises TranslatorGap - nothing is skipped.

Emitted mini-language (simultaneously valid Coq and a trivially parseable S-expression):
    e ::= x | <nat literal> | (Ropp e) | (Rplus e e) | (Rminus e e) | (Rmult e e) | (Rdiv e e)
        | (pow10 e) | (log10 e) | (sqrt e) | (pow e n%nat) | (f e ... e)        f: a previously emitted definition
    Definition f (p1 ... pk : R) : R := e.
`let`s of the source are inlined (the functions are pure).  `evaluate()` below is the independent ~30-line
interpreter of the EMITTED TEXT used for the translator self-test.

Table format (all keys of a function entry):
    file, qual       source file (relative to the repo) and qualified name 'f' or 'Class.f' (the LAST definition wins, as in Python)
    coq              name of the emitted definition
    params           Coq parameters, in order: Python parameter names and/or abstract names introduced by `subst`
    subst            {python source text (ast.unparse form): abstract Coq parameter}, e.g. {'self.get_sens(frequency)': 'sens'}
    calls            {python callee text: coq name of an earlier entry}, e.g. {'util.db': 'util_db'} (merged over spec['calls'])
    ignore_params    Python parameters that must NOT occur in the result (self, cls, frequency, kwargs ...)
    result           'return' (default) or {'ctor': 'cls', 'kw': 'sensitivity', 'pos': 0}: the function must return
                     cls(...) and the value is that constructor argument
    ignore_kw        keyword names that may be dropped at constructor / translated calls (reference=, attrs= ...)
Spec-level keys: functions, calls, identity_calls, identity_with, prims, broadcast_calls, shape_tests, header.
"""
import ast
import os
import re
from fractions import Fraction

COQ_KEYWORDS = {'as', 'at', 'cofix', 'else', 'end', 'exists', 'fix', 'forall', 'fun', 'if', 'in', 'let', 'match', 'mod',
                'return', 'then', 'using', 'where', 'with', 'Prop', 'Set', 'Type', 'R', 'pow', 'sqrt', 'log10', 'pow10',
                'Rplus', 'Rminus', 'Rmult', 'Rdiv', 'Ropp'}
BINOPS = {ast.Add: 'Rplus', ast.Sub: 'Rminus', ast.Mult: 'Rmult', ast.Div: 'Rdiv'}


class TranslatorGap(Exception):
    """The source contains something the tables do not cover: the check must fail, never skip."""


def gap(node, why, fn=None):
    where = f' (line {node.lineno})' if hasattr(node, 'lineno') else ''
    src = ast.unparse(node) if isinstance(node, ast.AST) else str(node)
    raise TranslatorGap(f'{fn or ""}{where}: {why}: `{src[:120]}`')


def find_def(tree, qual):
    """Last definition of 'f' or 'Class.f' at module level (Python semantics: later definitions replace earlier)."""
    parts = qual.split('.')
    body = tree.body
    for cls in parts[:-1]:
        found = [n for n in body if isinstance(n, ast.ClassDef) and n.name == cls]
        if not found:
            raise TranslatorGap(f'class {cls} not found for {qual}')
        body = found[-1].body
    found = [n for n in body if isinstance(n, ast.FunctionDef) and n.name == parts[-1]]
    if not found:
        raise TranslatorGap(f'function {qual} not found')
    return found[-1], len(found)


class Fn:
    def __init__(self, entry, node, src, ndefs):
        self.e, self.node, self.src, self.ndefs = entry, node, src, ndefs
        a = node.args
        if a.posonlyargs or a.kwonlyargs or a.vararg:
            gap(node, 'unsupported parameter kinds', entry['qual'])
        self.pyparams = [x.arg for x in a.args]
        self.kwargs = a.kwarg.arg if a.kwarg else None
        nd = len(a.defaults)
        self.defaults = dict(zip(self.pyparams[len(self.pyparams) - nd:], a.defaults))
        self.ir = None


class Translator:
    def __init__(self, repo, spec):
        self.repo, self.spec = repo, spec
        self.fns = {}        # coq name -> Fn
        self.trees = {}

    # ---- expressions ------------------------------------------------------------------------------------------
    def num(self, node, fn):
        v = node.value
        if isinstance(v, bool) or not isinstance(v, (int, float)):
            gap(node, 'non-numeric constant', fn.e['qual'])
        txt = ast.get_source_segment(fn.src, node)
        try:
            q = Fraction(txt.replace('_', ''))       # the decimal literal as written: 20e-6 is exactly 1/50000
        except (ValueError, TypeError, AttributeError):
            gap(node, 'cannot read numeric literal exactly', fn.e['qual'])
        if float(q) != float(v):
            gap(node, 'literal text and value disagree', fn.e['qual'])
        return ('num', q)

    def tr(self, node, fn, env):
        e, S = fn.e, self.spec
        text = ast.unparse(node)
        if text in e.get('subst', {}):
            return ('var', e['subst'][text])
        if isinstance(node, ast.Constant):
            return self.num(node, fn)
        if isinstance(node, ast.Name):
            if node.id in env:
                return env[node.id]
            if node.id in e['params'] and node.id in fn.pyparams:
                return ('var', node.id)
            gap(node, 'name is neither a local, a translated parameter nor in the substitution table', e['qual'])
        if isinstance(node, ast.BinOp):
            if type(node.op) in BINOPS:
                return (BINOPS[type(node.op)], self.tr(node.left, fn, env), self.tr(node.right, fn, env))
            if isinstance(node.op, ast.Pow):
                if isinstance(node.left, ast.Constant) and self.num(node.left, fn) == ('num', Fraction(10)):
                    return ('pow10', self.tr(node.right, fn, env))
                if isinstance(node.right, ast.Constant) and isinstance(node.right.value, int) \
                        and not isinstance(node.right.value, bool) and 0 <= node.right.value <= 64:
                    return ('pow', self.tr(node.left, fn, env), ('nat', node.right.value))
                gap(node, '** only with constant base 10 or a small constant natural exponent', e['qual'])
            gap(node, 'unsupported binary operator', e['qual'])
        if isinstance(node, ast.UnaryOp):
            if isinstance(node.op, ast.USub):
                return ('Ropp', self.tr(node.operand, fn, env))
            if isinstance(node.op, ast.UAdd):
                return self.tr(node.operand, fn, env)
            gap(node, 'unsupported unary operator', e['qual'])
        if isinstance(node, ast.Call):
            return self.call(node, fn, env)
        gap(node, f'unsupported expression node {type(node).__name__}', e['qual'])

    def call(self, node, fn, env):
        e, S = fn.e, self.spec
        name = ast.unparse(node.func)
        if name in S.get('identity_calls', ()):
            if len(node.args) != 1 or node.keywords:
                gap(node, 'identity wrapper with unexpected arguments', e['qual'])
            return self.tr(node.args[0], fn, env)
        if name in S.get('prims', {}):
            if len(node.args) != 1 or node.keywords:
                gap(node, 'primitive with unexpected arguments', e['qual'])
            return (S['prims'][name], self.tr(node.args[0], fn, env))
        if name in S.get('broadcast_calls', {}):
            kw, allowed = S['broadcast_calls'][name]
            vals = [k for k in node.keywords if k.arg == kw]
            if len(vals) != 1 or any(k.arg is None or (k.arg != kw and k.arg not in allowed) for k in node.keywords) \
                    or len(node.args) != 1:
                gap(node, 'broadcast helper with unexpected arguments', e['qual'])
            return self.tr(vals[0].value, fn, env)
        calls = dict(S.get('calls', {}))
        calls.update(e.get('calls', {}))
        if name in calls:
            return self.tcall(node, calls[name], fn, env, bound=(name.split('.')[0] in ('self', 'cls')))
        gap(node, 'call to a function that is not in the tables', e['qual'])

    def tcall(self, node, coqname, fn, env, bound):
        """Call of an already translated function g: bind actuals to g's Python parameters (defaults from g's own
        source), then build g's Coq arguments; abstract parameters of g are resolved through the caller's table."""
        e = fn.e
        if coqname not in self.fns:
            gap(node, f'callee {coqname} must be listed before its caller', e['qual'])
        g = self.fns[coqname]
        gp = g.pyparams[1:] if (bound and g.pyparams and g.pyparams[0] in ('self', 'cls')) else list(g.pyparams)
        actual = {}
        if len(node.args) > len(gp) or any(isinstance(a, ast.Starred) for a in node.args):
            gap(node, 'too many / starred positional arguments', e['qual'])
        for p, a in zip(gp, node.args):
            actual[p] = a
        ign = set(e.get('ignore_kw', ())) | set(g.e.get('ignore_kw', ()))
        for k in node.keywords:
            if k.arg is None:
                if not (isinstance(k.value, ast.Name) and k.value.id == fn.kwargs and g.kwargs):
                    gap(node, '** argument that is not a pass-through of **kwargs', e['qual'])
                continue
            if k.arg in gp and k.arg not in actual:
                actual[k.arg] = k.value
            elif k.arg in ign and g.kwargs:
                continue
            else:
                gap(node, f'unexpected keyword {k.arg}', e['qual'])
        args = []
        for cp in g.e['params']:
            if cp in gp:
                if cp in actual:
                    args.append(self.tr(actual[cp], fn, env))
                elif cp in g.defaults:
                    args.append(self.num(g.defaults[cp], g))
                else:
                    gap(node, f'missing argument {cp}', e['qual'])
            else:
                pats = [p for p, v in g.e.get('subst', {}).items() if v == cp]
                if len(pats) != 1:
                    gap(node, f'abstract parameter {cp} of {coqname} has no unique pattern', e['qual'])
                pt = ast.parse(pats[0], mode='eval').body

                class Sub(ast.NodeTransformer):
                    def visit_Name(s, n):
                        if n.id in gp:
                            if n.id not in actual:
                                gap(node, f'pattern of {cp} needs argument {n.id}', e['qual'])
                            return actual[n.id]
                        return n
                rew = ast.unparse(Sub().visit(pt))
                if rew not in e.get('subst', {}):
                    gap(node, f'abstract parameter {cp} of {coqname} = `{rew}` is not in the caller\'s table', e['qual'])
                args.append(('var', e['subst'][rew]))
        return ('call', coqname, tuple(args))

    # ---- statements -------------------------------------------------------------------------------------------
    def block(self, stmts, fn, env):
        """Returns the AST node of the returned expression together with the environment at that point."""
        S, e = self.spec, fn.e
        stmts = list(stmts)
        for i, st in enumerate(stmts):
            if isinstance(st, ast.Expr) and isinstance(st.value, ast.Constant) and isinstance(st.value.value, str):
                continue                                  # docstring
            if isinstance(st, ast.Assign):
                if len(st.targets) != 1 or not isinstance(st.targets[0], ast.Name):
                    gap(st, 'only single-name assignments', e['qual'])
                t = st.targets[0].id
                if t in e.get('ignore_params', ()):
                    if self._is_identity_of(st.value, t):
                        continue                          # frequency = np.asarray(frequency) on an ignored parameter
                    gap(st, 'assignment to a parameter declared ignorable', e['qual'])
                v = self.tr(st.value, fn, env)
                if v == ('var', t):
                    continue                              # x = as_numeric(x)
                env = dict(env)
                env[t] = v
                continue
            if isinstance(st, ast.With):
                for it in st.items:
                    if it.optional_vars is not None or not isinstance(it.context_expr, ast.Call) or \
                            ast.unparse(it.context_expr.func) not in S.get('identity_with', ()):
                        gap(st, 'with-block that is not a declared identity wrapper', e['qual'])
                if i != len(stmts) - 1:
                    gap(st, 'statements after a with-block', e['qual'])
                return self.block(st.body, fn, env)
            if isinstance(st, ast.Return):
                if st.value is None or i != len(stmts) - 1:
                    gap(st, 'bare return or statements after return', e['qual'])
                return ('ret', st.value, env)
            if isinstance(st, ast.If):
                if not (isinstance(st.test, ast.Call) and ast.unparse(st.test.func) in S.get('shape_tests', ())):
                    gap(st, 'if-statement whose test is not a declared shape test', e['qual'])
                a = self.value(self.block(st.body, fn, env), fn)
                rest = st.orelse if st.orelse else stmts[i + 1:]
                if st.orelse and i != len(stmts) - 1:
                    gap(st, 'statements after if/else', e['qual'])
                b = self.value(self.block(rest, fn, env), fn)
                if a != b:
                    gap(st, 'the two shape branches do not compute the same pointwise value', e['qual'])
                return ('ir', a)
            gap(st, f'unsupported statement {type(st).__name__}', e['qual'])
        gap(fn.node, 'function falls off its end without return', e['qual'])

    def _is_identity_of(self, node, name):
        return isinstance(node, ast.Call) and ast.unparse(node.func) in self.spec.get('identity_calls', ()) and \
            len(node.args) == 1 and isinstance(node.args[0], ast.Name) and node.args[0].id == name and not node.keywords

    def value(self, ret, fn):
        if ret[0] == 'ir':
            return ret[1]
        _, node, env = ret
        e = fn.e
        res = e.get('result', 'return')
        if res == 'return':
            return self.tr(node, fn, env)
        if not isinstance(node, ast.Call):
            gap(node, 'constructor-style function must return a call', e['qual'])
        name = ast.unparse(node.func)
        if name != res['ctor']:
            return self.call(node, fn, env)               # delegation to another translated constructor
        chosen = None
        for j, a in enumerate(node.args):
            if j == res.get('pos'):
                chosen = a
            elif not (isinstance(a, ast.Name) and a.id in e.get('ignore_params', ())):
                gap(node, f'positional constructor argument {j} is not ignorable', e['qual'])
        for k in node.keywords:
            if k.arg is None:
                if not (isinstance(k.value, ast.Name) and k.value.id == fn.kwargs):
                    gap(node, 'unexpected ** argument', e['qual'])
            elif k.arg == res['kw']:
                if chosen is not None:
                    gap(node, 'constructor argument given twice', e['qual'])
                chosen = k.value
            elif k.arg in e.get('ignore_kw', ()):
                pass
            elif isinstance(k.value, ast.Name) and k.value.id == k.arg and k.arg in e.get('ignore_params', ()):
                pass                                      # frequency=frequency
            else:
                gap(node, f'unexpected constructor keyword {k.arg}', e['qual'])
        if chosen is None:
            gap(node, f'constructor argument {res["kw"]} not found', e['qual'])
        return self.tr(chosen, fn, env)

    # ---- driver -----------------------------------------------------------------------------------------------
    def check_ctor_positions(self, entry, tree):
        """For result={'ctor':..,'pos':p,'init_of':[classes]}: every listed class takes `kw` as its p-th __init__ argument."""
        res = entry.get('result')
        if isinstance(res, dict):
            for cls in res.get('init_of', ()):
                node, _ = find_def(tree, cls + '.__init__')
                names = [a.arg for a in node.args.args][1:]
                if res['kw'] not in names or names.index(res['kw']) != res['pos']:
                    raise TranslatorGap(f'{cls}.__init__ does not take {res["kw"]} at position {res["pos"]}: {names}')

    def run(self):
        notes = []
        for entry in self.spec['functions']:
            path = os.path.join(self.repo, entry['file'])
            if path not in self.trees:
                src = open(path).read()
                self.trees[path] = (ast.parse(src), src)
            tree, src = self.trees[path]
            node, ndefs = find_def(tree, entry['qual'])
            fn = Fn(entry, node, src, ndefs)
            if ndefs > 1:
                notes.append(f'{entry["qual"]}: {ndefs} definitions in the source, the last one (line {node.lineno}) is in force')
            for p in entry['params']:
                if p in COQ_KEYWORDS or not re.fullmatch(r'[A-Za-z_][A-Za-z0-9_]*', p):
                    raise TranslatorGap(f'{entry["qual"]}: parameter name {p} is not usable in Coq')
            known = set(fn.pyparams) | ({fn.kwargs} if fn.kwargs else set())
            for p in entry.get('ignore_params', ()):
                if p not in known:
                    raise TranslatorGap(f'{entry["qual"]}: ignore_params names {p}, which is not a parameter')
            for p in fn.pyparams:
                if p not in entry['params'] and p not in entry.get('ignore_params', ()):
                    raise TranslatorGap(f'{entry["qual"]}: Python parameter {p} is neither translated nor declared ignorable')
            self.check_ctor_positions(entry, tree)
            fn.ir = self.value(self.block(node.body, fn, {}), fn)
            free = set()
            _free(fn.ir, free)
            if not free <= set(entry['params']):
                raise TranslatorGap(f'{entry["qual"]}: free names {sorted(free - set(entry["params"]))}')
            self.fns[entry['coq']] = fn
        return notes

    def emit(self):
        out = []
        for name, fn in self.fns.items():
            ps = fn.e['params']
            sig = f' ({" ".join(ps)} : R)' if ps else ''
            out.append(f'(* {fn.e["file"]}:{fn.node.lineno}  {fn.e["qual"]} *)')
            out.append(f'Definition {name}{sig} : R :=\n  {show(fn.ir)}.')
        return '\n'.join(out) + '\n'


def _free(ir, acc):
    if ir[0] == 'var':
        acc.add(ir[1])
    elif ir[0] == 'call':
        for a in ir[2]:
            _free(a, acc)
    elif ir[0] not in ('num', 'nat'):
        for a in ir[1:]:
            _free(a, acc)


def show(ir):
    k = ir[0]
    if k == 'var':
        return ir[1]
    if k == 'nat':
        return f'{ir[1]}%nat'
    if k == 'num':
        q = ir[1]
        n = str(abs(q.numerator)) if q.denominator == 1 else f'(Rdiv {abs(q.numerator)} {q.denominator})'
        return f'(Ropp {n})' if q < 0 else n
    if k == 'call':
        return '(' + ' '.join([ir[1]] + [show(a) for a in ir[2]]) + ')' if ir[2] else ir[1]
    return '(' + ' '.join([k] + [show(a) for a in ir[1:]]) + ')'


def translate(repo, spec):
    """Returns (coq_text_of_definitions, info).  Raises TranslatorGap."""
    t = Translator(repo, spec)
    notes = t.run()
    return t.emit(), {'functions': [f'{fn.e["qual"]} -> {n}' for n, fn in t.fns.items()], 'notes': notes}


# ---- independent interpreter of the EMITTED TEXT (translator self-test) ----------------------------------------------
DEF_RE = re.compile(r'^Definition (\w+)(?: \(([\w ]+) : R\))? : R :=\s*(.*?)\.$', re.M | re.S)


def parse_defs(text):
    """{name: (params, sexpr)} from emitted Coq text."""
    defs = {}
    for name, ps, body in DEF_RE.findall(text):
        toks = re.findall(r'[()]|[^\s()]+', body)

        def rd(i):
            if toks[i] == '(':
                lst, i = [], i + 1
                while toks[i] != ')':
                    x, i = rd(i)
                    lst.append(x)
                return lst, i + 1
            return toks[i], i + 1
        sx, j = rd(0)
        assert j == len(toks), (name, body)
        defs[name] = (ps.split() if ps else [], sx)
    return defs


def evaluate(defs, name, args, np):
    """Evaluate definition `name` on floats / numpy arrays."""
    prim = {'Rplus': lambda a, b: a + b, 'Rminus': lambda a, b: a - b, 'Rmult': lambda a, b: a * b,
            'Rdiv': lambda a, b: a / b, 'Ropp': lambda a: -a, 'pow10': lambda a: 10.0 ** a, 'log10': np.log10,
            'sqrt': np.sqrt, 'pow': lambda a, n: a ** n}

    def ev(sx, env):
        if isinstance(sx, str):
            if sx in env:
                return env[sx]
            if sx.endswith('%nat'):
                return int(sx[:-4])
            if sx.isdigit():
                return float(sx)
            return app(sx, [])
        return app(sx[0], [ev(a, env) for a in sx[1:]])

    def app(f, vals):
        if f in prim:
            return prim[f](*vals)
        ps, body = defs[f]
        assert len(ps) == len(vals), f
        return ev(body, dict(zip(ps, vals)))
    return app(name, list(args))
