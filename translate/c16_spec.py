"""Whitelist table for property C16 (spectral and level utilities): which scalar expressions of psiaudio/util.py are
translated to coq/gen/UtilExprGen.v by translate/pyexpr2coq_ext.py, and how each emitted definition is probed
numerically against the real function (translator self-test).  Table format: pyexpr2coq.__doc__ + pyexpr2coq_ext.__doc__.

What is translated: the dB helpers in full; of csd / csd_to_signal / tone_conv / tone_power_conv / rms / rms_rfft the SCALAR
scale expression only (the value of `scale`, the per-sample value of `r`, the final division / square root).  The array
code around it (rfft, irfft, mean over the last axis, detrending, windowing, reshaping in psd) is pinned textually where it
uses the translated value (return_text) and otherwise covered by the numeric correspondence of harness/C16.py."""

UTIL = 'psiaudio/util.py'

SPEC = {
    'out': 'gen/UtilExprGen.v',
    'header': ('From Coq Require Import Reals.\nFrom PV Require Import Calib.RBase.\nOpen Scope R_scope.\n'),
    'identity_calls': ['as_numeric', 'util.as_numeric', 'np.asarray', 'np.asanyarray'],
    'identity_with': ['np.errstate'],
    'identity_subscripts': ['frequency_shape'],       # frequency[..., newaxis * ndim]: broadcasting only
    'prims': {'np.log10': 'log10', 'np.sqrt': 'sqrt', 'np.cos': 'cos', 'np.sin': 'sin'},
    'consts': {'np.pi': 'PI'},
    'cexp_calls': ['np.exp'],
    'allowed_decorators': [],
    'calls': {'db': 'u_db', 'dbi': 'u_dbi'},
    'functions': [
        dict(file=UTIL, qual='db', coq='u_db', params=['target', 'reference']),
        dict(file=UTIL, qual='dbi', coq='u_dbi', params=['db', 'reference']),
        dict(file=UTIL, qual='dbtopa', coq='u_dbtopa', params=['db']),
        dict(file=UTIL, qual='patodb', coq='u_patodb', params=['pa']),
        dict(file=UTIL, qual='spectrum_to_band_level', coq='u_spectrum_to_band_level', params=['spectrum_db', 'n']),
        dict(file=UTIL, qual='band_to_spectrum_level', coq='u_band_to_spectrum_level', params=['band_db', 'n']),
        # csd: rfft(s) * scale, scale = 2 / n / sqrt 2 with n = s.shape[-1]
        dict(file=UTIL, qual='csd', coq='csd_scale', params=['n'], mode='slice', target='scale',
             subst={'s.shape[-1]': 'n'}, ignore_params=['s', 'window', 'detrend'],
             return_text='np.fft.rfft(s, axis=-1) * scale'),
        # csd_to_signal: irfft(csd / scale), scale from the number of bins
        dict(file=UTIL, qual='csd_to_signal', coq='csd_to_signal_scale', params=['nbins'], mode='slice', target='scale',
             subst={'np.shape(csd)[-1]': 'nbins'}, ignore_params=['csd'],
             return_text='np.fft.irfft(csd / scale, axis=-1)'),
        # tone_conv: mean over the samples of r = 2 s exp(-j 2 pi t f), t = i / fs; no detrending, no window
        dict(file=UTIL, qual='tone_conv', coq='tone_conv_re', params=['s', 'i', 'fs', 'frequency'], mode='slice',
             target='r', part='re', subst={'np.arange(n)': 'i'}, ignore_params=['window', 'detrend'],
             assume={'detrend is not None': False, 'window is not None': False},
             return_text='np.mean(r, axis=-1)'),
        dict(file=UTIL, qual='tone_conv', coq='tone_conv_im', params=['s', 'i', 'fs', 'frequency'], mode='slice',
             target='r', part='im', subst={'np.arange(n)': 'i'}, ignore_params=['window', 'detrend'],
             assume={'detrend is not None': False, 'window is not None': False},
             return_text='np.mean(r, axis=-1)'),
        # tone_power_conv: |tone_conv| / sqrt 2
        dict(file=UTIL, qual='tone_power_conv', coq='tone_power_of_abs', params=['absr'], mode='slice',
             subst={'np.abs(r)': 'absr'}, ignore_params=['s', 'fs', 'frequency', 'window', 'detrend']),
        # rms (no detrending): square root of the mean square;  rms_rfft: square root of the summed squared magnitudes
        dict(file=UTIL, qual='rms', coq='rms_of_meansq', params=['meansq'], mode='slice',
             subst={'np.mean(s ** 2.0, axis=axis)': 'meansq'}, ignore_params=['s', 'detrend', 'axis'],
             assume={'detrend': False}),
        dict(file=UTIL, qual='rms_rfft', coq='rms_rfft_of_sumsq', params=['sumsq'], mode='slice',
             subst={'np.sum(np.abs(x) ** 2, axis=axis)': 'sumsq'}, ignore_params=['x']),
    ],
}

# Argument domains for the self-test
DOMAIN = {'target': 'pos', 'reference': 'pos', 'pa': 'pos', 'n': 'count', 'nbins': 'bins', 'absr': 'pos',
          'meansq': 'pos', 'sumsq': 'pos', 'fs': 'pos', 'frequency': 'pos', 'i': 'index'}


def probes():
    """{coq name: callable(**kwargs of the Coq parameters) -> value computed by the REAL psiaudio code}."""
    from psiaudio import util
    import numpy as np

    def csd_scale(n):
        n = int(n)
        x = np.cos(np.arange(n) * 0.7) + 0.3
        k = 1 if n > 2 else 0
        return float(np.real(util.csd(x, detrend=None)[k] / np.fft.rfft(x)[k]))

    def csd_to_signal_scale(nbins):
        nbins = int(nbins)
        c = (np.arange(nbins) + 1.0) * np.exp(1j * np.arange(nbins))
        c[0] = c[0].real
        c[-1] = c[-1].real
        x = util.csd_to_signal(c)
        return float(np.real(c[1] / np.fft.rfft(x)[1]))

    def one_hot(s, i, n):
        x = np.zeros(n)
        x[int(i)] = s
        return x

    def tone_conv_part(part):
        def f(s, i, fs, frequency):
            n = int(i) + 3
            r = util.tone_conv(one_hot(s, i, n), fs, frequency, detrend=None) * n
            return float(getattr(r, part))
        return f

    def power_of_abs(absr):
        # a one-sample signal x: tone_conv = 2 x exp(0) -> |r| = 2 |x|
        return float(util.tone_power_conv(np.array([absr / 2.0]), 1.0, 0.0, detrend=None))

    return {
        'u_db': lambda target, reference: util.db(target, reference),
        'u_dbi': lambda db, reference: util.dbi(db, reference),
        'u_dbtopa': lambda db: util.dbtopa(db),
        'u_patodb': lambda pa: util.patodb(pa),
        'u_spectrum_to_band_level': lambda spectrum_db, n: util.spectrum_to_band_level(spectrum_db, n),
        'u_band_to_spectrum_level': lambda band_db, n: util.band_to_spectrum_level(band_db, n),
        'csd_scale': csd_scale,
        'csd_to_signal_scale': csd_to_signal_scale,
        'tone_conv_re': tone_conv_part('real'),
        'tone_conv_im': tone_conv_part('imag'),
        'tone_power_of_abs': power_of_abs,
        'rms_of_meansq': lambda meansq: float(util.rms(np.array([np.sqrt(meansq), -np.sqrt(meansq)]))),
        'rms_rfft_of_sumsq': lambda sumsq: float(util.rms_rfft(np.array([np.sqrt(sumsq / 2), 1j * np.sqrt(sumsq / 2)]))),
    }
