"""pylocks2coq - fail-closed `ast` translator: class SignalBuffer -> coq/gen/BufferLockGen.v  (property C15).

For every method: its statement list; per statement the self._x fields read / written, the self.<method>
calls made (in source order), with `with self._lock:` blocks and if/else structure kept.  Whatever cannot be
classified becomes an `SOpaque` statement, which the Coq side (`Conc/Lang.v: den`) turns into the node `Bad`
that no lock discipline accepts - so the obligation C15_current_source fails instead of something being skipped.

Classification rules (conservative: when in doubt a field counts as WRITTEN):
  self._x  in Load context                       -> read  _x
  self._x = ..  /  self._x op= ..                -> write _x (op= also read)
  self._x[...] = .. / self._x.attr = .. (targets) -> write _x (and read)
  self._x.meth(...)                              -> write _x (the call may mutate the object) and read
  f(.., self._x, ..) with f not a self-method     -> write _x (the callee may mutate the object) and read
  self.m(...) with m a method of the class        -> call m
  `self` in any other position (bare, getattr(self,..), passed on), a method used without being called,
  lambda / nested def / class / generator expression / yield / await / super / locals / globals / eval / exec /
  vars / setattr / delattr / dunder attributes, `del`, loops, try, other `with` items, decorators, base classes,
  class-level statements other than `def` and a docstring      -> SOpaque
"""
import ast
import hashlib
import os
import re

CLASS = 'SignalBuffer'
RELPATH = os.path.join('psiaudio', 'buffer.py')
FORBIDDEN_NAMES = {'super', 'locals', 'globals', 'eval', 'exec', 'vars', 'setattr', 'delattr', 'getattr',
                   '__import__', 'compile'}


class Opaque(Exception):
    pass


def _is_self_attr(n):
    return isinstance(n, ast.Attribute) and isinstance(n.value, ast.Name) and n.value.id == 'self'


def _root_field(n):
    """self._x, self._x[..], self._x.a.b[..]  ->  '_x' ; else None."""
    while isinstance(n, (ast.Subscript, ast.Attribute, ast.Starred)) and not _is_self_attr(n):
        n = n.value
    return n.attr if _is_self_attr(n) else None


class _Expr:
    """Field/call classification of the expressions evaluated by ONE statement."""

    def __init__(self, methods):
        self.methods = methods
        self.reads, self.writes, self.calls = [], [], []   # calls: (lineno, col, name)

    def add(self, lst, x):
        if x not in lst:
            lst.append(x)

    def target(self, t):
        if isinstance(t, (ast.Tuple, ast.List)):
            for e in t.elts:
                self.target(e)
            return
        if isinstance(t, ast.Starred):
            return self.target(t.value)
        if isinstance(t, ast.Name):
            if t.id == 'self':
                raise Opaque('self is rebound')
            return
        f = _root_field(t)
        if f is not None:
            if f in self.methods:
                raise Opaque(f'assignment to method attribute {f}')
            self.add(self.writes, f)
        self.visit(t)      # index expressions, and the load of the container

    def visit(self, n, parent_call=None):
        if isinstance(n, (ast.Lambda, ast.FunctionDef, ast.AsyncFunctionDef, ast.ClassDef, ast.GeneratorExp,
                          ast.Yield, ast.YieldFrom, ast.Await, ast.NamedExpr)):
            raise Opaque(type(n).__name__)
        if isinstance(n, ast.Name):
            if n.id == 'self':
                raise Opaque('bare self')
            if n.id in FORBIDDEN_NAMES:
                raise Opaque(f'use of {n.id}')
            return
        if _is_self_attr(n):
            x = n.attr
            if x.startswith('__') and x.endswith('__'):
                raise Opaque(f'dunder attribute {x}')
            if x in self.methods:
                if parent_call is None or parent_call.func is not n:
                    raise Opaque(f'method {x} used without being called')
                self.calls.append((n.lineno, n.col_offset, x))
                return
            if isinstance(n.ctx, ast.Del):
                raise Opaque(f'del self.{x}')
            if isinstance(n.ctx, ast.Store):
                self.add(self.writes, x)
            else:
                self.add(self.reads, x)
            return
        if isinstance(n, ast.Call):
            selfcall = _is_self_attr(n.func) and n.func.attr in self.methods
            if not selfcall:
                f = _root_field(n.func) if isinstance(n.func, ast.Attribute) else None
                if f is not None and not _is_self_attr(n.func):
                    self.add(self.writes, f)           # self._x.meth(...) may mutate _x
                for a in list(n.args) + [k.value for k in n.keywords]:
                    g = _root_field(a)
                    if g is not None and g not in self.methods:
                        self.add(self.writes, g)       # f(self._x) may mutate _x
            self.visit(n.func, parent_call=n)
            for a in n.args:
                self.visit(a)
            for k in n.keywords:
                self.visit(k.value)
            return
        for c in ast.iter_child_nodes(n):
            self.visit(c)


def _stmt(s, methods):
    """-> nested tuple form of one statement."""
    ln = s.lineno
    try:
        e = _Expr(methods)
        if isinstance(s, ast.Expr):
            if isinstance(s.value, ast.Constant):
                return None                              # docstring / bare constant: no effect
            e.visit(s.value)
            kind = 'KPlain'
        elif isinstance(s, ast.Assign):
            for t in s.targets:
                e.target(t)
            e.visit(s.value)
            kind = 'KPlain'
        elif isinstance(s, ast.AugAssign):
            e.target(s.target)
            f = _root_field(s.target)
            if f is not None:
                e.add(e.reads, f)
            e.visit(s.value)
            kind = 'KPlain'
        elif isinstance(s, ast.AnnAssign):
            e.target(s.target)
            if s.value is not None:
                e.visit(s.value)
            kind = 'KPlain'
        elif isinstance(s, ast.Return):
            if s.value is not None:
                e.visit(s.value)
            kind = 'KReturn'
        elif isinstance(s, ast.Raise):
            for v in (s.exc, s.cause):
                if v is not None:
                    e.visit(v)
            kind = 'KRaise'
        elif isinstance(s, ast.Assert):
            e.visit(s.test)
            if s.msg is not None:
                e.visit(s.msg)
            kind = 'KPlain'
        elif isinstance(s, ast.Pass):
            kind = 'KPlain'
        elif isinstance(s, ast.If):
            e.visit(s.test)
            calls = [c[2] for c in sorted(e.calls)]
            return ('if', ln, e.reads, e.writes, calls, _block(s.body, methods), _block(s.orelse, methods))
        elif isinstance(s, ast.With):
            if len(s.items) != 1 or s.items[0].optional_vars is not None:
                raise Opaque('with: not exactly `with self._lock:`')
            ce = s.items[0].context_expr
            if not (_is_self_attr(ce) and ce.attr == '_lock'):
                raise Opaque('with: context is not self._lock')
            return ('with', ln, _block(s.body, methods))
        else:
            raise Opaque('statement ' + type(s).__name__)
        calls = [c[2] for c in sorted(e.calls)]
        return ('stmt', ln, e.reads, e.writes, calls, kind)
    except Opaque as ex:
        return ('opaque', ln, str(ex))


def _block(stmts, methods):
    out = []
    for s in stmts:
        r = _stmt(s, methods)
        if r is not None:
            out.append(r)
    return out


def parse(repo):
    """-> (table, sha256).  table: list of (method name, block)."""
    path = os.path.join(repo, RELPATH)
    src = open(path).read()
    sha = hashlib.sha256(src.encode()).hexdigest()
    tree = ast.parse(src)
    classes = [n for n in ast.walk(tree) if isinstance(n, ast.ClassDef) and n.name == CLASS]
    if len(classes) != 1:
        return [('translator_abort', [('opaque', 0, f'{len(classes)} classes named {CLASS}')])], sha
    cls = classes[0]
    table = []
    problems = []
    if cls.bases or cls.keywords or cls.decorator_list:
        problems.append(('opaque', cls.lineno, 'class has bases, keywords or decorators'))
    defs = []
    for item in cls.body:
        if isinstance(item, ast.FunctionDef):
            defs.append(item)
        elif isinstance(item, ast.Expr) and isinstance(item.value, ast.Constant):
            pass
        else:
            problems.append(('opaque', item.lineno, 'class-level ' + type(item).__name__))
    methods = [d.name for d in defs]
    if len(set(methods)) != len(methods):
        problems.append(('opaque', cls.lineno, 'method defined twice'))
    # the lock must be created in __init__ by threading.RLock() and never be touched otherwise
    for d in defs:
        a = d.args
        ok_sig = (a.args and a.args[0].arg == 'self' and not a.posonlyargs)
        if d.decorator_list or not ok_sig:
            table.append((d.name, [('opaque', d.lineno, 'decorated method or first parameter is not self')]))
            continue
        names = [x.arg for x in a.args[1:] + a.kwonlyargs] + ([a.vararg.arg] if a.vararg else []) + \
                ([a.kwarg.arg] if a.kwarg else [])
        if 'self' in names:
            table.append((d.name, [('opaque', d.lineno, 'second parameter named self')]))
            continue
        body = []
        try:
            e = _Expr(methods)
            for dflt in list(a.defaults) + [k for k in a.kw_defaults if k is not None]:
                e.visit(dflt)
        except Opaque as ex:
            body.append(('opaque', d.lineno, 'default: ' + str(ex)))
        table.append((d.name, body + _block(d.body, methods)))
    if not _lock_is_rlock(defs):
        problems.append(('opaque', cls.lineno, '__init__ does not set self._lock = threading.RLock()'))
    if problems:
        table.append(('translator_abort', problems))
    return table, sha


def _lock_is_rlock(defs):
    for d in defs:
        if d.name != '__init__':
            continue
        for s in ast.walk(d):
            if isinstance(s, ast.Assign) and len(s.targets) == 1 and _is_self_attr(s.targets[0]) \
                    and s.targets[0].attr == '_lock' and isinstance(s.value, ast.Call) \
                    and ast.unparse(s.value.func) in ('threading.RLock', 'RLock') and not s.value.args:
                return True
    return False


# ---------------------------------------------------------------------------
def _q(s):
    return '"' + re.sub(r'[^A-Za-z0-9_ .,:=()\-]', '?', str(s)) + '"'


def _sl(xs):
    return '[' + '; '.join(_q(x) for x in xs) + ']'


def _emit_block(block, ind):
    pad = ' ' * ind
    items = []
    for st in block:
        k = st[0]
        if k == 'stmt':
            _, ln, r, w, c, kind = st
            items.append(f'{pad}SStmt {ln} {_sl(r)} {_sl(w)} {_sl(c)} {kind}')
        elif k == 'if':
            _, ln, r, w, c, t, e = st
            items.append(f'{pad}SIf {ln} {_sl(r)} {_sl(w)} {_sl(c)}\n{_emit_block(t, ind + 2)}\n{_emit_block(e, ind + 2)}')
        elif k == 'with':
            _, ln, b = st
            items.append(f'{pad}SWith {ln}\n{_emit_block(b, ind + 2)}')
        else:
            _, ln, why = st
            items.append(f'{pad}SOpaque {ln} {_q(why)}')
    if not items:
        return pad + '[]'
    return pad + '[\n' + ';\n'.join(items) + '\n' + pad + ']'


def emit(table, sha):
    out = ['(* GENERATED by translate/pylocks2coq.py from psiaudio/buffer.py (class SignalBuffer) - do not edit.',
           f'   source sha256 {sha} *)',
           'From Coq Require Import String ZArith List.',
           'From PV Require Import Conc.Lang.',
           'Import ListNotations.',
           'Open Scope string_scope.',
           'Open Scope Z_scope.',
           '',
           'Definition generated_methods : list method := [']
    ms = []
    for name, block in table:
        ms.append(f'  mkM {_q(name)}\n{_emit_block(block, 4)}')
    out.append(';\n'.join(ms))
    out.append('].')
    return '\n'.join(out) + '\n'


def flat(block):
    """own (non-transitive) reads, writes, calls, opaque reasons of a block"""
    r, w, c, o = set(), set(), [], []
    for st in block:
        k = st[0]
        if k == 'stmt':
            r |= set(st[2]); w |= set(st[3]); c += st[4]
        elif k == 'if':
            r |= set(st[2]); w |= set(st[3]); c += st[4]
            for b in (st[5], st[6]):
                r2, w2, c2, o2 = flat(b)
                r |= r2; w |= w2; c += c2; o += o2
        elif k == 'with':
            r.add('_lock')
            r2, w2, c2, o2 = flat(st[2])
            r |= r2; w |= w2; c += c2; o += o2
        else:
            o.append(f'line {st[1]}: {st[2]}')
    return r, w, c, o


def translate(repo, outdir):
    table, sha = parse(repo)
    text = emit(table, sha)
    os.makedirs(outdir, exist_ok=True)
    path = os.path.join(outdir, 'BufferLockGen.v')
    # always rewritten: the generated file is the model of the tree under test NOW
    with open(path, 'w') as f:
        f.write(text)
    mutable, opaque = set(), []
    for name, block in table:
        r, w, c, o = flat(block)
        if name != '__init__':
            mutable |= w
        opaque += [f'{name}: {x}' for x in o]
    return {'table': table, 'sha256': sha, 'path': path, 'mutable_fields': sorted(mutable), 'opaque': opaque,
            'methods': [n for n, _ in table]}


if __name__ == '__main__':
    import sys
    info = translate(sys.argv[1] if len(sys.argv) > 1 else '/repo',
                     sys.argv[2] if len(sys.argv) > 2 else os.path.join(os.path.dirname(__file__), '..', 'coq', 'gen'))
    print({k: v for k, v in info.items() if k != 'table'})
