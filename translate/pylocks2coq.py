"""pylocks2coq - fail-closed `ast` translator: class SignalBuffer -> coq/gen/BufferLockGen.v  (property C15).

For every method: its statement list; per statement the self._x fields read / written, the self.<method>
calls made (in source order), with `with self._lock:` blocks and if/else structure kept.  Whatever cannot be
classified becomes an `SOpaque` statement, which the Coq side (`Conc/Lang.v: den`) turns into the node `Bad`
that no lock discipline accepts - so the obligation C15_current_source fails instead of something being skipped.

Classification rules (conservative: when in doubt a field counts as WRITTEN):
  self._x  in Load context                       -> read  _x
  self._x = ..  /  self._x op= ..                -> write _x (op= also read)
  self._x[...] = .. / self._x.attr = .. (targets) -> write _x (and read)
  self._x.meth(...)                              -> write _x (the call may mutate the object) and read
  f(.., self._x, ..) with f not a self-method     -> write _x (the callee may mutate the object) and read
  self.m(...) with m a method of the class        -> call m
  ALIASES (flow-insensitive, per method, to a fixpoint over the class): a local name bound to an expression whose
  value may be (a view of / a reference to) the object held in self._x  -  self._x, self._x[..], self._x.attr, another
  alias, a conditional of those, a tuple/list of those, the result of a self-method whose `return` is such an expression,
  the result of a method call on / a foreign call with such an object (except .copy() .tolist() .item() and the scalar
  builtins int float len bool round abs str repr min max sum), a parameter that some call site in the class binds to such
  an expression  -  counts as _x wherever it is used: a load of the name is a read of _x; name[..] = / name.a = /
  name op= / name.meth() / f(name) are writes of _x.
  `self` in any other position (bare, getattr(self,..), passed on), a method used without being called,
  lambda / nested def / class / generator expression / yield / await / super / locals / globals / eval / exec /
  vars / setattr / delattr / dunder attributes, `del`, loops, try, other `with` items (a second lock, a local alias of
  the lock, `with self._lock, x:`, `with self._lock as l:`), decorators (properties, lock-wrapping decorators), base
  classes, class-level statements other than `def` and a docstring, definitions of __getattr__ / __getattribute__ /
  __setattr__ / __delattr__, any mention of the class name elsewhere in the module (monkey-patching, subclasses),
  a lock that is not created by `threading.RLock()` with `threading` being the imported module      -> SOpaque
"""
import ast
import hashlib
import os
import re

CLASS = 'SignalBuffer'
RELPATH = os.path.join('psiaudio', 'buffer.py')
FORBIDDEN_NAMES = {'super', 'locals', 'globals', 'eval', 'exec', 'vars', 'setattr', 'delattr', 'getattr',
                   '__import__', 'compile'}


class Opaque(Exception):
    pass


def _is_self_attr(n):
    return isinstance(n, ast.Attribute) and isinstance(n.value, ast.Name) and n.value.id == 'self'


def _root_field(n):
    """self._x, self._x[..], self._x.a.b[..]  ->  '_x' ; else None."""
    while isinstance(n, (ast.Subscript, ast.Attribute, ast.Starred)) and not _is_self_attr(n):
        n = n.value
    return n.attr if _is_self_attr(n) else None


SCALAR_BUILTINS = {'int', 'float', 'len', 'bool', 'round', 'abs', 'str', 'repr', 'min', 'max', 'sum'}
COPY_METHODS = {'copy', 'tolist', 'item'}


def _strip(n):
    while isinstance(n, (ast.Subscript, ast.Attribute, ast.Starred)) and not _is_self_attr(n):
        n = n.value
    return n


def _roots(n, env, ret, methods):
    """fields whose object the VALUE of expression n may reference / be a view of"""
    n = _strip(n)
    if _is_self_attr(n):
        return set() if n.attr in methods else {n.attr}
    if isinstance(n, ast.Name):
        return set(env.get(n.id, ()))
    if isinstance(n, ast.IfExp):
        return _roots(n.body, env, ret, methods) | _roots(n.orelse, env, ret, methods)
    if isinstance(n, ast.BoolOp):
        return set().union(*[_roots(v, env, ret, methods) for v in n.values])
    if isinstance(n, (ast.Tuple, ast.List, ast.Set)):
        return set().union(*[_roots(v, env, ret, methods) for v in n.elts]) if n.elts else set()
    if isinstance(n, ast.Call):
        f = n.func
        if _is_self_attr(f) and f.attr in methods:
            return set(ret.get(f.attr, ()))
        if isinstance(f, ast.Name) and f.id in SCALAR_BUILTINS:
            return set()
        out = set()
        if isinstance(f, ast.Attribute):
            if f.attr in COPY_METHODS:
                return set()
            out |= _roots(f.value, env, ret, methods)
        for a in list(n.args) + [k.value for k in n.keywords]:
            out |= _roots(a, env, ret, methods)
        return out
    return set()


def _weak(fields):
    """alias obtained through a parameter: '~_x'.  Explicit stores through it are writes of _x, loads are reads, but
    merely handing it to a foreign call / calling a method on it is not counted as a write (it is for a local alias)."""
    return {'~' + f.lstrip('~') for f in fields}


def _alias_analysis(defs, methods):
    """-> (env[m][name] = fields, ret[m] = fields) to a fixpoint"""
    env = {d.name: {} for d in defs}
    ret = {d.name: set() for d in defs}
    params = {}
    for d in defs:
        a = d.args
        params[d.name] = ([x.arg for x in a.posonlyargs + a.args][1:], [x.arg for x in a.kwonlyargs],
                          a.vararg.arg if a.vararg else None, a.kwarg.arg if a.kwarg else None)

    def add(m, name, fields):
        if not fields:
            return False
        cur = env[m].setdefault(name, set())
        if fields <= cur:
            return False
        cur |= fields
        return True

    changed = True
    while changed:
        changed = False
        for d in defs:
            m = d.name
            for n in ast.walk(d):
                if isinstance(n, (ast.Assign, ast.AnnAssign)) and n.value is not None:
                    targets = n.targets if isinstance(n, ast.Assign) else [n.target]
                    for t in targets:
                        if isinstance(t, ast.Name):
                            changed |= add(m, t.id, _roots(n.value, env[m], ret, methods))
                        elif isinstance(t, (ast.Tuple, ast.List)):
                            names = [e for e in ast.walk(t) if isinstance(e, ast.Name)]
                            if isinstance(n.value, (ast.Tuple, ast.List)) and len(n.value.elts) == len(t.elts) \
                                    and all(isinstance(e, ast.Name) for e in t.elts):
                                for e, v in zip(t.elts, n.value.elts):
                                    changed |= add(m, e.id, _roots(v, env[m], ret, methods))
                            else:
                                r = _roots(n.value, env[m], ret, methods)
                                for e in names:
                                    changed |= add(m, e.id, r)
                elif isinstance(n, ast.Return) and n.value is not None:
                    r = _roots(n.value, env[m], ret, methods)
                    if not r <= ret[m]:
                        ret[m] |= r
                        changed = True
                elif isinstance(n, ast.Call) and _is_self_attr(n.func) and n.func.attr in methods:
                    callee = n.func.attr
                    pos, kwo, va, kw = params[callee]
                    for i, a in enumerate(n.args):
                        r = _weak(_roots(a, env[m], ret, methods))
                        if isinstance(a, ast.Starred) or i >= len(pos):
                            for p in pos + ([va] if va else []):
                                changed |= add(callee, p, r)
                        else:
                            changed |= add(callee, pos[i], r)
                    for k in n.keywords:
                        r = _weak(_roots(k.value, env[m], ret, methods))
                        if k.arg is None or k.arg not in pos + kwo:
                            for p in pos + kwo + ([kw] if kw else []):
                                changed |= add(callee, p, r)
                        else:
                            changed |= add(callee, k.arg, r)
    return env, ret


class _Expr:
    """Field/call classification of the expressions evaluated by ONE statement."""

    def __init__(self, methods, env=None):
        self.methods = methods
        self.env = env or {}
        self.reads, self.writes, self.calls = [], [], []   # calls: (lineno, col, name)

    def alias_fields(self, n):
        """fields aliased by the local name at the root of a Subscript/Attribute chain (not the bare name)"""
        r = _strip(n)
        if isinstance(r, ast.Name) and r.id in self.env:
            return self.env[r.id]
        return ()

    def add(self, lst, x):
        if x not in lst:
            lst.append(x)

    def target(self, t):
        if isinstance(t, (ast.Tuple, ast.List)):
            for e in t.elts:
                self.target(e)
            return
        if isinstance(t, ast.Starred):
            return self.target(t.value)
        if isinstance(t, ast.Name):
            if t.id == 'self':
                raise Opaque('self is rebound')
            return
        for g in self.alias_fields(t):                   # alias[..] = .. / alias.attr = ..
            self.add(self.writes, g.lstrip('~'))
            self.add(self.reads, g.lstrip('~'))
        f = _root_field(t)
        if f is not None:
            if f in self.methods:
                raise Opaque(f'assignment to method attribute {f}')
            self.add(self.writes, f)
        self.visit(t)      # index expressions, and the load of the container

    def visit(self, n, parent_call=None):
        if isinstance(n, (ast.Lambda, ast.FunctionDef, ast.AsyncFunctionDef, ast.ClassDef, ast.GeneratorExp,
                          ast.Yield, ast.YieldFrom, ast.Await, ast.NamedExpr)):
            raise Opaque(type(n).__name__)
        if isinstance(n, ast.Name):
            if n.id == 'self':
                raise Opaque('bare self')
            if n.id in FORBIDDEN_NAMES:
                raise Opaque(f'use of {n.id}')
            if isinstance(n.ctx, ast.Load):
                for g in self.env.get(n.id, ()):
                    self.add(self.reads, g.lstrip('~'))
            return
        if _is_self_attr(n):
            x = n.attr
            if x.startswith('__') and x.endswith('__'):
                raise Opaque(f'dunder attribute {x}')
            if x in self.methods:
                if parent_call is None or parent_call.func is not n:
                    raise Opaque(f'method {x} used without being called')
                self.calls.append((n.lineno, n.col_offset, x))
                return
            if isinstance(n.ctx, ast.Del):
                raise Opaque(f'del self.{x}')
            if isinstance(n.ctx, ast.Store):
                self.add(self.writes, x)
            else:
                self.add(self.reads, x)
            return
        if isinstance(n, ast.Call):
            selfcall = _is_self_attr(n.func) and n.func.attr in self.methods
            scalar = isinstance(n.func, ast.Name) and n.func.id in SCALAR_BUILTINS
            if not selfcall and not scalar:
                if isinstance(n.func, ast.Attribute) and n.func.attr not in COPY_METHODS:
                    f = _root_field(n.func)
                    if f is not None and not _is_self_attr(n.func):
                        self.add(self.writes, f)       # self._x.meth(...) may mutate _x
                    for g in self.alias_fields(n.func):
                        if not g.startswith('~'):
                            self.add(self.writes, g)   # alias.meth(...) may mutate _x
                for a in list(n.args) + [k.value for k in n.keywords]:
                    g = _root_field(a)
                    if g is not None and g not in self.methods:
                        self.add(self.writes, g)       # f(self._x) may mutate _x
                    r = _strip(a)
                    if isinstance(r, ast.Name):
                        for g in self.env.get(r.id, ()):
                            if not g.startswith('~'):
                                self.add(self.writes, g)   # f(alias) may mutate _x
            self.visit(n.func, parent_call=n)
            for a in n.args:
                self.visit(a)
            for k in n.keywords:
                self.visit(k.value)
            return
        for c in ast.iter_child_nodes(n):
            self.visit(c)


def _stmt(s, methods, env=None):
    """-> nested tuple form of one statement."""
    ln = s.lineno
    try:
        e = _Expr(methods, env)
        if isinstance(s, ast.Expr):
            if isinstance(s.value, ast.Constant):
                return None                              # docstring / bare constant: no effect
            e.visit(s.value)
            kind = 'KPlain'
        elif isinstance(s, ast.Assign):
            for t in s.targets:
                e.target(t)
            e.visit(s.value)
            kind = 'KPlain'
        elif isinstance(s, ast.AugAssign):
            e.target(s.target)
            f = _root_field(s.target)
            if f is not None:
                e.add(e.reads, f)
            if isinstance(s.target, ast.Name):          # alias op= ..  is in place for arrays
                for g in e.env.get(s.target.id, ()):
                    e.add(e.writes, g.lstrip('~'))
                    e.add(e.reads, g.lstrip('~'))
            e.visit(s.value)
            kind = 'KPlain'
        elif isinstance(s, ast.AnnAssign):
            e.target(s.target)
            if s.value is not None:
                e.visit(s.value)
            kind = 'KPlain'
        elif isinstance(s, ast.Return):
            if s.value is not None:
                e.visit(s.value)
            kind = 'KReturn'
        elif isinstance(s, ast.Raise):
            for v in (s.exc, s.cause):
                if v is not None:
                    e.visit(v)
            kind = 'KRaise'
        elif isinstance(s, ast.Assert):
            e.visit(s.test)
            if s.msg is not None:
                e.visit(s.msg)
            kind = 'KPlain'
        elif isinstance(s, ast.Pass):
            kind = 'KPlain'
        elif isinstance(s, ast.If):
            e.visit(s.test)
            calls = [c[2] for c in sorted(e.calls)]
            return ('if', ln, e.reads, e.writes, calls, _block(s.body, methods, env), _block(s.orelse, methods, env))
        elif isinstance(s, ast.With):
            if len(s.items) != 1 or s.items[0].optional_vars is not None:
                raise Opaque('with: not exactly `with self._lock:`')
            ce = s.items[0].context_expr
            if not (_is_self_attr(ce) and ce.attr == '_lock'):
                raise Opaque('with: context is not self._lock')
            return ('with', ln, _block(s.body, methods, env))
        else:
            raise Opaque('statement ' + type(s).__name__)
        calls = [c[2] for c in sorted(e.calls)]
        return ('stmt', ln, e.reads, e.writes, calls, kind)
    except Opaque as ex:
        return ('opaque', ln, str(ex))


def _block(stmts, methods, env=None):
    out = []
    for s in stmts:
        r = _stmt(s, methods, env)
        if r is not None:
            out.append(r)
    return out


HOOK_DEFS = {'__getattr__', '__getattribute__', '__setattr__', '__delattr__', '__set_name__', '__init_subclass__',
             '__new__', '__del__', '__reduce__', '__reduce_ex__', '__getstate__', '__setstate__', '__copy__',
             '__deepcopy__'}


def _module_problems(tree, cls):
    """things outside the class body that can change what the class does"""
    out = []
    inside = {id(n) for n in ast.walk(cls)}
    for n in ast.walk(tree):
        if id(n) in inside:
            continue
        if isinstance(n, ast.Name) and n.id == CLASS:
            out.append(('opaque', n.lineno, f'{CLASS} is mentioned outside its class body'))
        if isinstance(n, ast.Attribute) and n.attr == CLASS:
            out.append(('opaque', n.lineno, f'{CLASS} is mentioned outside its class body'))
        if isinstance(n, ast.Constant) and n.value == CLASS:
            out.append(('opaque', n.lineno, f'{CLASS} is named in a string outside its class body'))
    top = [n for n in tree.body if isinstance(n, (ast.Import, ast.ImportFrom))]
    ok = any(isinstance(n, ast.Import) and any(a.name == 'threading' and a.asname in (None, 'threading') for a in n.names)
             for n in top)
    rebinds = [n for n in ast.walk(tree) if isinstance(n, ast.Name) and n.id == 'threading' and isinstance(n.ctx, ast.Store)]
    rebinds += [n for n in ast.walk(tree) if isinstance(n, (ast.Import, ast.ImportFrom)) and n not in top]
    rebinds += [n for n in top if any((a.asname or a.name.split('.')[0]) == 'threading' for a in n.names)
                and not (isinstance(n, ast.Import) and all(a.name == 'threading' or (a.asname or a.name) != 'threading'
                                                           for a in n.names))]
    if not ok or rebinds:
        out.append(('opaque', 0, '`threading` is not (only) the top-level `import threading`'))
    return out


LAST = {}


def parse(repo, use_alias=True):
    """-> (table, sha256).  table: list of (method name, block)."""
    path = os.path.join(repo, RELPATH)
    src = open(path).read()
    sha = hashlib.sha256(src.encode()).hexdigest()
    tree = ast.parse(src)
    classes = [n for n in ast.walk(tree) if isinstance(n, ast.ClassDef) and n.name == CLASS]
    if len(classes) != 1:
        return [('translator_abort', [('opaque', 0, f'{len(classes)} classes named {CLASS}')])], sha
    cls = classes[0]
    table = []
    problems = []
    if cls.bases or cls.keywords or cls.decorator_list:
        problems.append(('opaque', cls.lineno, 'class has bases, keywords or decorators'))
    defs = []
    for item in cls.body:
        if isinstance(item, ast.FunctionDef):
            defs.append(item)
        elif isinstance(item, ast.Expr) and isinstance(item.value, ast.Constant):
            pass
        else:
            problems.append(('opaque', item.lineno, 'class-level ' + type(item).__name__))
    methods = [d.name for d in defs]
    if len(set(methods)) != len(methods):
        problems.append(('opaque', cls.lineno, 'method defined twice'))
    for d in defs:
        if d.name in HOOK_DEFS:
            problems.append(('opaque', d.lineno, f'class defines {d.name}'))
    problems += _module_problems(tree, cls)
    env, _ret = _alias_analysis(defs, methods) if use_alias else ({}, {})
    LAST['returns_alias'] = {m: sorted({f.lstrip('~') for f in fs}) for m, fs in _ret.items() if fs}
    # the lock must be created in __init__ by threading.RLock() and never be touched otherwise
    for d in defs:
        a = d.args
        ok_sig = (a.args and a.args[0].arg == 'self' and not a.posonlyargs)
        if d.decorator_list or not ok_sig:
            table.append((d.name, [('opaque', d.lineno, 'decorated method or first parameter is not self')]))
            continue
        names = [x.arg for x in a.args[1:] + a.kwonlyargs] + ([a.vararg.arg] if a.vararg else []) + \
                ([a.kwarg.arg] if a.kwarg else [])
        if 'self' in names:
            table.append((d.name, [('opaque', d.lineno, 'second parameter named self')]))
            continue
        body = []
        try:
            e = _Expr(methods)
            for dflt in list(a.defaults) + [k for k in a.kw_defaults if k is not None]:
                e.visit(dflt)
        except Opaque as ex:
            body.append(('opaque', d.lineno, 'default: ' + str(ex)))
        table.append((d.name, body + _block(d.body, methods, env.get(d.name))))
    if not _lock_is_rlock(defs):
        problems.append(('opaque', cls.lineno, '__init__ does not set self._lock = threading.RLock()'))
    if problems:
        table.append(('translator_abort', problems))
    return table, sha


def _lock_is_rlock(defs):
    for d in defs:
        if d.name != '__init__':
            continue
        for s in ast.walk(d):
            if isinstance(s, ast.Assign) and len(s.targets) == 1 and _is_self_attr(s.targets[0]) \
                    and s.targets[0].attr == '_lock' and isinstance(s.value, ast.Call) \
                    and ast.unparse(s.value.func) == 'threading.RLock' and not s.value.args and not s.value.keywords:
                return True
    return False


# ---------------------------------------------------------------------------
def _q(s):
    return '"' + re.sub(r'[^A-Za-z0-9_ .,:=()\-]', '?', str(s)) + '"'


def _sl(xs):
    return '[' + '; '.join(_q(x) for x in xs) + ']'


def _emit_block(block, ind):
    pad = ' ' * ind
    items = []
    for st in block:
        k = st[0]
        if k == 'stmt':
            _, ln, r, w, c, kind = st
            items.append(f'{pad}SStmt {ln} {_sl(r)} {_sl(w)} {_sl(c)} {kind}')
        elif k == 'if':
            _, ln, r, w, c, t, e = st
            items.append(f'{pad}SIf {ln} {_sl(r)} {_sl(w)} {_sl(c)}\n{_emit_block(t, ind + 2)}\n{_emit_block(e, ind + 2)}')
        elif k == 'with':
            _, ln, b = st
            items.append(f'{pad}SWith {ln}\n{_emit_block(b, ind + 2)}')
        else:
            _, ln, why = st
            items.append(f'{pad}SOpaque {ln} {_q(why)}')
    if not items:
        return pad + '[]'
    return pad + '[\n' + ';\n'.join(items) + '\n' + pad + ']'


def emit(table, sha):
    out = ['(* GENERATED by translate/pylocks2coq.py from psiaudio/buffer.py (class SignalBuffer) - do not edit.',
           f'   source sha256 {sha} *)',
           'From Coq Require Import String ZArith List.',
           'From PV Require Import Conc.Lang.',
           'Import ListNotations.',
           'Open Scope string_scope.',
           'Open Scope Z_scope.',
           '',
           'Definition generated_methods : list method := [']
    ms = []
    for name, block in table:
        ms.append(f'  mkM {_q(name)}\n{_emit_block(block, 4)}')
    out.append(';\n'.join(ms))
    out.append('].')
    return '\n'.join(out) + '\n'


def flat(block):
    """own (non-transitive) reads, writes, calls, opaque reasons of a block"""
    r, w, c, o = set(), set(), [], []
    for st in block:
        k = st[0]
        if k == 'stmt':
            r |= set(st[2]); w |= set(st[3]); c += st[4]
        elif k == 'if':
            r |= set(st[2]); w |= set(st[3]); c += st[4]
            for b in (st[5], st[6]):
                r2, w2, c2, o2 = flat(b)
                r |= r2; w |= w2; c += c2; o += o2
        elif k == 'with':
            r.add('_lock')
            r2, w2, c2, o2 = flat(st[2])
            r |= r2; w |= w2; c += c2; o += o2
        else:
            o.append(f'line {st[1]}: {st[2]}')
    return r, w, c, o


def translate(repo, outdir):
    table, sha = parse(repo)
    returns_alias = dict(LAST.get('returns_alias', {}))
    text = emit(table, sha)
    os.makedirs(outdir, exist_ok=True)
    path = os.path.join(outdir, 'BufferLockGen.v')
    # always rewritten: the generated file is the model of the tree under test NOW
    with open(path, 'w') as f:
        f.write(text)
    mutable, opaque = set(), []
    plain = dict(parse(repo, use_alias=False)[0])
    alias_extra = {}
    for name, block in table:
        r, w, c, o = flat(block)
        if name != '__init__':
            mutable |= w
        opaque += [f'{name}: {x}' for x in o]
        r0, w0, _, _ = flat(plain.get(name, []))
        alias_extra[name] = sorted((r | w) - (r0 | w0))
    return {'table': table, 'alias_extra': alias_extra, 'returns_alias': returns_alias, 'sha256': sha, 'path': path, 'mutable_fields': sorted(mutable), 'opaque': opaque,
            'methods': [n for n, _ in table]}


if __name__ == '__main__':
    import sys
    info = translate(sys.argv[1] if len(sys.argv) > 1 else '/repo',
                     sys.argv[2] if len(sys.argv) > 2 else os.path.join(os.path.dirname(__file__), '..', 'coq', 'gen'))
    print({k: v for k, v in info.items() if k != 'table'})
