"""Whitelist table for property C08 (stimulus level and polarity): which per-sample / scale expressions of
psiaudio/stim.py are translated to coq/gen/StimExprGen.v by translate/pyexpr2coq_ext.py, and how each emitted definition is
probed numerically against the real code (translator self-test).  Table format: pyexpr2coq / pyexpr2coq_ext docstrings.

The definitions call cal_get_sf / flat_get_mean_sf of coq/gen/CalibGen.v (property C07's generated file, which
harness/C08.py regenerates from the same source tree first); the entries of those callees are taken from
translate/c07_spec.py and marked emit=False.

Abstract parameters:  sens = calibration.get_sens(<frequency of the component>);  msf = calibration.get_mean_sf(...) (for
FlatCalibration this is flat_get_mean_sf, for the table calibrations the mean of get_sf over the band: Calib/Laws.mean_sf);
i = sample index np.arange(samples);  u = the uniform deviate the generator returned."""
import copy

from translate import c07_spec

STIM = 'psiaudio/stim.py'

_CALLEES = ('util_db', 'util_dbi', 'cal_get_sf', 'flat_get_mean_sf')
_C07 = []
for _e in c07_spec.SPEC['functions']:
    if _e['coq'] in _CALLEES:
        _e = copy.deepcopy(_e)
        _e['emit'] = False
        _C07.append(_e)

_TONE_IGN = ['calibration', 'samples', 'duration']
_SAM_IGN = ['calibration', 'samples', 'duration', 'eq_power', 'equalize']
_SAM_SUBST = {'np.arange(samples, dtype=np.double)': 'i',
              'calibration.get_sens(frequencies)': ['sens_lb', 'sens_c', 'sens_ub'],
              'calibration.get_sens(fc)': 'sens_c'}


def _sam(j, name, eq_power):
    sens = ['sens_lb', 'sens_c', 'sens_ub'][j]
    ph = ['phase_lb', 'phase', 'phase_ub'][j]
    others = [p for p in ('phase_lb', 'phase', 'phase_ub') if p != ph]
    return dict(file=STIM, qual='sam_tone', coq=name, mode='slice', target='s', component=j,
                params=[sens, 'level', 'polarity', 'i', 'offset', 'fs', 'fc', 'fm', 'depth', ph],
                subst=_SAM_SUBST, ignore_params=_SAM_IGN + others,
                assume={'calibration is not None': True, 'equalize': True, 'depth != 1': False, 'eq_power': eq_power},
                return_text='np.sum(s, axis=0)')


SPEC = {
    'out': 'gen/StimExprGen.v',
    'header': ('From Coq Require Import Reals.\nFrom PV Require Import Calib.RBase gen.CalibGen.\nOpen Scope R_scope.\n'),
    'identity_calls': ['as_numeric', 'util.as_numeric', 'np.asarray', 'np.asanyarray'],
    'identity_with': ['np.errstate'],
    'identity_subscripts': ['(..., np.newaxis)'],
    'prims': {'np.log10': 'log10', 'np.sqrt': 'sqrt', 'np.cos': 'cos', 'np.sin': 'sin'},
    'consts': {'np.pi': 'PI'},
    'broadcast_calls': {'np.full_like': ('fill_value', ['dtype'])},
    'shape_tests': ['np.iterable'],
    'vector_ctors': ['np.array'],
    'vector_ranges': ['np.arange'],
    'ones_calls': ['np.ones'],
    'ncomp': 3,
    'bound_prefixes': ['calibration'],
    'allowed_decorators': ['fast_cache', 'classmethod'],
    'calls': {'util.db': 'util_db', 'util.dbi': 'util_dbi', 'db': 'util_db', 'dbi': 'util_dbi',
              'self.get_sf': 'cal_get_sf', 'calibration.get_sf': 'cal_get_sf', 'sam_eq_power': 'sam_eq_power'},
    'functions': _C07 + [
        # ---- tone: polarity * rms * sqrt 2 * cos(2 pi t f + phase), rms = get_sf(frequency, level), t = (i + offset) / fs
        dict(file=STIM, qual='tone', coq='tone_sample', mode='slice',
             params=['sens', 'level', 'polarity', 'i', 'offset', 'fs', 'frequency', 'phase'],
             subst={'np.arange(samples, dtype=np.double)': 'i', 'calibration.get_sens(frequency)': 'sens'},
             ignore_params=_TONE_IGN, assume={'calibration is None': False}),
        # without a calibration the level is the RMS itself
        dict(file=STIM, qual='tone', coq='tone_sample_nocal', mode='slice',
             params=['level', 'polarity', 'i', 'offset', 'fs', 'frequency', 'phase'],
             subst={'np.arange(samples, dtype=np.double)': 'i'},
             ignore_params=_TONE_IGN, assume={'calibration is None': True}),
        # ---- SAM tone: the three spectral components (lower sideband, carrier, upper sideband), depth 1
        dict(file=STIM, qual='sam_eq_power', coq='sam_eq_power', params=['depth']),
        _sam(0, 'sam_lb_sample', True), _sam(1, 'sam_c_sample', True), _sam(2, 'sam_ub_sample', True),
        _sam(0, 'sam_lb_sample_noeq', False), _sam(1, 'sam_c_sample_noeq', False), _sam(2, 'sam_ub_sample_noeq', False),
        # ---- rectangular click: polarity * get_sf(0, level) on each of its samples
        dict(file=STIM, qual='ClickFactory.__init__', coq='click_sample', mode='slice', target='self.waveform',
             params=['sens', 'level', 'polarity'], subst={'calibration.get_sens(0)': 'sens'},
             ignore_params=['self', 'fs', 'duration', 'calibration'],
             ignore_stmts=['vars(self).update(locals())', 'self.reset()']),
        # ---- broadband noise: bounds of the uniform generator and the sample made of a deviate
        dict(file=STIM, qual='BroadbandNoiseFactory.__init__', coq='bb_low', mode='slice', target='self.low',
             params=['msf'], subst={'calibration.get_mean_sf(0, fs, level)': 'msf'},
             ignore_params=['self', 'fs', 'level', 'seed', 'equalize', 'polarity', 'calibration'],
             assume={'equalize': False, 'calibration is None': False},
             ignore_stmts=['vars(self).update(locals())', 'self.reset()']),
        dict(file=STIM, qual='BroadbandNoiseFactory.__init__', coq='bb_high', mode='slice', target='self.high',
             params=['msf'], subst={'calibration.get_mean_sf(0, fs, level)': 'msf'},
             ignore_params=['self', 'fs', 'level', 'seed', 'equalize', 'polarity', 'calibration'],
             assume={'equalize': False, 'calibration is None': False},
             ignore_stmts=['vars(self).update(locals())', 'self.reset()']),
        dict(file=STIM, qual='BroadbandNoiseFactory.next', coq='bb_sample', mode='slice', params=['polarity', 'u'],
             subst={'self.polarity': 'polarity',
                    'self.state.uniform(low=self.low, high=self.high, size=samples)': 'u'},
             ignore_params=['self', 'samples']),
        # ---- IIR band-limited noise: bounds sqrt 3 * filter_sf * sf, filter_sf = 1 / sqrt((fh - fl) * 2 / fs)
        dict(file=STIM, qual='BandlimitedNoiseFactory.__init__', coq='bl_low', mode='slice', target='self.low',
             params=['msf', 'fs', 'fl', 'fh'], subst={'calibration.get_mean_sf(fl, fh, level)': 'msf'},
             ignore_params=['self', 'seed', 'level', 'filter_rolloff', 'passband_attenuation', 'stopband_attenuation',
                            'equalize', 'polarity', 'calibration', 'discard_initial_samples'],
             assume={'calibration is None': False}, ignore_stmts=['self.reset()']),
        dict(file=STIM, qual='BandlimitedNoiseFactory.__init__', coq='bl_high', mode='slice', target='self.high',
             params=['msf', 'fs', 'fl', 'fh'], subst={'calibration.get_mean_sf(fl, fh, level)': 'msf'},
             ignore_params=['self', 'seed', 'level', 'filter_rolloff', 'passband_attenuation', 'stopband_attenuation',
                            'equalize', 'polarity', 'calibration', 'discard_initial_samples'],
             assume={'calibration is None': False}, ignore_stmts=['self.reset()']),
        # the filtered waveform times the polarity
        dict(file=STIM, qual='BandlimitedNoiseFactory.next', coq='bl_sample', mode='slice', params=['polarity', 'w'],
             subst={'self.polarity': 'polarity', 'waveform': 'w'}, ignore_params=['self', 'samples'],
             assume={'samples == 0': False},      # a zero-sample request returns an empty array before the filter
             return_text='waveform * self.polarity'),
        # ---- shaped (FIR) noise: half-width of the uniform generator, and the polarity factor
        dict(file=STIM, qual='ShapedNoiseFactory.__init__', coq='shaped_scale', mode='slice', target='self.scale',
             params=['filter_sf', 'msf'],
             subst={'calibration.get_mean_sf(0, fs / 2, level)': 'msf', 'self.filter_sf': 'filter_sf'},
             ignore_params=['self', 'fs', 'level', 'gains', 'ntaps', 'window', 'polarity', 'seed', 'calibration'],
             assume={'calibration is None': False},
             ignore_stmts=['vars(self).update(locals())', 'self.reset()']),
        dict(file=STIM, qual='ShapedNoiseFactory.next', coq='shaped_sample', mode='slice', params=['polarity', 'w'],
             subst={'self.polarity': 'polarity', 'waveform': 'w'}, ignore_params=['self', 'samples'],
             assume={'samples == 0': False},      # a zero-sample request returns an empty array before the filter
             return_text='waveform * self.polarity'),
        dict(file=STIM, qual='BandlimitedFIRNoiseFactory.next', coq='fir_sample', mode='slice', params=['polarity', 'w'],
             subst={'self.polarity': 'polarity', 'waveform': 'w'}, ignore_params=['self', 'samples'],
             assume={'samples == 0': False},      # a zero-sample request returns an empty array before the filter
             return_text='waveform * self.polarity'),
    ],
}

DOMAIN = {'fs': 'rate', 'frequency': 'pos', 'fc': 'pos', 'fm': 'pos', 'fl': 'lo', 'fh': 'hi', 'msf': 'pos',
          'filter_sf': 'pos', 'i': 'index', 'offset': 'index', 'polarity': 'sign', 'depth': 'one', 'u': 'any', 'w': 'any'}


def probes():
    """{coq name: callable(**kwargs of the Coq parameters) -> value computed by the REAL psiaudio code}."""
    import numpy as np
    from psiaudio import stim
    from psiaudio.calibration import FlatCalibration, InterpCalibration

    def flat(sens):
        return FlatCalibration(sensitivity=sens)

    class MeanSF:
        """a calibration whose get_mean_sf answers `msf` (the abstract parameter of the noise bounds)"""
        def __init__(self, msf):
            self.msf = msf

        def get_mean_sf(self, *a, **k):
            return self.msf

    def tone(sens, level, polarity, i, offset, fs, frequency, phase):
        return stim.tone(fs, frequency, level, phase, polarity, calibration=flat(sens), samples=int(i) + 1,
                         offset=offset)[int(i)]

    def tone_nocal(level, polarity, i, offset, fs, frequency, phase):
        return stim.tone(fs, frequency, level, phase, polarity, samples=int(i) + 1, offset=offset)[int(i)]

    def sam(j, eq_power):
        """component j of sam_tone: the two other components are removed by differencing with a calibration that
        silences component j (sensitivity +400 dB on that frequency divides its scale factor by 1e20)"""
        def f(level, polarity, i, offset, fs, fc, fm, depth, **kw):
            sens = [v for k, v in kw.items() if k.startswith('sens')][0]
            ph = [v for k, v in kw.items() if k.startswith('phase')][0]
            phases = [0.3, 0.2, 0.1]
            phases[j] = ph
            freqs = [fc - fm, fc, fc + fm]
            table = [sens, sens, sens]
            table[j] = sens
            cal = InterpCalibration(freqs, table)
            table2 = list(table)
            table2[j] = sens + 400.0
            cal2 = InterpCalibration(freqs, table2)
            kws = dict(fs=fs, fc=fc, fm=fm, level=level, depth=depth, phase=phases[1], phase_lb=phases[0],
                       phase_ub=phases[2], polarity=polarity, samples=int(i) + 1, offset=offset, eq_power=eq_power)
            a = stim.sam_tone(calibration=cal, **kws)[int(i)]
            b = stim.sam_tone(calibration=cal2, **kws)[int(i)]
            return (a - b) / (1 - 1e-20)
        return f

    def click(sens, level, polarity):
        return stim.ClickFactory(1000.0, 0.005, level, polarity, flat(sens)).waveform[2]

    def bb(attr):
        return lambda msf: getattr(stim.BroadbandNoiseFactory(1000.0, 60.0, calibration=MeanSF(msf)), attr)

    def bb_sample(polarity, u):
        f = stim.BroadbandNoiseFactory(1000.0, 1.0, polarity=polarity)

        class U:
            def uniform(self, low, high, size):
                return np.full(size, u)
        f.state = U()
        return f.next(3)[1]

    def bl(attr):
        def f(msf, fs, fl, fh):
            fac = stim.BandlimitedNoiseFactory(fs, 1, 60.0, fl, fh, 1, 1, 80, calibration=MeanSF(msf))
            return getattr(fac, attr)
        return f

    def filtered_sample(make):
        def f(polarity, w):
            from scipy import signal
            fac = make(polarity)
            orig = signal.lfilter
            try:
                stim.signal.lfilter = lambda b, a, x, zi=None: (np.full(len(x), w), zi)
                return fac.next(3)[1]
            finally:
                stim.signal.lfilter = orig
        return f

    def shaped_scale(filter_sf, msf):
        from scipy import signal
        fac = stim.ShapedNoiseFactory(1000.0, 60.0, {0: 0, 100: 0, 200: -20, 500: -20}, ntaps=11, seed=1,
                                      calibration=MeanSF(msf))
        # filter_sf is computed from the taps: rescale by what the factory computed
        return fac.scale / fac.filter_sf * filter_sf

    gains = {0: 0, 100: 0, 200: -20, 500: -20}
    out = {
        'tone_sample': tone, 'tone_sample_nocal': tone_nocal,
        'sam_eq_power': lambda depth: stim.sam_eq_power(depth),
        'sam_lb_sample': sam(0, True), 'sam_c_sample': sam(1, True), 'sam_ub_sample': sam(2, True),
        'sam_lb_sample_noeq': sam(0, False), 'sam_c_sample_noeq': sam(1, False), 'sam_ub_sample_noeq': sam(2, False),
        'click_sample': click,
        'bb_low': bb('low'), 'bb_high': bb('high'), 'bb_sample': bb_sample,
        'bl_low': bl('low'), 'bl_high': bl('high'),
        'bl_sample': filtered_sample(lambda p: stim.BandlimitedNoiseFactory(1000.0, 1, 1.0, 100.0, 200.0, 1, 1, 80,
                                                                             polarity=p)),
        'shaped_scale': shaped_scale,
        'shaped_sample': filtered_sample(lambda p: stim.ShapedNoiseFactory(1000.0, 1.0, gains, ntaps=11, seed=1,
                                                                           polarity=p)),
        'fir_sample': filtered_sample(lambda p: stim.BandlimitedFIRNoiseFactory(
            1000.0, 100.0, 200.0, 60.0, ntaps=11, seed=1, polarity=p, calibration=FlatCalibration(60.0))),
    }
    return out
