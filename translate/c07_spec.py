"""Whitelist table for property C07 (calibration conversions): which functions of psiaudio are translated to
coq/gen/CalibGen.v by translate/pyexpr2coq.py, how their parameters are handled, and how each emitted definition is
probed numerically against the real function (translator self-test).  See pyexpr2coq.__doc__ for the table format."""

CAL = 'psiaudio/calibration.py'
UTIL = 'psiaudio/util.py'
SELF = ['self']
KW = ['reference']      # constructor keywords (as used in the source) that do not enter the sensitivity

SPEC = {
    'out': 'gen/CalibGen.v',
    'header': ('From Coq Require Import Reals.\nFrom PV Require Import Calib.RBase.\nOpen Scope R_scope.\n'),
    'identity_calls': ['as_numeric', 'util.as_numeric', 'np.asarray', 'np.asanyarray'],
    'identity_with': ['np.errstate'],
    'prims': {'np.log10': 'log10', 'np.sqrt': 'sqrt'},
    'broadcast_calls': {'np.full_like': ('fill_value', ['dtype'])},    # full_like(freq, fill_value=E, dtype=..) is E broadcast
    'shape_tests': ['np.iterable'],
    'calls': {'util.db': 'util_db', 'util.dbi': 'util_dbi', 'db': 'util_db', 'dbi': 'util_dbi',
              'self.get_sf': 'cal_get_sf', 'self._get_db': 'cal_get_db',
              # get_db(*args) with two arguments dispatches to _get_db (glue; exercised by the harness cases)
              'self.get_db': 'cal_get_db'},
    'functions': [
        dict(file=UTIL, qual='db', coq='util_db', params=['target', 'reference']),
        dict(file=UTIL, qual='dbi', coq='util_dbi', params=['db', 'reference']),
        dict(file=UTIL, qual='patodb', coq='util_patodb', params=['pa']),
        dict(file=UTIL, qual='dbtopa', coq='util_dbtopa', params=['db']),
        dict(file=CAL, qual='BaseCalibration._get_db', coq='cal_get_db', params=['sens', 'voltage'],
             subst={'self.get_sens(frequency)': 'sens'}, ignore_params=['self', 'frequency']),
        dict(file=CAL, qual='BaseCalibration.get_sf', coq='cal_get_sf', params=['sens', 'level', 'attenuation'],
             subst={'self.get_sens(frequency)': 'sens'}, ignore_params=['self', 'frequency']),
        dict(file=CAL, qual='BaseCalibration.get_attenuation', coq='cal_get_attenuation',
             params=['sens', 'voltage', 'level'], subst={'self.get_sens(frequency)': 'sens'},
             ignore_params=['self', 'frequency']),
        dict(file=CAL, qual='BaseCalibration.get_gain', coq='cal_get_gain', params=['sens', 'level', 'attenuation'],
             subst={'self.get_sens(frequency)': 'sens'}, ignore_params=['self', 'frequency']),
        dict(file=CAL, qual='FlatCalibration.get_sens', coq='flat_get_sens', params=['sensitivity', 'fixed_gain'],
             subst={'self.sensitivity': 'sensitivity', 'self.fixed_gain': 'fixed_gain'},
             ignore_params=['self', 'frequency']),
        dict(file=CAL, qual='InterpCalibration.get_sens', coq='interp_get_sens', params=['interp', 'fixed_gain'],
             subst={'self._interp(frequency)': 'interp', 'self.fixed_gain': 'fixed_gain'},
             ignore_params=['self', 'frequency']),
        dict(file=CAL, qual='FlatCalibration.get_mean_sf', coq='flat_get_mean_sf', params=['sens', 'spl', 'attenuation'],
             subst={'self.get_sens(flb)': 'sens'}, ignore_params=['self', 'flb', 'fub']),
        dict(file=CAL, qual='FlatCalibration.get_level', coq='flat_get_level', params=['sens', 'voltage'],
             subst={'self.get_sens(1000.0)': 'sens'}, ignore_params=['self']),
        dict(file=CAL, qual='FlatCalibration.unity', coq='flat_unity', params=[], ignore_params=['cls'],
             result={'ctor': 'cls', 'kw': 'sensitivity', 'pos': 0, 'init_of': ['FlatCalibration']}),
        dict(file=CAL, qual='FlatCalibration.from_pascals', coq='flat_from_pascals', params=['magnitude', 'vrms'],
             ignore_params=['cls', 'kwargs'], ignore_kw=KW,
             result={'ctor': 'cls', 'kw': 'sensitivity', 'pos': 0, 'init_of': ['FlatCalibration']}),
        dict(file=CAL, qual='FlatCalibration.from_db', coq='flat_from_db', params=['level', 'vrms'],
             ignore_params=['cls', 'kwargs'], ignore_kw=KW,
             result={'ctor': 'cls', 'kw': 'sensitivity', 'pos': 0, 'init_of': ['FlatCalibration']}),
        dict(file=CAL, qual='FlatCalibration.from_spl', coq='flat_from_spl', params=['spl', 'vrms'],
             ignore_params=['cls', 'kwargs'], ignore_kw=KW,
             result={'ctor': 'cls', 'kw': 'sensitivity', 'pos': 0, 'init_of': ['FlatCalibration']}),
        dict(file=CAL, qual='FlatCalibration.as_attenuation', coq='flat_as_attenuation', params=['vrms'],
             ignore_params=['cls', 'kwargs'], ignore_kw=KW, calls={'cls.from_db': 'flat_from_db'},
             result={'ctor': 'cls', 'kw': 'sensitivity', 'pos': 0, 'init_of': ['FlatCalibration']}),
        dict(file=CAL, qual='FlatCalibration.from_mv_pa', coq='flat_from_mv_pa', params=['mv_pa'],
             ignore_params=['cls', 'kwargs'], ignore_kw=KW,
             result={'ctor': 'cls', 'kw': 'sensitivity', 'pos': 0, 'init_of': ['FlatCalibration']}),
        dict(file=CAL, qual='FlatCalibration.to_mv_pa', coq='flat_to_mv_pa', params=['sensitivity'],
             subst={'self.sensitivity': 'sensitivity'}, ignore_params=['self']),
        dict(file=CAL, qual='BaseFrequencyCalibration.from_pascals', coq='freq_from_pascals',
             params=['magnitude', 'vrms'], ignore_params=['cls', 'frequency', 'kwargs'], ignore_kw=KW,
             result={'ctor': 'cls', 'kw': 'sensitivity', 'pos': 1, 'init_of': ['InterpCalibration', 'PointCalibration']}),
        dict(file=CAL, qual='BaseFrequencyCalibration.from_db', coq='freq_from_db', params=['level', 'vrms'],
             ignore_params=['cls', 'frequency', 'kwargs'], ignore_kw=KW,
             result={'ctor': 'cls', 'kw': 'sensitivity', 'pos': 1, 'init_of': ['InterpCalibration', 'PointCalibration']}),
        dict(file=CAL, qual='BaseFrequencyCalibration.from_spl', coq='freq_from_spl', params=['spl', 'vrms'],
             ignore_params=['cls', 'frequency', 'kwargs'], ignore_kw=KW, calls={'cls.from_db': 'freq_from_db'},
             result={'ctor': 'cls', 'kw': 'sensitivity', 'pos': 1, 'init_of': ['InterpCalibration', 'PointCalibration']}),
    ],
}

# Argument domains for the self-test: 'pos' strictly positive (arguments of log10), 'any' a dB-like value.
DOMAIN = {'target': 'pos', 'reference': 'pos', 'pa': 'pos', 'voltage': 'pos', 'magnitude': 'pos', 'vrms': 'pos',
          'mv_pa': 'pos'}


def probes():
    """{coq name: callable(**kwargs of the Coq parameters) -> value computed by the REAL psiaudio code}."""
    from psiaudio import util
    from psiaudio.calibration import FlatCalibration, InterpCalibration, PointCalibration
    import numpy as np

    def flat(sens):
        return FlatCalibration(sensitivity=sens)

    def interp_sens(interp, fixed_gain):
        # a two-point table whose interpolated value at 1500 Hz is `interp`
        c = InterpCalibration([1000.0, 2000.0], [interp - 3.0, interp + 3.0], fixed_gain=fixed_gain)
        return float(c.get_sens(1500.0))

    def both(f):
        """BaseFrequencyCalibration constructors are probed through both concrete subclasses."""
        def g(**kw):
            a = f(InterpCalibration, **kw)
            b = f(PointCalibration, **kw)
            assert np.array_equal(a, b), (a, b)
            assert a[0] == a[1]
            return a[0]
        return g
    F = [1000.0, 2000.0]
    return {
        'util_db': lambda target, reference: util.db(target, reference),
        'util_dbi': lambda db, reference: util.dbi(db, reference),
        'util_patodb': lambda pa: util.patodb(pa),
        'util_dbtopa': lambda db: util.dbtopa(db),
        'cal_get_db': lambda sens, voltage: flat(sens).get_db(1000.0, voltage),
        'cal_get_sf': lambda sens, level, attenuation: flat(sens).get_sf(1000.0, level, attenuation),
        'cal_get_attenuation': lambda sens, voltage, level: flat(sens).get_attenuation(1000.0, voltage, level),
        'cal_get_gain': lambda sens, level, attenuation: flat(sens).get_gain(1000.0, level, attenuation),
        'flat_get_sens': lambda sensitivity, fixed_gain:
            FlatCalibration(sensitivity, fixed_gain=fixed_gain).get_sens(1000.0),
        'interp_get_sens': interp_sens,
        'flat_get_mean_sf': lambda sens, spl, attenuation: flat(sens).get_mean_sf(100, 200, spl, attenuation),
        'flat_get_level': lambda sens, voltage: flat(sens).get_level(voltage),
        'flat_unity': lambda: FlatCalibration.unity().sensitivity,
        'flat_from_pascals': lambda magnitude, vrms: FlatCalibration.from_pascals(magnitude, vrms).sensitivity,
        'flat_from_db': lambda level, vrms: FlatCalibration.from_db(level, vrms).sensitivity,
        'flat_from_spl': lambda spl, vrms: FlatCalibration.from_spl(spl, vrms).sensitivity,
        'flat_as_attenuation': lambda vrms: FlatCalibration.as_attenuation(vrms).sensitivity,
        'flat_from_mv_pa': lambda mv_pa: FlatCalibration.from_mv_pa(mv_pa).sensitivity,
        'flat_to_mv_pa': lambda sensitivity: flat(sensitivity).to_mv_pa(),
        'freq_from_pascals': both(lambda cls, magnitude, vrms:
                                  cls.from_pascals(F, [magnitude, magnitude], vrms).sensitivity),
        'freq_from_db': both(lambda cls, level, vrms: cls.from_db(F, np.array([level, level]), vrms).sensitivity),
        'freq_from_spl': both(lambda cls, spl, vrms: cls.from_spl(F, np.array([spl, spl]), vrms).sensitivity),
    }
