"""Fail-closed `ast` translator for the index bookkeeping of psiaudio/pipeline.py (property C11).

Reads the CURRENT source of  normalize_index(index, ndim),  PipelineData.__getitem__(self, s),  ensure_dim(arrays, dim)  and
concat(arrays, axis=-1)  (pieces: annotated arrays) and emits coq/gen/PDataGen.v: gen_normalize_index, gen_getitem,
gen_ensure_dim and gen_concat, statement by statement, over the value universe and the
primitives of coq/PData/TieLib.v (pyval: int, np.integer, slice, list of ints / bools, 1-D integer / boolean ndarray,
Ellipsis, None, tuple; annotations: the record pd of PData/Model.v).  coq/PData/ProofsTie.v proves the emitted
definitions equal to the hand-written model (normalize_index, getitem of PData/Model.v) for every index value.

  assignment -> let            a primitive that may raise / is undefined on some operands -> gbind (hoisted, in evaluation order)
  obj.attr = e -> let obj := set_attr obj e     l.append(e) -> let l := l ++ [e]
  if (a branch ends in return / raise) -> if c then .. else rest
  if (all branches fall through) -> gbind (if c then .. GOk vars else .. GOk vars) (fun vars => rest)
  if / elif chain without else that only BINDS new names -> .. else GRaise EUnbound (the next statement must read one of them)
  raise X(..) -> GRaise E      return e -> GOk e      `a and b` with a partial operand -> gand (lazy)
  for i in <tuple> -> gfold    for _ in range(n) -> giter    [c for _ in range(n)] -> rep_range c n

NOT translated, pinned on their exact `ast.unparse` text (PINNED below): `obj = super().__getitem__(s)` (NumPy's own indexing
+ __array_finalize__: the modelled primitive np_super_getitem), `if not hasattr(obj, 'metadata'): return obj` (scalar
result), `skip = object()` (the sentinel PSkip), the dead statement after `raise NotImplementedError`, the body of the
property n_time (`return self.shape[-1]`), the all-True test of a list on the time axis; in concat: the whole body of
dim_axis and the call `dim, axis = dim_axis(axis)` (primitive py_dim_axis), the three statements on `is_pipeline_data` (the
pieces are annotated arrays: only the empty list reaches np.concatenate there), `result = np.concatenate(arrays, axis=axis)`
(Model.cat_all) and the constructor call of the last line (Model.ctor_ok).  Anything else raises TranslatorGap.
Comments, blank lines and docstrings do not reach the ast and are harmless."""
import ast
import os


class TranslatorGap(Exception):
    pass


COQ_TYPE = {'val': 'pyval', 'vlist': 'list pyval', 'Z': 'Z', 'bool': 'bool', 'optZ': 'option Z', 'pd': 'pd',
            'pyobj': 'pyobj', 'lab': 'lab', 'rate': '(Z * Z)', 'zlist': 'list Z', 'cdim': 'cdim', 'pdlist': 'list pd',
            'axis': 'pyaxis', 'shaped': '(list Z * nest)'}
DIMNAME = {'time': 'DTime', 'channel': 'DChan', 'epoch': 'DEpoch'}
EMPTY = {'vlist': '[]', 'lab': 'LMany []'}              # `x = []` for a local of that type
ERR = {'IndexError': 'EIndex', 'ValueError': 'EValue', 'NotImplementedError': 'ENotImpl'}
ISINST = {'int': 'isinst_int', 'np.integer': 'isinst_npinteger', 'slice': 'isinst_slice', 'list': 'isinst_list',
          'np.ndarray': 'isinst_ndarray', 'PipelineData': 'isinst_PipelineData'}
# (type of the object, attribute) -> (Coq function, result type, partial)
ATTR = {('pd', 's0'): ('s0', 'Z', False), ('pd', 'n_time'): ('n_time', 'Z', False), ('pd', 'ndim'): ('ndim', 'Z', False),
        ('pd', 'fs'): ('pd_fs', 'rate', False), ('pd', 'channel'): ('chan', 'lab', False),
        ('pd', 'metadata'): ('meta', 'lab', False),
        ('val', 'start'): ('py_attr_start', 'optZ', True), ('val', 'step'): ('py_attr_step', 'optZ', True),
        ('val', 'ndim'): ('py_ndim', 'Z', True), ('val', 'size'): ('py_size', 'Z', True)}
SETATTR = {('s0', 'Z'): 'set_s0', ('fs', 'rate'): 'set_fs', ('channel', 'lab'): 'set_chan', ('metadata', 'lab'): 'set_meta'}
METHOD0 = {'tolist': ('py_tolist', 'val'), 'all': ('py_all', 'bool')}          # val.method() -> partial
CMP = {ast.Eq: '=?', ast.Lt: '<?', ast.Gt: '>?', ast.GtE: '>=?', ast.LtE: '<=?'}
BIN = {ast.Add: '+', ast.Sub: '-'}
MINMAX = {'min': 'Z.min', 'max': 'Z.max'}
# expressions replaced on their exact text: text -> (Coq text, type, partial, {python name: type it must have})
PINNED_EXPR = {
    'np.newaxis': ('PNone', 'val', False, {}),
    'slice(None)': ('pfull', 'val', False, {}),
    'all((isinstance(t, (bool, np.bool_)) and t for t in time_slice))':
        ("py_all_true_bools time_slice'", 'bool', True, {'time_slice': 'val'}),
}
PROPERTIES = {'n_time': 'return self.shape[-1]'}        # read through ATTR as Model.n_time: body pinned
TARGETS = [
    {'name': 'normalize_index', 'cls': None, 'params': [('index', 'val'), ('ndim', 'Z')], 'ret': 'val',
     'locals': {'norm_index': 'vlist'}, 'pinned': {}, 'dead': []},
    {'name': '__getitem__', 'coq': 'gen_getitem', 'cls': 'PipelineData', 'params': [('self', 'pd'), ('s', 'val')], 'ret': 'pyobj',
     'locals': {},
     'pinned': {'obj = super().__getitem__(s)': 'super_getitem',
                "if not hasattr(obj, 'metadata'):\n    return obj": 'hasattr_metadata',
                'skip = object()': 'sentinel'},
     'dead': ['obj.s0 += time_slice']},
]
DIM_AXIS_BODY = ("if axis == 'time':\n    axis, dim = (-1, 'time')\nif axis == 'channel':\n    axis, dim = (-2, 'channel')\n"
                 "if axis == 'epoch':\n    axis, dim = (-3, 'epoch')\nelif axis == -1:\n    dim = 'time'\nelif axis == -2:\n    dim = 'channel'\n"
                 "elif axis == -3:\n    dim = 'epoch'\nelse:\n    raise ValueError(f'Axis not supported. Got {axis}')\nreturn (dim, axis)")
PINNED_FUNCS = {'dim_axis': (['axis'], DIM_AXIS_BODY)}   # called through the primitive py_dim_axis: signature and body pinned
TARGETS += [
    {'name': 'ensure_dim', 'cls': None, 'params': [('arrays', 'pdlist'), ('dim', 'cdim')], 'ret': 'pdlist', 'locals': {},
     'pinned': {}, 'dead': []},
    {'name': 'concat', 'cls': None, 'params': [('arrays', 'pdlist'), ('axis', 'axis')], 'defaults': {'axis': '-1'}, 'ret': 'pyobj',
     'locals': {'metadata': 'lab'},
     'pinned': {'dim, axis = dim_axis(axis)': 'dim_axis',
                'is_pipeline_data = [isinstance(a, PipelineData) for a in arrays]': 'all_annotated',
                'if not any(is_pipeline_data):\n    return np.concatenate(arrays, axis=axis)': 'not_any',
                "if not all(is_pipeline_data):\n    raise ValueError('Cannot concatenate pipeline and non-pipeline data')": 'not_all',
                'result = np.concatenate(arrays, axis=axis)': 'np_concatenate',
                'return PipelineData(result, fs=fs, s0=s0, channel=channel, metadata=metadata)': 'construct'},
     'dead': []},
]
PRIMITIVES = sorted({'py_dim_axis', 'cdim_eqb', 'gmap', 'list_hd', 'obj_as_pd', 'rate_eqb', 'labs_concat', 'lab_extend',
                     'lab_append', 'np_concatenate_none', 'np_concatenate_pd', 'pd_construct', 'eqb_lab', 'gbind', 'gand', 'gfold', 'giter', 'rep_range', 'pfull', 'py_is_none', 'py_is_ellipsis', 'py_is_skip',
                     'py_int', 'py_dtype_is_bool', 'py_iter', 'py_len', 'py_unpack1', 'py_unpack2', 'py_unpack3', 'py_optz',
                     'py_all_true_bools', 'lab_is_list', 'lab_wrap', 'lab_len', 'np_arange_getitem', 'lab_getitems',
                     'lab_getitem', 'np_array_getitem_tolist', 'np_super_getitem', 'rate_div', 'is_some'} |
                    set(ISINST.values()) | {v[0] for v in ATTR.values()} | set(SETATTR.values()) |
                    {v[0] for v in METHOD0.values()})


def gap(node, why):
    txt = ast.unparse(node) if isinstance(node, ast.AST) else str(node)
    raise TranslatorGap(f'{why}: `{txt[:120]}` (line {getattr(node, "lineno", "?")})')


def mg(name):
    return name + "'"


def tup(names):
    if not names:
        return 'tt'
    return mg(names[0]) if len(names) == 1 else '(' + ', '.join(mg(v) for v in names) + ')'


def pat(names):
    if not names:
        return '_'
    return mg(names[0]) if len(names) == 1 else "'(" + ', '.join(mg(v) for v in names) + ')'


def base_name(t):
    while isinstance(t, (ast.Attribute, ast.Subscript)):
        t = t.value
    return t.id if isinstance(t, ast.Name) else None


def assigned(stmts):
    """names (re)bound by the statements, nested blocks included: x = .., x.a = .., x += .., x.append(..); not `for` targets"""
    out = []

    def targets(t):
        if isinstance(t, (ast.Tuple, ast.List)):
            for e in t.elts:
                targets(e)
        elif base_name(t):
            out.append(base_name(t))
    for s in stmts:
        for n in ast.walk(s):
            if isinstance(n, ast.Assign):
                for t in n.targets:
                    targets(t)
            elif isinstance(n, ast.AugAssign):
                targets(n.target)
            elif isinstance(n, ast.Expr) and isinstance(n.value, ast.Call) and isinstance(n.value.func, ast.Attribute) \
                    and n.value.func.attr in ('append', 'extend') and base_name(n.value.func):
                out.append(base_name(n.value.func))
    return list(dict.fromkeys(out))


def ends(stmts):
    """every path through the block ends in return / raise"""
    if not stmts:
        return False
    for i, s in enumerate(stmts):
        if isinstance(s, (ast.Return, ast.Raise)):
            return True
    s = stmts[-1]
    return isinstance(s, ast.If) and ends(s.body) and ends(s.orelse)


def names_in(node):
    return [n.id for n in ast.walk(node) if isinstance(n, ast.Name)]


class Fn:
    def __init__(self, spec, node, funcs):
        self.spec, self.node, self.funcs = spec, node, funcs
        self.ntmp, self.found, self.dead = 0, [], []

    # ------------------------------------------------------------ expressions -> (Coq text, type); partial ones are hoisted
    def part(self, pend, text):
        self.ntmp += 1
        t = f'tmp{self.ntmp}'
        pend.append((t, text))
        return t

    @staticmethod
    def wrap(pend, text):
        for t, g in reversed(pend):
            text = f'gbind ({g}) (fun {t} =>\n{text})'
        return text

    def num(self, n, env, pend):
        e, t = self.expr(n, env, pend)
        if t == 'optZ':                                     # int-or-None used as a number
            return self.part(pend, f'py_optz {e}'), 'Z'
        return e, t

    def truth(self, n, env, pend):
        e, t = self.expr(n, env, pend)
        if t == 'Z':
            return f'(negb ({e} =? 0))'
        if t != 'bool':
            gap(n, f'truth value of {t}')
        return e

    def expr(self, n, env, pend):
        src = ast.unparse(n)
        if src in PINNED_EXPR:
            text, ty, partial, needs = PINNED_EXPR[src]
            if any(env.get(k) != v for k, v in needs.items()):
                gap(n, f'pinned expression needs {needs}')
            return (self.part(pend, text) if partial else text), ty
        if isinstance(n, ast.Name):
            if n.id not in env:
                gap(n, 'unknown name')
            return ('PSkip', 'val') if env[n.id] == 'sentinel' else (mg(n.id), env[n.id])
        if isinstance(n, ast.Constant) and type(n.value) is int:
            return (str(n.value) if n.value >= 0 else f'({n.value})'), 'Z'
        if isinstance(n, ast.UnaryOp) and isinstance(n.op, ast.USub) and isinstance(n.operand, ast.Constant) \
                and type(n.operand.value) is int:
            return f'(-{n.operand.value})', 'Z'
        if isinstance(n, ast.UnaryOp) and isinstance(n.op, ast.Not):
            return f'(negb {self.truth(n.operand, env, pend)})', 'bool'
        if isinstance(n, ast.BoolOp) and isinstance(n.op, ast.And):
            subs = []
            for i, v in enumerate(n.values):
                p = pend if i == 0 else []                  # the first operand is always evaluated
                subs.append((p if i else [], self.truth(v, env, p)))
            if not any(p for p, _ in subs):
                return '(' + ' && '.join(b for _, b in subs) + ')', 'bool'
            text = None
            for p, b in reversed(subs):
                g = self.wrap(p, f'GOk {b}')
                text = g if text is None else f'gand ({g}) ({text})'
            return self.part(pend, text), 'bool'
        if isinstance(n, ast.Compare) and len(n.ops) == 1:
            return self.compare(n, env, pend)
        if isinstance(n, ast.BinOp):
            if isinstance(n.op, ast.Div):
                (a, ta), (b, tb) = self.expr(n.left, env, pend), self.num(n.right, env, pend)
                if (ta, tb) != ('rate', 'Z'):
                    gap(n, f'division on {ta}, {tb}')
                return f'(rate_div {a} {b})', 'rate'
            (a, ta), (b, tb) = self.num(n.left, env, pend), self.num(n.right, env, pend)
            if (ta, tb) == ('Z', 'Z') and type(n.op) in BIN:
                return f'({a} {BIN[type(n.op)]} {b})', 'Z'
            if (ta, tb) == ('vlist', 'vlist') and isinstance(n.op, ast.Add):
                return f'({a} ++ {b})', 'vlist'
            gap(n, f'binary operator on {ta}, {tb}')
        if isinstance(n, ast.Attribute):
            o, to = self.expr(n.value, env, pend)
            if (to, n.attr) not in ATTR:
                gap(n, f'attribute of {to}')
            f, t, partial = ATTR[to, n.attr]
            return (self.part(pend, f'{f} {o}') if partial else f'({f} {o})'), t
        if isinstance(n, ast.Tuple) and len(n.elts) == 1:
            e, t = self.expr(n.elts[0], env, pend)
            if t != 'val':
                gap(n, f'tuple of {t}')
            return f'(PTuple [{e}])', 'val'
        if isinstance(n, ast.List) and len(n.elts) == 1:
            e, t = self.expr(n.elts[0], env, pend)
            if t == 'val':
                return f'[{e}]', 'vlist'
            if t == 'lab':
                return self.part(pend, f'lab_wrap {e}'), 'lab'
            gap(n, f'list display of {t}')
        if isinstance(n, (ast.ListComp, ast.GeneratorExp)):
            return self.comprehension(n, env, pend)
        if isinstance(n, ast.Subscript):
            return self.subscript(n, env, pend)
        if isinstance(n, ast.Call):
            return self.call(n, env, pend)
        gap(n, 'expression not in the vocabulary')

    def compare(self, n, env, pend):
        op, r = n.ops[0], n.comparators[0]
        rs = ast.unparse(r)
        if isinstance(op, (ast.Is, ast.IsNot)):
            a, ta = self.expr(n.left, env, pend)
            if rs in ('np.newaxis', 'Ellipsis') and ta == 'val':
                text = f'({"py_is_none" if rs == "np.newaxis" else "py_is_ellipsis"} {a})'
            elif isinstance(r, ast.Name) and env.get(r.id) == 'sentinel' and ta == 'val':
                text = f'(py_is_skip {a})'
            elif rs == 'None' and ta == 'optZ':
                return (f'(is_some {a})' if isinstance(op, ast.IsNot) else f'(negb (is_some {a}))'), 'bool'
            else:
                gap(n, f'identity test of {ta}')
            return (f'(negb {text})' if isinstance(op, ast.IsNot) else text), 'bool'
        if isinstance(n.left, ast.Attribute) and n.left.attr == 'dtype' and rs == 'bool' and isinstance(op, ast.Eq) \
                and 'bool' not in env:
            a, ta = self.expr(n.left.value, env, pend)
            if ta != 'val':
                gap(n, f'dtype of {ta}')
            return self.part(pend, f'py_dtype_is_bool {a}'), 'bool'
        if isinstance(r, ast.Constant) and r.value in DIMNAME and isinstance(op, (ast.Eq, ast.NotEq)):
            a, ta = self.expr(n.left, env, pend)
            if ta != 'cdim':
                gap(n, f'comparison of {ta} with a dimension name')
            text = f'(cdim_eqb {a} {DIMNAME[r.value]})'
            return (f'(negb {text})' if isinstance(op, ast.NotEq) else text), 'bool'
        (a, ta), (b, tb) = self.num(n.left, env, pend), self.num(r, env, pend)
        if (ta, tb) in (('rate', 'rate'), ('lab', 'lab')) and isinstance(op, (ast.Eq, ast.NotEq)):
            text = f'({"rate_eqb" if ta == "rate" else "eqb_lab"} {a} {b})'
            return (f'(negb {text})' if isinstance(op, ast.NotEq) else text), 'bool'
        if (ta, tb) != ('Z', 'Z'):
            gap(n, f'comparison on {ta}, {tb}')
        if isinstance(op, ast.NotEq):
            return f'(negb ({a} =? {b}))', 'bool'
        if type(op) not in CMP:
            gap(n, 'comparison operator')
        return f'({a} {CMP[type(op)]} {b})', 'bool'

    def range_arg(self, it, env, pend):
        if not (isinstance(it, ast.Call) and ast.unparse(it.func) == 'range' and len(it.args) == 1 and not it.keywords
                and 'range' not in env):
            gap(it, 'only range(n) is iterated here')
        e, t = self.num(it.args[0], env, pend)
        if t != 'Z':
            gap(it, f'range of {t}')
        return e

    def comprehension(self, n, env, pend):
        if any(g.ifs or g.is_async or not isinstance(g.target, ast.Name) for g in n.generators):
            gap(n, 'comprehension shape')
        if isinstance(n, ast.ListComp) and len(n.generators) == 2:      # [c for array in arrays for c in array.attr]
            g0, g1 = n.generators
            if not (isinstance(n.elt, ast.Name) and n.elt.id == g1.target.id and isinstance(g1.iter, ast.Attribute) and
                    isinstance(g1.iter.value, ast.Name) and g1.iter.value.id == g0.target.id and g0.target.id != g1.target.id):
                gap(n, 'nested comprehension')
            l, tl = self.expr(g0.iter, env, pend)
            if tl != 'pdlist' or ATTR.get(('pd', g1.iter.attr), ('', ''))[1] != 'lab':
                gap(n, f'flattening of {tl}')
            return self.part(pend, f'labs_concat (map (fun {mg(g0.target.id)} => {ATTR["pd", g1.iter.attr][0]} '
                                   f'{mg(g0.target.id)}) {l})'), 'lab'
        if len(n.generators) != 1:
            gap(n, 'comprehension shape')
        g = n.generators[0]
        var = g.target.id
        if isinstance(n, ast.ListComp) and not (isinstance(g.iter, ast.Call) and ast.unparse(g.iter.func) == 'range'):
            l, tl = self.expr(g.iter, env, pend)
            if tl == 'pdlist':                              # [<element, may raise> for a in arrays]
                sub = []
                e, te = self.expr(n.elt, {**env, var: 'pd'}, sub)
                if te != 'pd':
                    gap(n, f'list of {te}')
                return self.part(pend, f'gmap (fun {mg(var)} =>\n{self.wrap(sub, "GOk " + e)}) {l}'), 'pdlist'
        if isinstance(n, ast.ListComp) and isinstance(n.elt, ast.Subscript) and isinstance(n.elt.slice, ast.Name) and \
                n.elt.slice.id == var and var not in names_in(n.elt.value):
            l, tl = self.expr(n.elt.value, env, pend)       # [l[s] for s in idx]
            ix, ti = self.expr(g.iter, env, pend)
            if (tl, ti) != ('lab', 'zlist'):
                gap(n, f'selection from {tl} by {ti}')
            return self.part(pend, f'lab_getitems {l} {ix}'), 'lab'
        if var in names_in(n.elt):
            gap(n, 'the element depends on the loop variable')
        k = self.range_arg(g.iter, env, pend)
        sub = []
        e, t = self.expr(n.elt, env, sub)
        if t != 'val' or sub:
            gap(n, f'comprehension element of {t}')
        return f'(rep_range {e} {k})', 'vlist'

    def subscript(self, n, env, pend):
        base = ast.unparse(n.value)
        if base == 'np.s_' and 'np' not in env:            # np.s_[x] is x; np.s_[:] is slice(None); np.s_[a, b] the tuple
            def one(e):
                if isinstance(e, ast.Slice):
                    if e.lower or e.upper or e.step:
                        gap(e, 'np.s_ with a slice that has bounds')
                    return 'pfull'
                v, tv = self.expr(e, env, pend)
                if tv != 'val':
                    gap(e, f'np.s_ of {tv}')
                return v
            if isinstance(n.slice, ast.Tuple):
                return '(PTuple [' + '; '.join(one(e) for e in n.slice.elts) + '])', 'val'
            return one(n.slice), 'val'
        if isinstance(n.value, ast.Attribute) and n.value.attr == 'shape' and ast.unparse(n.slice) == '-1':
            o, to = self.expr(n.value.value, env, pend)     # x.shape[-1] (= the pinned property n_time)
            if to != 'pd':
                gap(n, f'shape of {to}')
            return f'(n_time {o})', 'Z'
        if isinstance(n.value, ast.Call) and ast.unparse(n.value.func) == 'np.arange' and len(n.value.args) == 1 \
                and not n.value.keywords:
            k, tk = self.num(n.value.args[0], env, pend)
            v, tv = self.expr(n.slice, env, pend)
            if (tk, tv) != ('Z', 'val'):
                gap(n, f'np.arange({tk})[{tv}]')
            return self.part(pend, f'np_arange_getitem {k} {v}'), 'zlist'
        l, tl = self.expr(n.value, env, pend)
        if tl == 'pdlist' and ast.unparse(n.slice) == '0':
            return self.part(pend, f'list_hd {l}'), 'pd'
        if tl == 'pdlist' and ast.unparse(n.slice) == '1:':
            return f'(tl {l})', 'pdlist'
        if isinstance(n.slice, (ast.Slice, ast.Tuple)):
            gap(n, 'slice / tuple subscript')
        v, tv = self.expr(n.slice, env, pend)
        if (tl, tv) == ('pd', 'val') and '__getitem__' in self.funcs:
            return self.part(pend, f'gbind ({self.funcs["__getitem__"]["coq"]} {l} {v}) obj_as_pd'), 'pd'
        if (tl, tv) != ('lab', 'val'):
            gap(n, f'subscript of {tl} by {tv}')
        return self.part(pend, f'lab_getitem {l} {v}'), 'lab'

    def call(self, n, env, pend):
        if n.keywords:
            gap(n, 'keyword argument')
        f, fs, args = n.func, ast.unparse(n.func), n.args
        if isinstance(f, ast.Name) and f.id in env:
            gap(n, 'call of a local name')
        if fs == 'isinstance' and len(args) == 2:
            a, ta = self.expr(args[0], env, pend)
            tys = [ast.unparse(t) for t in (args[1].elts if isinstance(args[1], ast.Tuple) else [args[1]])]
            if ta == 'lab' and tys == ['list']:
                return f'(lab_is_list {a})', 'bool'
            if ta != 'val' or any(t not in ISINST or t.split('.')[0] in env for t in tys):
                gap(n, f'isinstance of {ta}')
            return '(' + ' || '.join(f'{ISINST[t]} {a}' for t in tys) + ')', 'bool'
        if fs == 'int' and len(args) == 1:
            a, ta = self.expr(args[0], env, pend)
            if ta != 'val':
                gap(n, f'int of {ta}')
            return self.part(pend, f'py_int {a}'), 'val'
        if fs == 'len' and len(args) == 1:
            a, ta = self.expr(args[0], env, pend)
            if ta == 'vlist':
                return f'(zlen {a})', 'Z'
            if ta in ('val', 'lab'):
                return self.part(pend, f'{"py_len" if ta == "val" else "lab_len"} {a}'), 'Z'
            gap(n, f'len of {ta}')
        if fs in MINMAX and len(args) == 2:
            (a, ta), (b, tb) = self.num(args[0], env, pend), self.num(args[1], env, pend)
            if (ta, tb) != ('Z', 'Z'):
                gap(n, f'{fs} on {ta}, {tb}')
            return f'({MINMAX[fs]} {a} {b})', 'Z'
        if fs == 'tuple' and len(args) == 1:
            a, ta = self.expr(args[0], env, pend)
            if ta != 'vlist':
                gap(n, f'tuple of {ta}')
            return f'(PTuple {a})', 'val'
        if fs == 'sum' and len(args) == 1 and isinstance(args[0], ast.GeneratorExp):
            g = args[0]                                     # sum(int(<test on i>) for i in <tuple>)
            if len(g.generators) != 1 or g.generators[0].ifs or not isinstance(g.generators[0].target, ast.Name) or \
                    not (isinstance(g.elt, ast.Call) and ast.unparse(g.elt.func) == 'int' and len(g.elt.args) == 1
                         and not g.elt.keywords):
                gap(n, 'sum over a generator')
            it, ti = self.expr(g.generators[0].iter, env, pend)
            if ti != 'val':
                gap(n, f'iteration over {ti}')
            var, sub = g.generators[0].target.id, []
            c, tc = self.expr(g.elt.args[0], {**env, var: 'val'}, sub)
            if tc != 'bool' or sub:
                gap(n, 'counted condition')
            return f'(countb (fun {mg(var)} => {c}) {self.part(pend, f"py_iter {it}")})', 'Z'
        if isinstance(f, ast.Name) and f.id in self.funcs:
            g = self.funcs[f.id]
            got = [self.expr(a, env, pend) for a in args]
            if [t for _, t in got] != g['argtypes']:
                gap(n, f'arguments of {f.id}: {[t for _, t in got]}')
            return self.part(pend, ' '.join([g['coq']] + [a for a, _ in got])), g['ret']
        if isinstance(f, ast.Attribute) and not args and f.attr == 'tolist' and isinstance(f.value, ast.Subscript) and \
                isinstance(f.value.value, ast.Call) and ast.unparse(f.value.value.func) == 'np.array' and \
                len(f.value.value.args) == 1 and not f.value.value.keywords:
            l, tl = self.expr(f.value.value.args[0], env, pend)          # np.array(l)[v].tolist()
            if isinstance(f.value.slice, (ast.Slice, ast.Tuple)):
                gap(n, 'slice / tuple subscript')
            v, tv = self.expr(f.value.slice, env, pend)
            if (tl, tv) != ('lab', 'val'):
                gap(n, f'np.array({tl})[{tv}]')
            return self.part(pend, f'np_array_getitem_tolist {l} {v}'), 'lab'
        if isinstance(f, ast.Attribute) and not args and f.attr in METHOD0:
            o, to = self.expr(f.value, env, pend)
            if to != 'val':
                gap(n, f'method of {to}')
            return self.part(pend, f'{METHOD0[f.attr][0]} {o}'), METHOD0[f.attr][1]
        gap(n, 'call not in the vocabulary')

    # ------------------------------------------------------------ statements
    def ret(self, e, t):
        if (t, self.spec['ret']) == ('pd', 'pyobj'):
            return f'GOk (OArr {e})'
        if t != self.spec['ret']:
            gap(self.node, f'returns {t}')
        return f'GOk {e}'

    def bind_targets(self, tg, val, env, pend):
        """tuple-unpacking assignment -> (prefix, suffix, env)"""
        pre, suf = '', ''
        pairs = list(zip(tg.elts, val.elts)) if isinstance(val, ast.Tuple) and len(val.elts) == len(tg.elts) else None
        if pairs is None:
            pairs = [(tg, val)]
        env = dict(env)
        for t, v in pairs:
            e, te = self.expr(v, env, pend)
            if te != 'val':
                gap(v, f'unpacking of {te}')
            if isinstance(t, ast.Name):
                pre += f'let {mg(t.id)} := {e} in\n'
                names = [t.id]
            elif isinstance(t, ast.Tuple) and 1 <= len(t.elts) <= 3 and all(isinstance(x, ast.Name) for x in t.elts):
                names = [x.id for x in t.elts]
                pre += f'gbind (py_unpack{len(names)} {e}) (fun {pat(names)} =>\n'
                suf += ')'
            else:
                gap(t, 'assignment target')
            for x in names:
                if env.get(x, 'val') != 'val':
                    gap(t, f'{x} changes type')
                env[x] = 'val'
        if len(set(assigned([ast.Assign(targets=[tg], value=val)]))) != sum(1 for _ in assigned([ast.Assign(targets=[tg], value=val)])):
            gap(tg, 'a name is bound twice')
        return pre, suf, env

    def block(self, stmts, tail, env, may_return):
        if not stmts:
            if tail is None:
                gap(self.node, 'a path falls off the end of the function')
            return tail(env)
        s, rest = stmts[0], stmts[1:]
        k = lambda env2: self.block(rest, tail, env2, may_return)
        pend, src = [], ast.unparse(s)
        if isinstance(s, ast.Expr) and isinstance(s.value, ast.Constant) and isinstance(s.value.value, str):
            return k(env)                                                           # docstring
        if src in self.spec['pinned']:
            kind = self.spec['pinned'][src]
            self.found.append(src)
            if kind == 'super_getitem' and env.get('self') == 'pd' and env.get('s') == 'val' and 'obj' not in env:
                return f"gbind (np_super_getitem self' s') (fun obj' =>\n" + k({**env, 'obj': 'pyobj'}) + ')'
            if kind == 'hasattr_metadata' and env.get('obj') == 'pyobj':
                return ("match obj' with\n| OScal _ => GOk obj'\n| OArr obj' =>\n" + k({**env, 'obj': 'pd'}) + '\nend')
            if kind == 'sentinel' and 'skip' not in env:
                return k({**env, 'skip': 'sentinel'})
            if kind == 'dim_axis' and env.get('axis') == 'axis' and 'dim' not in env:
                env2 = {v: t for v, t in env.items() if v != 'axis'}
                return f"gbind (py_dim_axis axis') (fun dim' =>\n" + k({**env2, 'dim': 'cdim'}) + ')'
            if kind == 'all_annotated' and env.get('arrays') == 'pdlist' and 'is_pipeline_data' not in env:
                return k({**env, 'is_pipeline_data': 'allann'})
            if kind == 'not_any' and env.get('is_pipeline_data') == 'allann' and env.get('arrays') == 'pdlist' and may_return:
                return "if negb (existsb (fun _ : pd => true) arrays')\n then np_concatenate_none arrays'\n else " + k(env)
            if kind == 'not_all' and env.get('is_pipeline_data') == 'allann' and env.get('arrays') == 'pdlist':
                return "if negb (forallb (fun _ : pd => true) arrays')\n then GRaise EValue\n else " + k(env)
            if kind == 'np_concatenate' and env.get('arrays') == 'pdlist' and env.get('dim') == 'cdim' and 'result' not in env:
                return "gbind (np_concatenate_pd dim' arrays') (fun result' =>\n" + k({**env, 'result': 'shaped'}) + ')'
            if kind == 'construct' and may_return and not rest and \
                    [env.get(v) for v in ('result', 'fs', 's0', 'channel', 'metadata')] == ['shaped', 'rate', 'Z', 'lab', 'lab']:
                return "pd_construct result' fs' s0' channel' metadata'"
            gap(s, 'pinned statement in an unexpected place')
        if isinstance(s, ast.Return):
            if not may_return or rest or s.value is None:
                gap(s, 'return inside a joined branch / loop, before other statements, or without a value')
            e, t = self.expr(s.value, env, pend)
            return self.wrap(pend, self.ret(e, t))
        if isinstance(s, ast.Raise):
            exc = s.exc.func if isinstance(s.exc, ast.Call) else s.exc
            if s.cause or not isinstance(exc, ast.Name) or exc.id not in ERR or exc.id in env:
                gap(s, 'raise')
            if rest:                                        # unreachable: must be exactly the statements pinned as dead
                txt = [ast.unparse(r) for r in rest]
                if any(t not in self.spec['dead'] for t in txt):
                    gap(rest[0], 'statement after a raise')
                self.dead += txt
            return f'GRaise {ERR[exc.id]}'
        if isinstance(s, ast.Assign) and len(s.targets) == 1:
            tg = s.targets[0]
            if isinstance(tg, ast.Name):
                if tg.id in self.spec['locals'] and isinstance(s.value, ast.List) and not s.value.elts:
                    e, t = EMPTY[self.spec['locals'][tg.id]], self.spec['locals'][tg.id]
                else:
                    e, t = self.expr(s.value, env, pend)
                if env.get(tg.id, t) != t or t == 'sentinel':
                    gap(s, f'{tg.id} changes type from {env.get(tg.id)} to {t}')
                return self.wrap(pend, f'let {mg(tg.id)} := {e} in\n' + k({**env, tg.id: t}))
            if isinstance(tg, ast.Attribute) and isinstance(tg.value, ast.Name) and env.get(tg.value.id) == 'pd' \
                    and tg.value.id != 'self':
                e, t = self.expr(s.value, env, pend)
                if (tg.attr, t) not in SETATTR:
                    gap(s, f'attribute assignment of {t}')
                o = mg(tg.value.id)
                return self.wrap(pend, f'let {o} := {SETATTR[tg.attr, t]} {o} {e} in\n' + k(env))
            if isinstance(tg, ast.Tuple):
                pre, suf, env2 = self.bind_targets(tg, s.value, env, pend)
                return self.wrap(pend, pre + k(env2) + suf)
            gap(s, 'assignment target')
        if isinstance(s, ast.AugAssign) and type(s.op) in BIN:
            tg = s.target
            d, td = self.num(s.value, env, pend)
            if td != 'Z':
                gap(s, f'augmented assignment of {td}')
            if isinstance(tg, ast.Name) and env.get(tg.id) == 'Z':
                v = mg(tg.id)
                return self.wrap(pend, f'let {v} := ({v} {BIN[type(s.op)]} {d}) in\n' + k(env))
            if isinstance(tg, ast.Attribute) and isinstance(tg.value, ast.Name) and env.get(tg.value.id) == 'pd' and \
                    tg.value.id != 'self' and ATTR.get(('pd', tg.attr), ('', ''))[1] == 'Z' and (tg.attr, 'Z') in SETATTR:
                o = mg(tg.value.id)
                return self.wrap(pend, f'let {o} := {SETATTR[tg.attr, "Z"]} {o} ({ATTR["pd", tg.attr][0]} {o} '
                                       f'{BIN[type(s.op)]} {d}) in\n' + k(env))
            gap(s, 'augmented assignment target')
        if isinstance(s, ast.Expr) and isinstance(s.value, ast.Call) and isinstance(s.value.func, ast.Attribute) and \
                isinstance(s.value.func.value, ast.Name) and s.value.func.attr in ('append', 'extend') and \
                len(s.value.args) == 1 and not s.value.keywords:
            l = s.value.func.value.id
            e, t = self.expr(s.value.args[0], env, pend)
            if env.get(l) == 'lab' and t == 'lab' and l in self.spec['locals']:
                r = self.part(pend, f'lab_{s.value.func.attr} {mg(l)} {e}')
                return self.wrap(pend, f'let {mg(l)} := {r} in\n' + k(env))
            if s.value.func.attr != 'append':
                gap(s, 'extend')
            if env.get(l) != 'vlist' or t != 'val' or l not in self.spec['locals']:
                gap(s, 'append to something that is not a list built by the function itself')
            return self.wrap(pend, f'let {mg(l)} := ({mg(l)} ++ [{e}]) in\n' + k(env))
        if isinstance(s, ast.If):
            return self.if_(s, rest, k, env, may_return)
        if isinstance(s, ast.For):
            return self.for_(s, k, env)
        gap(s, 'statement not in the vocabulary')

    def joined_vars(self, s, env, local=()):
        """state of a statement whose branches fall through; names it binds that do not exist before must be local to it"""
        vs = [v for v in assigned([s]) if v not in local]
        inside, whole = names_in(s), names_in(self.node)
        new = [v for v in vs if v not in env and inside.count(v) != whole.count(v)]     # bound inside, used outside
        return [v for v in vs if v in env], new

    def if_(self, s, rest, k, env, may_return):
        vs = assigned([s])
        last = s
        while len(last.orelse) == 1 and isinstance(last.orelse[0], ast.If):
            last = last.orelse[0]
        if vs and not any(v in env for v in vs) and not last.orelse and not ends([s]) and self.joined_vars(s, env)[1]:
            # if / elif chain that only binds new names: falling through leaves them unbound
            if not (rest and isinstance(rest[0], ast.If) and isinstance(rest[0].test, ast.Call) and
                    ast.unparse(rest[0].test.func) == 'isinstance' and isinstance(rest[0].test.args[0], ast.Name) and
                    rest[0].test.args[0].id in vs):
                gap(s, 'names bound in some branches only must be read by the very next statement')
            envs = []

            def join(env2):
                if any(env2.get(v) != 'val' for v in vs):
                    gap(s, 'a branch does not bind every name')
                envs.append(env2)
                return 'GOk ' + tup(vs)

            def chain(c):
                pend = []
                t = self.truth(c.test, env, pend)
                a = self.block(c.body, join, env, False)
                b = chain(c.orelse[0]) if c.orelse else 'GRaise EUnbound'
                return self.wrap(pend, f'if {t}\n then {a}\n else {b}')
            return f'gbind ({chain(s)}) (fun {pat(vs)} =>\n' + k({**env, **{v: "val" for v in vs}}) + ')'
        pend = []
        c = self.truth(s.test, env, pend)
        eb, eo = ends(s.body), ends(s.orelse)
        if eb and eo:
            if rest:
                gap(rest[0], 'unreachable statement')
            a, b = self.block(s.body, None, env, may_return), self.block(s.orelse, None, env, may_return)
        elif eb or eo:
            a = self.block(s.body, None if eb else k, env, may_return)
            b = self.block(s.orelse, None if eo else k, env, may_return)
        else:
            old, new = self.joined_vars(s, env)
            vs, types = old + new, {}

            def join(env2):
                if any(env2[v] != env[v] for v in old):
                    gap(s, 'a variable changes type in a branch')
                for v in new:                               # a name bound by the statement and used after it:
                    if v not in env2 or types.setdefault(v, env2[v]) != env2[v]:       # bound on every path, one type
                        gap(s, f'{v} is not bound with one type on every path through the statement')
                return 'GOk ' + tup(vs)
            a, b = self.block(s.body, join, env, False), self.block(s.orelse, join, env, False)
            return self.wrap(pend, f'gbind (if {c}\n then {a}\n else {b}) (fun {pat(vs)} =>\n' + k({**env, **types}) + ')')
        return self.wrap(pend, f'if {c}\n then {a}\n else {b}')

    def for_(self, s, k, env):
        if s.orelse or not isinstance(s.target, ast.Name) or s.target.id in env:
            gap(s, 'for / else, or a loop variable that exists before')
        var = s.target.id
        vs, new = self.joined_vars(s, env, (var,))
        if new:
            gap(s, f'{new} bound in a loop body and used after the loop')
        pend = []

        def again(env2):
            if any(env2[v] != env[v] for v in vs):
                gap(s, 'a loop variable changes type')
            return 'GOk ' + tup(vs)
        if isinstance(s.iter, ast.Call):
            n = self.range_arg(s.iter, env, pend)
            if var in names_in(ast.Module(body=s.body, type_ignores=[])):
                gap(s, 'the counter of a range loop is used')
            body = self.block(s.body, again, env, False)
            loop = f'giter {n} (fun {pat(vs)} =>\n{body}) {tup(vs)}'
        else:
            it, ti = self.expr(s.iter, env, pend)
            if ti not in ('val', 'pdlist'):
                gap(s, f'iteration over {ti}')
            body = self.block(s.body, again, {**env, var: 'val' if ti == 'val' else 'pd'}, False)
            seq = self.part(pend, f"py_iter {it}") if ti == 'val' else it
            loop = f'gfold (fun {mg(var)} {pat(vs)} =>\n{body}) {seq} {tup(vs)}'
        return self.wrap(pend, f'gbind ({loop}) (fun {pat(vs)} =>\n' + k(env) + ')')

    # ------------------------------------------------------------ a whole function
    def translate(self):
        a = self.node.args
        names = [x.arg for x in a.args]
        defaults = dict(zip(names[len(names) - len(a.defaults):], (ast.unparse(d) for d in a.defaults)))
        if a.vararg or a.kwarg or a.kwonlyargs or a.posonlyargs or defaults != self.spec.get('defaults', {}) or \
                self.node.decorator_list or names != [p for p, _ in self.spec['params']]:
            gap(self.node, f'signature is not {self.spec["params"]} with defaults {self.spec.get("defaults", {})}')
        for n in ast.walk(self.node):
            if isinstance(n, (ast.Global, ast.Nonlocal, ast.Lambda, ast.FunctionDef, ast.ClassDef, ast.Try, ast.With,
                              ast.While, ast.Delete, ast.NamedExpr, ast.Yield, ast.YieldFrom, ast.Await)) and n is not self.node:
                gap(n, 'construct outside the fragment')
        text = self.block(self.node.body, None, dict(self.spec['params']), True)
        if sorted(self.found) != sorted(self.spec['pinned']) or sorted(self.dead) != sorted(self.spec['dead']):
            gap(self.node, f'pinned statements not all found exactly once: {sorted(self.found)}, dead {self.dead}')
        coq = self.spec.get('coq', 'gen_' + self.spec['name'])
        binders = ''.join(f' ({mg(p)} : {COQ_TYPE[t]})' for p, t in self.spec['params'])
        out = f'Definition {coq}{binders} : gres ({COQ_TYPE[self.spec["ret"]]}) :=\n{text}.\n'
        return out, {'coq': coq, 'argtypes': [t for _, t in self.spec['params']], 'ret': self.spec['ret'],
                     'pinned': sorted(self.found), 'dead': self.dead}


HEADER = '''From PV Require Import PData.TieLib PData.TieLibConcat.
Open Scope Z_scope.
'''


def find_defs(tree):
    """target name -> FunctionDef; fails on duplicates and on any other module-level / class-level binding of a target"""
    defs, classes = {}, {}
    mod_names = [t['name'] for t in TARGETS if t['cls'] is None] + list(PINNED_FUNCS)
    for n in tree.body:
        if isinstance(n, ast.ClassDef):
            if n.name in classes or n.name in mod_names:
                raise TranslatorGap(f'{n.name} is defined twice')
            classes[n.name] = n
        elif isinstance(n, (ast.FunctionDef, ast.AsyncFunctionDef)):
            if n.name in mod_names:
                if n.name in defs or not isinstance(n, ast.FunctionDef):
                    raise TranslatorGap(f'{n.name} is defined twice / is not a plain function')
                defs[n.name] = n
        else:
            for t in ast.walk(n):
                nm = t.id if isinstance(t, ast.Name) and not isinstance(t.ctx, ast.Load) else \
                    (t.asname or t.name).split('.')[0] if isinstance(t, ast.alias) else None
                if nm is not None and (nm in mod_names or nm in [t2['cls'] for t2 in TARGETS]):
                    raise TranslatorGap(f'{nm} is also bound at module level (line {n.lineno})')
    for f, (params, body) in PINNED_FUNCS.items():
        n = defs.get(f)
        a = n.args if n is not None else None
        if n is None or n.decorator_list or a.vararg or a.kwarg or a.kwonlyargs or a.posonlyargs or a.defaults or \
                [x.arg for x in a.args] != params or '\n'.join(
                    ast.unparse(b) for b in n.body if not (isinstance(b, ast.Expr) and isinstance(b.value, ast.Constant))) != body:
            raise TranslatorGap(f'{f}: signature / body differ from the pinned text')
    for cls in {t['cls'] for t in TARGETS if t['cls']}:
        if cls not in classes:
            raise TranslatorGap(f'class {cls} not found')
        c = classes[cls]
        if c.decorator_list or c.keywords or [ast.unparse(b) for b in c.bases] != ['np.ndarray']:
            raise TranslatorGap(f'class {cls}: bases / decorators changed')
        want = [t['name'] for t in TARGETS if t['cls'] == cls] + list(PROPERTIES)
        for n in c.body:
            if isinstance(n, (ast.FunctionDef, ast.AsyncFunctionDef)):
                if n.name in want:
                    if (cls, n.name) in defs or not isinstance(n, ast.FunctionDef):
                        raise TranslatorGap(f'{cls}.{n.name} is defined twice')
                    defs[cls, n.name] = n
            elif not (isinstance(n, ast.Expr) and isinstance(n.value, ast.Constant)):
                for t in ast.walk(n):
                    if isinstance(t, ast.Name) and t.id in want and not isinstance(t.ctx, ast.Load):
                        raise TranslatorGap(f'{cls}.{t.id} is also bound in the class body')
        for p, body in PROPERTIES.items():
            n = defs.get((cls, p))
            if n is None or [ast.unparse(d) for d in n.decorator_list] != ['property'] or \
                    [ast.unparse(b) for b in n.body if not (isinstance(b, ast.Expr) and isinstance(b.value, ast.Constant))] != [body]:
                raise TranslatorGap(f'property {cls}.{p} is not `{body}`')
    return defs


def translate(repo):
    """-> (text of coq/gen/PDataGen.v, info).  Raises TranslatorGap on anything outside the tables."""
    path = os.path.join(repo, 'psiaudio', 'pipeline.py')
    defs = find_defs(ast.parse(open(path).read()))
    funcs, parts, info = {}, [], {'functions': {}, 'source': path}
    for spec in TARGETS:
        key = spec['name'] if spec['cls'] is None else (spec['cls'], spec['name'])
        if key not in defs:
            raise TranslatorGap(f'{key} not found in {path}')
        text, sig = Fn(spec, defs[key], funcs).translate()
        funcs[spec['name']] = sig
        parts.append(f'(* pipeline.{spec["name"] if spec["cls"] is None else spec["cls"] + "." + spec["name"]}, '
                     f'line {defs[key].lineno} *)\n' + text)
        info['functions'][spec['name']] = {k: sig[k] for k in ('coq', 'argtypes', 'ret', 'pinned', 'dead')}
    info['pinned_expressions'] = sorted(PINNED_EXPR)
    info['pinned_properties'] = PROPERTIES
    info['pinned_functions'] = sorted(PINNED_FUNCS)
    return HEADER + '\n' + '\n'.join(parts), info


# ------------------------------------------------------------ self-test: the emitted definitions, evaluated by coqc
# (vm_compute), against the real functions called on real Python / NumPy values
def _z(v):
    v = int(v)
    return str(v) if v >= 0 else f'({v})'


def _zl(x):
    return '[' + '; '.join(_z(v) for v in x) + ']'


def _bl(x):
    return '[' + '; '.join('true' if b else 'false' for b in x) + ']'


def _oz(v):
    return 'None' if v is None else f'(Some {_z(v)})'


def pyval(v):
    """a real Python / NumPy index value -> its literal in the universe of PData/TieLib.v"""
    import numpy as np
    if isinstance(v, tuple):
        return '(PTuple [' + '; '.join(pyval(x) for x in v) + '])'
    if v is None:
        return 'PNone'
    if v is Ellipsis:
        return 'PEllipsis'
    if isinstance(v, (bool, np.bool_)):
        raise TranslatorGap('a bare bool is not an index value of the universe')
    if isinstance(v, np.integer):
        return f'(PNpInt {_z(v)})'
    if isinstance(v, int):
        return f'(PInt {_z(v)})'
    if isinstance(v, slice):
        return f'(PSlice {_oz(v.start)} {_oz(v.stop)} {_oz(v.step)})'
    if isinstance(v, np.ndarray) and v.ndim == 1:
        return f'(PArrB {_bl(v)})' if v.dtype == bool else f'(PArrZ {_zl(v)})'
    if isinstance(v, list):
        if v and all(isinstance(x, (bool, np.bool_)) for x in v):
            return f'(PListB {_bl(v)})'
        if all(isinstance(x, (int, np.integer)) and not isinstance(x, (bool, np.bool_)) for x in v):
            return f'(PListZ {_zl(v)})'
    raise TranslatorGap(f'value outside the universe: {v!r}')


def _items(rng, n):
    import numpy as np
    b = lambda: [rng.random() < 0.6 for _ in range(n)]
    return [rng.randint(-n - 1, n), np.int64(rng.randint(-n, n - 1)), slice(None), slice(rng.randint(-n - 2, n + 2), None),
            slice(rng.choice([None, -n - 1, -2, 0, 1, n + 3]), rng.choice([None, -1, 2, n + 1]), rng.choice([None, 1, 2, 3])),
            [rng.randint(-n, n - 1) for _ in range(rng.randint(1, 3))], np.array([rng.randint(0, n - 1), 0]), b(),
            np.array(b(), dtype=bool), [True] * n, np.ones(n, dtype=bool), np.zeros(0, dtype=int), Ellipsis, None]


def selftest_terms(pipeline, rng):
    """Coq boolean terms `generated definition applied to an input == what the real function returned`"""
    import numpy as np
    from fractions import Fraction
    exc = {IndexError: 'EIndex', ValueError: 'EValue', NotImplementedError: 'ENotImpl', TypeError: 'ETypeKey',
           KeyError: 'ETypeKey', UnboundLocalError: 'EUnbound'}
    terms = []
    # normalize_index
    idx = [None, Ellipsis, 3, -2, np.int32(1), slice(1, None, 2), [0, 2], [True, False], np.array([True, True]),
           np.array([True, False]), np.array([], dtype=bool), np.array([2, 1]), np.array([], dtype=int), (), (Ellipsis, Ellipsis),
           (None, Ellipsis, 1), (np.int64(1), np.array([0, 1]), np.array([True])), (slice(None), None, Ellipsis, [1]),
           (1, 2, 3, 4, 5), (Ellipsis,), (None,), ([True, True],)]
    for _ in range(30):
        its = _items(rng, 3)
        idx.append(tuple(rng.choice(its) for _ in range(rng.randint(0, 5))))
    for v in idx:
        for nd in sorted({1, 2, 3, rng.randint(0, 5)}):
            try:
                want = 'GOk ' + pyval(pipeline.normalize_index(v, nd))
            except (IndexError, ValueError) as e:
                want = 'GRaise ' + exc[type(e)]
            terms.append(f'eqb_gres eqb_pyval (gen_normalize_index {pyval(v)} {_z(nd)}) ({want})')
    # PipelineData.__getitem__: arrays filled with their own flat indices, integer labels, metadata dicts with an id
    def lab(l):
        return f'(LMany {_zl(l)})' if isinstance(l, list) else f'(LOne {_z(-1 if l is None else l)})'

    def md(m):
        return f'(LMany {_zl([d["id"] for d in m])})' if isinstance(m, list) else f'(LOne {_z(m["id"])})'
    for shape, s0 in [((6,), 5), ((3, 5), -7), ((2, 3, 4), 11), ((1, 4), 0), ((2, 1, 3), -64)]:
        n = len(shape)
        ch = [70 + i for i in range(shape[-2])] if n > 1 else 70
        mt = [{'id': 90 + i} for i in range(shape[-3])] if n > 2 else {'id': 90}
        make = lambda: pipeline.PipelineData(np.arange(int(np.prod(shape)), dtype=float).reshape(shape), fs=36000.0, s0=s0,
                                             channel=list(ch) if n > 1 else ch, metadata=[dict(d) for d in mt] if n > 2 else dict(mt))
        x = f'(mk {_zl(shape)} {_z(s0)} 36000 1 {lab(ch)} {md(mt)})'
        cands = [Ellipsis, slice(2, None), slice(-2, None), slice(-99, None), slice(99, None), slice(1, None, 2), None, 0, -1,
                 (Ellipsis, slice(1, -1)), (Ellipsis, slice(-3, None, 3)), (None, Ellipsis), (Ellipsis, 0), (0,) * n, (0,) * n + (Ellipsis,),
                 (Ellipsis, [True] * shape[-1]), (Ellipsis, [True] * (shape[-1] - 1) + [False]), (Ellipsis, [0]), (Ellipsis, None),
                 [0], [True] + [False] * (shape[0] - 1), np.array([False] * (shape[0] - 1) + [True]), np.array([0, 0]), np.int64(0),
                 (None, None, None, Ellipsis), (slice(None), None), [shape[0]], (np.array([True] * shape[0]),)]
        for _ in range(14):
            its = [_items(rng, k) for k in shape]
            t = tuple(rng.choice(its[a][:12]) if rng.random() < 0.85 else rng.choice([Ellipsis, None]) for a in range(n))
            cands.append(t if rng.random() < 0.8 else t[:rng.randint(0, n)])
        for v in cands:
            try:
                r = make()[v]
            except tuple(exc) as e:
                got = f'(RErr {exc[type(e)]})'
            else:
                if isinstance(r, pipeline.PipelineData) and r.ndim and r.ndim <= 3:
                    f = Fraction(float(r.fs))
                    got = (f'(mkv {_zl(r.shape)} {_zl(np.asarray(r).ravel())} {_z(r.s0)} {_z(f.numerator)} {_z(f.denominator)} '
                           f'{lab(r.channel)} {md(r.metadata)})')
                elif np.ndim(r) == 0:
                    got = f'(RScalar {_z(r)})'
                else:
                    continue                                # above 3-D: the model has no such result
            terms.append(f'check_gen_getitem (gen_getitem {x} {pyval(v)}) {got}')
    # concat on annotated pieces: adjacent / gapped / overlapping time splits, other rate, labels, metadata, ndim; the
    # channel and the epoch axis; axis given as int, name, or something unsupported; no piece at all
    def lit(r):
        f = Fraction(float(r.fs))
        return (f'(mkv {_zl(r.shape)} {_zl(np.asarray(r).ravel())} {_z(r.s0)} {_z(f.numerator)} {_z(f.denominator)} '
                f'{lab(r.channel)} {md(r.metadata)})')

    def mk(shape, s0=0, fs=36000.0, c0=70, m0=90):
        n = len(shape)
        return pipeline.PipelineData(np.arange(int(np.prod(shape)), dtype=float).reshape(shape) + 1000 * s0, fs=fs, s0=s0,
                                     channel=[c0 + i for i in range(shape[-2])] if n > 1 else c0,
                                     metadata=[{'id': m0 + i} for i in range(shape[-3])] if n > 2 else {'id': m0})
    AX = {-1: '(AxInt (-1))', -2: '(AxInt (-2))', -3: '(AxInt (-3))', 'time': '(AxName DTime)', 'channel': '(AxName DChan)',
          'epoch': '(AxName DEpoch)', 0: '(AxInt 0)', 'frequency': 'AxOther', 2: '(AxInt 2)'}
    groups = []
    for shape in [(6,), (2, 6), (2, 2, 6)]:
        x = mk(shape, s0=4)
        a, b, c = x[..., :2], x[..., 2:5], x[..., 5:]
        groups += [[a, b, c], [a, c], [b, a], [a, b, b], [a], [a, mk(shape[:-1] + (3,), s0=6, fs=18000.0)],
                   [a, mk(shape[:-1] + (3,), s0=6, c0=71)], [a, mk(shape[:-1] + (3,), s0=6, m0=91)], [a, mk((3,), s0=6)],
                   [x, mk(shape, s0=4, c0=80, m0=95)], [x, x], [x, mk(shape[:-1] + (4,), s0=4)]]
    groups += [[], [mk((1, 3)), mk((2, 3), c0=75)], [mk((3,)), mk((2, 3))]]
    for ps in groups:
        for ax in ([-1, 'time', -2, 'epoch'] if ps else [-1, 'frequency']) + [rng.choice([-3, 'channel', 0, 2, 'frequency'])]:
            try:
                r = pipeline.concat(list(ps), axis=ax)
            except tuple(exc) as e:
                got = f'(RErr {exc[type(e)]})'
            else:
                if not (isinstance(r, pipeline.PipelineData) and 1 <= r.ndim <= 3):
                    continue
                got = lit(r)
            terms.append(f'check_gen_getitem (gen_concat (pds [{"; ".join(lit(q) for q in ps)}]) {AX[ax]}) {got}')
    return terms


if __name__ == '__main__':
    import sys
    print(translate(sys.argv[1] if len(sys.argv) > 1 else '/repo')[0])
