"""pycapture2coq - fail-closed `ast` translator: the coroutine psiaudio.pipeline.capture_epoch -> coq/gen/CaptureGen.v (C05).

COROUTINE -> STEP FUNCTION.  A generator function decorated with @coroutine of the shape

    <statements S0>                 # locals set up before the loop
    while True:
        slb, data = (yield)         # one send((slb, data))
        <statements S>              # at most one target(...) call on every path; `break` ends the generator

becomes  <f>_init  : the parameters -> state          (S0; the state = parameters + locals assigned in S0)
         <f>_step  : state -> Z -> list Z -> state * option ce_out * bool      (S; the bool says `break` was reached)
Statements are translated one by one into a chain of `let`s; `if` splits the chain (the rest of the body is translated
under both branches), `x op= e` and `x = e` rebind x, `xs.append(e)` rebinds xs to xs ++ [e], target(e) records the
output of the path.  A local of the loop body that is read before it is assigned on that path (i.e. that would carry
a value from one send to the next without being part of the state) is rejected.

Everything that is not integer / list bookkeeping is in the tables below: a statement whose `ast.unparse` text is a key
of PINNED is replaced by what the table says (None = dropped); the float guards int(round(e)) are integer identities
(the harness hands the model the effective integers); data.shape[-1] is the chunk length, data[..., a:b] a py_slice.
ANY other statement, expression, call, name, keyword, decorator, default value or signature raises Gap.

The translator produces a small tree (IR) first; the Coq text is printed from it, and `selftest` interprets the same
tree with a few-line evaluator and compares it, send by send (state, output, finished), with the REAL coroutine run on
NumPy arrays (state read from the suspended generator frame).  `examples` turns real runs into `Example`s that coqc
checks against the emitted text itself.
"""
import ast
import os

RELPATH = os.path.join('psiaudio', 'pipeline.py')
FUNC = 'capture_epoch'
PREFIX = 'capture_epoch'


class Gap(Exception):
    pass


# ---- tables --------------------------------------------------------------------------------------------------------
SIGNATURE = ['epoch_s0', 'epoch_samples', 'info', 'target', 'fs', 'auto_send']       # positional parameters, in order
COROUTINE_DEF = ("def coroutine(func):\n\n    def start(*args, **kwargs):\n        cr = func(*args, **kwargs)\n"
                 "        next(cr)\n        return cr\n    return start")          # docstring removed
# Coq types of the variables that may be part of the state (anything else in the state raises)
VAR_TYPES = {'epoch_s0': 'Z', 'epoch_samples': 'Z', 'current_s0': 'Z', 'info': 'Z', 'md': 'Z',
             'accumulated_data': 'list (list Z)', 'auto_send': 'bool'}
# parameters that are not state: the callback (only ever called) and the sampling rate (only ever passed on, see MISSED)
NON_STATE_PARAMS = {'target', 'fs'}
# pinned statements: unparse text -> None (dropped) | (name, IR expression) (a binding)
PINNED = {
    # the request's info dict and its 'metadata' entry are one identity in the model (c_rid)
    'info = info.copy()': ('info', ('var', 'info')),
    "md = info.pop('metadata', {})": ('md', ('var', 'info')),
    # logging
    "m = 'Missed samples for epoch of %d samples starting at %d'": None,
    'log.warning(m, epoch_samples, epoch_s0)': None,
    # writes the metadata of the piece c only (no sample, shape or integer local): the model's tag c_rid stands for it
    "if hasattr(c, 'metadata'):\n    c.metadata.update(md)\n    c.metadata.update(info)": None,
}
# target(<this call>) is the "missed" stub: an empty PipelineData that carries s0 and the request's metadata
MISSED_FUNC, MISSED_ARGS, MISSED_KW = 'PipelineData', ['[]'], {'fs': 'fs'}      # + s0=<int expr>, metadata=<name>
BINOPS = {ast.Add: '+', ast.Sub: '-', ast.Mult: '*'}       # no // or % in this coroutine: not covered (Z.div by 0 differs)
PAIR_VARS = {'oldest_samples'}          # locals that hold a (start sample, chunk) pair: x[0] = fst, x[1] = snd
HEAD_LISTS = {'prior_samples'}          # lists read with l[0] / shortened with l.pop(0)
CMPOPS = {ast.Lt: '<?', ast.LtE: '<=?', ast.Gt: '>?', ast.GtE: '>=?', ast.Eq: '=?'}


# ---- expressions ---------------------------------------------------------------------------------------------------
def _is_name(n, name=None):
    return isinstance(n, ast.Name) and (name is None or n.id == name)


def expr(n, env, notes):
    """integer / list expression -> IR"""
    if isinstance(n, ast.Name):
        if n.id not in env:
            raise Gap(f'line {n.lineno}: `{n.id}` is read before it is assigned on this path (or is not a known local)')
        return ('var', n.id)
    if isinstance(n, ast.Constant) and type(n.value) is int:
        return ('int', n.value)
    if isinstance(n, ast.List) and not n.elts:
        return ('nil',)
    if isinstance(n, ast.Tuple) and len(n.elts) == 2:
        return ('pair', expr(n.elts[0], env, notes), expr(n.elts[1], env, notes))
    if isinstance(n, ast.Subscript) and _is_name(n.value) and n.value.id in PAIR_VARS \
            and isinstance(n.slice, ast.Constant) and n.slice.value in (0, 1) and type(n.slice.value) is int:
        return ('fst' if n.slice.value == 0 else 'snd', expr(n.value, env, notes))
    if isinstance(n, ast.BinOp) and type(n.op) in BINOPS:
        return ('bin', BINOPS[type(n.op)], expr(n.left, env, notes), expr(n.right, env, notes))
    if isinstance(n, ast.UnaryOp) and isinstance(n.op, ast.USub):
        return ('bin', '-', ('int', 0), expr(n.operand, env, notes))
    if isinstance(n, ast.Call) and not n.keywords and _is_name(n.func):
        f, a = n.func.id, n.args
        if f == 'int' and len(a) == 1 and isinstance(a[0], ast.Call) and _is_name(a[0].func, 'round') \
                and len(a[0].args) == 1 and not a[0].keywords:
            notes.add('int(round(e)) = e on integers (the harness hands the model the effective integers)')
            return expr(a[0].args[0], env, notes)
        if f in ('min', 'max') and len(a) == 2:
            return (f, expr(a[0], env, notes), expr(a[1], env, notes))
        if f == 'len' and len(a) == 1:
            return ('len', expr(a[0], env, notes))
    if isinstance(n, ast.Call) and _is_name(n.func, 'concat') and len(n.args) == 1 \
            and [(k.arg, ast.unparse(k.value)) for k in n.keywords] == [('axis', '-1')]:
        return ('concat', expr(n.args[0], env, notes))                  # pieces joined along time
    if isinstance(n, ast.Subscript) and isinstance(n.value, ast.Attribute) and n.value.attr == 'shape' \
            and ast.unparse(n.slice) == '-1':
        return ('len', expr(n.value.value, env, notes))                 # x.shape[-1]: samples along time
    if isinstance(n, ast.Subscript) and isinstance(n.slice, ast.Tuple) and len(n.slice.elts) == 2 \
            and isinstance(n.slice.elts[0], ast.Constant) and n.slice.elts[0].value is Ellipsis \
            and isinstance(n.slice.elts[1], ast.Slice):
        s = n.slice.elts[1]                                             # x[..., a:b]
        if s.step is not None or s.lower is None or s.upper is None:
            raise Gap(f'line {n.lineno}: slice form `{ast.unparse(n)}` not covered')
        return ('slice', expr(n.value, env, notes), expr(s.lower, env, notes), expr(s.upper, env, notes))
    raise Gap(f'line {getattr(n, "lineno", "?")}: expression `{ast.unparse(n)}` not covered')


def cond(n, env, notes):
    if isinstance(n, ast.Compare) and len(n.ops) == 1 and type(n.ops[0]) in CMPOPS:
        return ('cmp', CMPOPS[type(n.ops[0])], expr(n.left, env, notes), expr(n.comparators[0], env, notes))
    if isinstance(n, ast.Compare) and len(n.ops) == 1 and isinstance(n.ops[0], ast.NotEq):
        return ('not', ('cmp', '=?', expr(n.left, env, notes), expr(n.comparators[0], env, notes)))
    if isinstance(n, ast.Name) and VAR_TYPES.get(n.id) == 'bool' and n.id in env:
        return ('var', n.id)
    if isinstance(n, ast.UnaryOp) and isinstance(n.op, ast.Not):
        return ('not', cond(n.operand, env, notes))
    if isinstance(n, ast.BoolOp):
        r = cond(n.values[0], env, notes)
        for v in n.values[1:]:
            r = ('and' if isinstance(n.op, ast.And) else 'or', r, cond(v, env, notes))
        return r
    raise Gap(f'line {getattr(n, "lineno", "?")}: condition `{ast.unparse(n)}` not covered')


# ---- statements ----------------------------------------------------------------------------------------------------
def _target_call(st, env, notes):
    """target(x) -> ('data', IR) ; target(PipelineData([], fs=fs, s0=e, metadata=v)) -> ('missed', IR, IR)"""
    c = st.value
    if len(c.args) != 1 or c.keywords:
        raise Gap(f'line {st.lineno}: target call `{ast.unparse(st)}` not covered')
    a = c.args[0]
    if isinstance(a, ast.Name):
        return ('data', expr(a, env, notes))
    if isinstance(a, ast.Call) and _is_name(a.func, MISSED_FUNC) and [ast.unparse(x) for x in a.args] == MISSED_ARGS:
        kw = {k.arg: k.value for k in a.keywords}
        if len(kw) == len(a.keywords) and set(kw) == set(MISSED_KW) | {'s0', 'metadata'} \
                and all(ast.unparse(kw[k]) == v for k, v in MISSED_KW.items()) and isinstance(kw['metadata'], ast.Name):
            return ('missed', expr(kw['s0'], env, notes), expr(kw['metadata'], env, notes))
    raise Gap(f'line {st.lineno}: target call `{ast.unparse(st)}` not covered')


def block(stmts, env, out, state, notes, mode):
    """statement list (+ what follows it: nothing) -> IR tree.  env: names bound here; out: output recorded so far."""
    if not stmts:
        return ('end', out, False)
    st, rest = stmts[0], stmts[1:]
    text = ast.unparse(st)
    if text in PINNED:
        act = PINNED[text]
        notes.add(f'pinned: `{text.splitlines()[0]}{" ..." if chr(10) in text else ""}` -> '
                  + ('dropped' if act is None else f'{act[0]} := {act[1][1]}'))
        if act is None:
            return block(rest, env, out, state, notes, mode)
        if act[1][1] not in env:
            raise Gap(f'line {st.lineno}: pinned statement reads `{act[1][1]}` before it is assigned')
        return ('let', act[0], act[1], block(rest, env | {act[0]}, out, state, notes, mode))
    if isinstance(st, ast.Expr) and isinstance(st.value, ast.Constant) and isinstance(st.value.value, str):
        return block(rest, env, out, state, notes, mode)              # a docstring / bare string
    if mode == 'xloop' and isinstance(st, ast.Assign) and len(st.targets) == 1 and isinstance(st.targets[0], ast.Name) \
            and isinstance(st.value, ast.Subscript) and _is_name(st.value.value) and st.value.value.id in HEAD_LISTS \
            and ast.unparse(st.value.slice) == '0':
        x, l = st.targets[0].id, expr(st.value.value, env, notes)          # x = l[0]: IndexError on an empty list
        return ('let_head', x, l, block(rest, env | {x}, out, state, notes, mode))
    if mode == 'xloop' and isinstance(st, ast.Expr) and ast.unparse(st) in [f'{l}.pop(0)' for l in HEAD_LISTS]:
        l = st.value.func.value.id                                          # l.pop(0): IndexError on an empty list
        expr(st.value.func.value, env, notes)
        return ('let_pop0', l, block(rest, env, out, state, notes, mode))
    if isinstance(st, ast.Assign) and len(st.targets) == 1 and isinstance(st.targets[0], ast.Name):
        x = st.targets[0].id
        return ('let', x, expr(st.value, env, notes), block(rest, env | {x}, out, state, notes, mode))
    if isinstance(st, ast.AugAssign) and isinstance(st.target, ast.Name) and type(st.op) in BINOPS:
        x = st.target.id
        e = ('bin', BINOPS[type(st.op)], expr(st.target, env, notes), expr(st.value, env, notes))
        return ('let', x, e, block(rest, env, out, state, notes, mode))
    if isinstance(st, ast.Expr) and isinstance(st.value, ast.Call):
        c = st.value
        if isinstance(c.func, ast.Attribute) and c.func.attr == 'append' and isinstance(c.func.value, ast.Name) \
                and len(c.args) == 1 and not c.keywords:
            x = c.func.value.id
            e = ('snoc', expr(c.func.value, env, notes), expr(c.args[0], env, notes))
            return ('let', x, e, block(rest, env, out, state, notes, mode))
        if _is_name(c.func, 'target') and mode == 'step':
            if out is not None:
                raise Gap(f'line {st.lineno}: a second target(...) call on one path')
            o = _target_call(st, env, notes)
            return ('out', o, block(rest, env, o[0], state, notes, mode))
    if isinstance(st, ast.If):
        c = cond(st.test, env, notes)
        return ('if', c, block(st.body + rest, env, out, state, notes, mode),
                block(st.orelse + rest, env, out, state, notes, mode))
    if isinstance(st, ast.Break) and mode in ('step', 'xloop'):
        return ('end', out, True)
    raise Gap(f'line {st.lineno}: statement `{text.splitlines()[0]}` not covered')


def _function(tree):
    funcs = [n for n in tree.body if isinstance(n, ast.FunctionDef) and n.name == FUNC]
    if len(funcs) != 1:
        raise Gap(f'{len(funcs)} top-level definitions of {FUNC}')
    co = [n for n in tree.body if isinstance(n, ast.FunctionDef) and n.name == 'coroutine']
    if len(co) == 1 and co[0].body and isinstance(co[0].body[0], ast.Expr) and isinstance(co[0].body[0].value, ast.Constant) \
            and isinstance(co[0].body[0].value.value, str):
        co[0].body = co[0].body[1:]                                     # its docstring is free
    if len(co) != 1 or ast.unparse(co[0]) != COROUTINE_DEF:
        raise Gap('the @coroutine decorator is not the pinned auto-start decorator')
    for n in ast.walk(tree):
        if isinstance(n, (ast.Assign, ast.AugAssign, ast.AnnAssign, ast.Delete, ast.Global)):
            for t in ast.walk(n):
                if isinstance(t, ast.Name) and isinstance(t.ctx, (ast.Store, ast.Del)) and t.id in (FUNC, 'coroutine'):
                    raise Gap(f'`{t.id}` is rebound at line {t.lineno}')
    f = funcs[0]
    if [ast.unparse(d) for d in f.decorator_list] != ['coroutine']:
        raise Gap(f'decorators of {FUNC}: {[ast.unparse(d) for d in f.decorator_list]}')
    a = f.args
    if [x.arg for x in a.args] != SIGNATURE or a.posonlyargs or a.kwonlyargs or a.vararg or a.kwarg:
        raise Gap(f'signature of {FUNC} is `{ast.unparse(f.args)}`, pinned {SIGNATURE}')
    return f


def translate_source(src):
    """-> dict(state=[names], params=[names], defaults={}, init=IR, step=IR, notes=[..])"""
    f = _function(ast.parse(src))
    notes = set()
    body = list(f.body)
    if not body or not isinstance(body[-1], ast.While) or ast.unparse(body[-1].test) != 'True' or body[-1].orelse:
        raise Gap(f'{FUNC} does not end with `while True:`')
    pre, loop = body[:-1], body[-1].body
    if not loop or ast.unparse(loop[0]) != 'slb, data = (yield)':
        raise Gap(f'the loop of {FUNC} does not start with `slb, data = (yield)`')
    for n in ast.walk(f):
        if isinstance(n, (ast.Yield, ast.YieldFrom, ast.Await, ast.Return, ast.Continue, ast.Try, ast.With, ast.For,
                          ast.Lambda, ast.FunctionDef, ast.Global, ast.Nonlocal, ast.NamedExpr)) \
                and not (isinstance(n, ast.Yield) and n is loop[0].value) and n is not f:
            raise Gap(f'line {n.lineno}: `{type(n).__name__}` inside {FUNC}')
        if isinstance(n, ast.While) and n is not body[-1]:
            raise Gap(f'line {n.lineno}: a second loop inside {FUNC}')
    params = [a.arg for a in f.args.args if a.arg not in NON_STATE_PARAMS]
    defaults = {a.arg: d for a, d in zip(f.args.args[len(f.args.args) - len(f.args.defaults):], f.args.defaults)
                if a.arg not in NON_STATE_PARAMS}
    if [ast.unparse(d) for d in f.args.defaults][:-len(defaults) or None] != ['None'] or list(defaults) != ['auto_send']:
        raise Gap(f'defaults of {FUNC}: `{ast.unparse(f.args)}`')
    for k, d in defaults.items():
        if not (isinstance(d, ast.Constant) and type(d.value) is bool):
            raise Gap(f'default of {k} is not a bool constant')
    init = block(pre, set(params), None, None, notes, 'init')
    state = list(params)

    def assigned(t):
        if t[0] == 'let':
            if t[1] not in state:
                state.append(t[1])
            assigned(t[3])
        elif t[0] != 'end':
            raise Gap('branching before the loop is not covered')
    assigned(init)
    for v in state:
        if v not in VAR_TYPES:
            raise Gap(f'state variable `{v}` has no type in the table')
    step = block(loop[1:], set(state) | {'slb', 'data'}, None, state, notes, 'step')
    return {'state': state, 'params': params, 'defaults': {k: d.value for k, d in defaults.items()},
            'init': init, 'step': step, 'notes': sorted(notes), 'lines': (f.lineno, f.end_lineno)}


# ---- printing Coq ----------------------------------------------------------------------------------------------------
def _z(n):
    return f'{n}%Z' if n >= 0 else f'({n})%Z'


def coq_expr(e):
    k = e[0]
    if k == 'var':
        return e[1]
    if k == 'int':
        return _z(e[1])
    if k == 'nil':
        return '[]'
    if k == 'bin':
        return f'({coq_expr(e[2])} {e[1]} {coq_expr(e[3])})'
    if k in ('min', 'max'):
        return f'(Z.{k} {coq_expr(e[1])} {coq_expr(e[2])})'
    if k == 'len':
        return f'(zlen {coq_expr(e[1])})'
    if k == 'concat':
        return f'(concat {coq_expr(e[1])})'
    if k == 'slice':
        return f'(py_slice (Some {coq_expr(e[2])}) (Some {coq_expr(e[3])}) {coq_expr(e[1])})'
    if k == 'snoc':
        return f'({coq_expr(e[1])} ++ [{coq_expr(e[2])}])'
    if k == 'pair':
        return f'({coq_expr(e[1])}, {coq_expr(e[2])})'
    if k in ('fst', 'snd'):
        return f'({k} {coq_expr(e[1])})'
    if k == 'cmp':
        return f'({coq_expr(e[2])} {e[1]} {coq_expr(e[3])})'
    if k == 'not':
        return f'(negb {coq_expr(e[1])})'
    if k in ('and', 'or'):
        return f'({coq_expr(e[1])} {"&&" if k == "and" else "||"} {coq_expr(e[2])})'
    raise Gap(f'printer: {k}')


def coq_tree(t, state, ind, mode):
    """mode 'init': the state record; 'step': (state, output, finished); 'xloop': Some (variables, finished) | None"""
    p = ' ' * ind
    if t[0] == 'let':
        return f'{p}let {t[1]} := {coq_expr(t[2])} in\n' + coq_tree(t[3], state, ind, mode)
    if t[0] == 'let_head' and mode == 'xloop':
        return (f'{p}match {coq_expr(t[2])} with\n{p}| [] => None\n{p}| {t[1]} :: _ =>\n'
                + coq_tree(t[3], state, ind + 2, mode) + f'\n{p}end')
    if t[0] == 'let_pop0' and mode == 'xloop':
        return (f'{p}match {t[1]} with\n{p}| [] => None\n{p}| _ :: {t[1]} =>\n'
                + coq_tree(t[2], state, ind + 2, mode) + f'\n{p}end')
    if t[0] == 'out' and mode == 'step':
        o = t[1]
        rhs = f'OTarget {coq_expr(o[1])}' if o[0] == 'data' else f'OMissed {coq_expr(o[1])} {coq_expr(o[2])}'
        return f'{p}let out_ := {rhs} in\n' + coq_tree(t[2], state, ind, mode)
    if t[0] == 'if':
        return (f'{p}if {coq_expr(t[1])} then\n' + coq_tree(t[2], state, ind + 2, mode) + f'\n{p}else\n'
                + coq_tree(t[3], state, ind + 2, mode))
    if t[0] == 'end':
        if mode == 'xloop':
            return f'{p}Some ({", ".join(state)}, {"true" if t[2] else "false"})'
        st = f'mk_ce_state {" ".join(state)}'
        if mode == 'init':
            return f'{p}{st}'
        return f'{p}({st}, {"Some out_" if t[1] else "None"}, {"true" if t[2] else "false"})'
    raise Gap(f'printer: {t[0]}')


def coq_text(tr, header=''):
    state, params = tr['state'], tr['params']
    fields = '; '.join(f'ce_{v} : {VAR_TYPES[v]}' for v in state)
    unpack = ''.join(f'  let {v} := ce_{v} st_ in\n' for v in state)
    args = ' '.join(f'({v} : {VAR_TYPES[v]})' for v in params)
    out = [header,
           'From Coq Require Import ZArith List Bool.',
           'From PV Require Import Common.PySlice Extract.Model.',
           'Import ListNotations.', 'Open Scope Z_scope.', '',
           '(* what target(...) receives: the joined pieces, or the empty "missed" PipelineData (s0, metadata identity) *)',
           'Inductive ce_out := OTarget (d : list Z) | OMissed (s0 md : Z).', '',
           '(* the locals of the coroutine that live from one send to the next *)',
           f'Record ce_state := mk_ce_state {{ {fields} }}.', '',
           '(* the statements before `while True:` *)',
           f'Definition {PREFIX}_init {args} : ce_state :=', coq_tree(tr['init'], state, 2, 'init') + '.', '']
    for k, v in tr['defaults'].items():
        out += [f'Definition {PREFIX}_default_{k} : bool := {"true" if v else "false"}.']
    out += ['', '(* one `slb, data = (yield)` iteration: new state, what target received (if called), whether `break` was reached *)',
            f'Definition {PREFIX}_step (st_ : ce_state) (slb : Z) (data : list Z) : ce_state * option ce_out * bool :=',
            unpack + coq_tree(tr['step'], state, 2, 'step') + '.', '']
    return '\n'.join(out)


# ---- the independent evaluator of the tree, and the comparison with the real coroutine -------------------------------
def _py_slice(l, a, b):
    n = len(l)
    adj = lambda x: max(0, x + n) if x < 0 else min(x, n)        # Common/PySlice.v adj_bound
    lo, hi = adj(a), adj(b)
    return l[lo:lo + max(hi - lo, 0)]


def ev(e, env):
    k = e[0]
    if k == 'var':
        return env[e[1]]
    if k == 'int':
        return e[1]
    if k == 'nil':
        return []
    if k == 'bin':
        a, b = ev(e[2], env), ev(e[3], env)
        if type(a) is not int or type(b) is not int:
            raise Gap('evaluator: arithmetic on a non-integer')
        return a + b if e[1] == '+' else a - b if e[1] == '-' else a * b
    if k == 'min':
        return min(ev(e[1], env), ev(e[2], env))
    if k == 'max':
        return max(ev(e[1], env), ev(e[2], env))
    if k == 'len':
        return len(ev(e[1], env))
    if k == 'concat':
        return [x for p in ev(e[1], env) for x in p]
    if k == 'slice':
        return _py_slice(ev(e[1], env), ev(e[2], env), ev(e[3], env))
    if k == 'snoc':
        return ev(e[1], env) + [ev(e[2], env)]
    if k == 'pair':
        return (ev(e[1], env), ev(e[2], env))
    if k in ('fst', 'snd'):
        return ev(e[1], env)[0 if k == 'fst' else 1]
    if k == 'cmp':
        a, b = ev(e[2], env), ev(e[3], env)
        return {'<?': a < b, '<=?': a <= b, '>?': a > b, '>=?': a >= b, '=?': a == b}[e[1]]
    if k == 'not':
        return not ev(e[1], env)
    if k == 'and':
        return ev(e[1], env) and ev(e[2], env)
    if k == 'or':
        return ev(e[1], env) or ev(e[2], env)
    raise Gap(f'evaluator: {k}')


def run_tree(t, env, state):
    env, out = dict(env), None
    while True:
        if t[0] == 'let':
            env[t[1]] = ev(t[2], env)
            t = t[3]
        elif t[0] == 'out':
            o = t[1]
            out = ['data', ev(o[1], env)] if o[0] == 'data' else ['missed', ev(o[1], env), ev(o[2], env)]
            t = t[2]
        elif t[0] == 'if':
            t = t[2] if ev(t[1], env) else t[3]
        elif t[0] == 'let_head':
            l = ev(t[2], env)
            if not l:
                return None                              # IndexError
            env[t[1]] = l[0]
            t = t[3]
        elif t[0] == 'let_pop0':
            if not env[t[1]]:
                return None
            env[t[1]] = env[t[1]][1:]
            t = t[2]
        else:
            return {v: env[v] for v in state}, (out if t[1] else None), t[2]


def real_run(repo_module, lo, n, auto, sends):
    """drives the REAL coroutine; after every send: (locals of the suspended frame | None, output | None, finished)"""
    import logging
    import numpy as np
    logging.getLogger('psiaudio.pipeline').setLevel(logging.ERROR)
    got, steps = [], []
    info = {'metadata': {'rid': 7}, 'x': 1}
    cap = repo_module.capture_epoch(lo, n, info, got.append, fs=1000.0, auto_send=auto)
    for slb, chunk in sends:
        k, done = len(got), False
        try:
            cap.send((slb, np.array(chunk, dtype=np.int64)))
        except StopIteration:
            done = True
        if len(got) - k > 1:
            raise Gap('self-test: two target calls in one send')
        o = None
        if len(got) > k:
            a = got[k]
            if isinstance(a, repo_module.PipelineData) and a.shape == (0,):
                o = ['missed', int(a.s0), 0 if a.metadata == info['metadata'] else -1]
            else:
                o = ['data', [int(v) for v in np.asarray(a)]]
        loc = None
        if not done:
            fl = cap.gi_frame.f_locals
            loc = {'epoch_s0': int(fl['epoch_s0']), 'epoch_samples': int(fl['epoch_samples']),
                   'current_s0': int(fl['current_s0']), 'auto_send': bool(fl['auto_send']),
                   'accumulated_data': [[int(v) for v in np.asarray(p)] for p in fl['accumulated_data']]}
        steps.append((loc, o, done))
        if done:
            break
    return steps


def _schedules(rng, count):
    fixed = [(4, 5, [(2, 3), (5, 0), (5, 1), (6, 4), (10, 2)]), (1, 2, [(5, 2), (7, 1)]), (3, 0, [(0, 2), (2, 4)]),
             (0, 6, [(0, 6)]), (2, 3, [(0, 1), (4, 5), (9, 2)]), (5, 4, [(0, 7), (4, 6)]), (6, 2, [(0, 3), (3, 3), (6, 3)])]
    for lo, n, sp in fixed:
        yield lo, n, [(s, list(range(100 + s, 100 + s + m))) for s, m in sp]
    for _ in range(count):
        s = rng.randint(0, 6)
        lo, n = s + rng.randint(-2, 9), rng.randint(0, 7)
        sends = []
        for _ in range(rng.randint(1, 6)):
            m = rng.randint(0, 5)
            sends.append((s, [rng.randint(0, 99) for _ in range(m)]))
            s += m + (rng.choice([0, 0, 0, 0, 1, -1, 2]) if rng.random() < 0.3 else 0)
        yield lo, n, sends


def selftest(tr, repo_module, rng, count=40):
    """the tree, evaluated independently, against the real coroutine: state, output and `finished` after every send"""
    n_steps, ex = 0, []
    state = tr['state']
    for lo, n, sends in _schedules(rng, count):
        for auto in (False, True):
            real = real_run(repo_module, lo, n, auto, sends)
            st, _, _ = run_tree(tr['init'], {'epoch_s0': lo, 'epoch_samples': n, 'info': 0, 'auto_send': auto}, state)
            for (slb, chunk), (loc, o, done) in zip(sends, real):
                st0 = st
                st, o2, done2 = run_tree(tr['step'], dict(st, slb=slb, data=chunk), state)
                n_steps += 1
                bad = (o2 != o) or (done2 != done) or (not done and any(st[k] != v for k, v in loc.items()))
                if bad:
                    raise Gap(f'self-test: capture_epoch({lo}, {n}, auto_send={auto}) at send ({slb}, {chunk}): the code '
                              f'gives state {loc}, output {o}, finished {done}; the translation {st}, {o2}, {done2}')
                ex.append((st0, slb, chunk, st if not done else None, o, done))
    return n_steps, ex


def examples(tr, ex, limit=30):
    """real runs as Coq Examples about the emitted text (the state after the last send of a run is not observable)"""
    def zl(l):
        return '[' + '; '.join(_z(x) for x in l) + ']'

    def stl(st):
        vals = {'Z': lambda v: _z(v), 'bool': lambda v: 'true' if v else 'false',
                'list (list Z)': lambda v: '[' + '; '.join(zl(p) for p in v) + ']'}
        return '(mk_ce_state ' + ' '.join(vals[VAR_TYPES[k]](st[k]) for k in tr['state']) + ')'
    out, seen, order = [], set(), []
    for x in ex:                                     # one of every kind first, then in order
        kind = (x[4][0] if x[4] else 'none', x[5], x[0]['auto_send'], len(x[0]['accumulated_data']) > 1)
        order.insert(len(seen), x) if kind not in seen else order.append(x)
        seen.add(kind)
    for st0, slb, chunk, st1, o, done in order[:limit]:
        ol = 'None' if o is None else (f'Some (OTarget {zl(o[1])})' if o[0] == 'data' else f'Some (OMissed {_z(o[1])} {_z(o[2])})')
        call = f'{PREFIX}_step {stl(st0)} {_z(slb)} {zl(chunk)}'
        if st1 is None:
            out.append(f'Example real_run_{len(out)} : let r := {call} in (snd (fst r), snd r) = ({ol}, true).\n'
                       'Proof. vm_compute. reflexivity. Qed.')
        else:
            out.append(f'Example real_run_{len(out)} : {call} = ({stl(st1)}, {ol}, false).\nProof. vm_compute. reflexivity. Qed.')
    return out


# ======================================================================================================================
# extract_epochs: the SLICE of its loop body that maintains tlb / prior_samples (the look-back buffer), and the call that
# creates a capture.  Statements of the loop body that do not mention tlb, prior_samples, buffer_samples or data are not
# part of the slice (listed in the notes); statements that only READ them must be one of XREADS; anything else raises.
XFUNC = 'extract_epochs'
XVARS = ['tlb', 'prior_samples', 'buffer_samples']
XTYPES = {'tlb': 'Z', 'prior_samples': 'list (Z * list Z)', 'buffer_samples': 'Z', 'data': 'list Z'}
XPRE = {'tlb = 0': ('tlb', ('int', 0)), 'prior_samples = []': ('prior_samples', ('nil',)),
        # float conversion: an input of the slice (the harness computes B with this very expression)
        'buffer_samples = round(buffer_size * fs)': None}
XREADS = {'epoch_coroutine.send((tlb, data))', 'for prior_sample in prior_samples:\n    epoch_coroutine.send(prior_sample)'}
# the float conversions of a request, pinned (the harness computes lo and n with these very expressions), and the call
XCONVERSIONS = ["info['epoch_size'] = epoch_size if epoch_size is not None else info['duration']",
                "total_epoch_size = info['epoch_size'] + poststim_time + prestim_time",
                'epoch_samples = round(total_epoch_size * fs)',
                "t0 = round((info['t0'] - prestim_time) * fs)",
                'epoch_coroutine = capture_epoch(t0, epoch_samples, info, epochs.append, fs)']
XCALL_NON_STATE = {'target': 'epochs.append', 'fs': 'fs'}


def _parents(root):
    par = {}
    for n in ast.walk(root):
        for c in ast.iter_child_nodes(n):
            par[c] = n
    return par


def _flow_ok(st, depth=0):
    """no return / yield, and no break / continue that would leave or restart the OUTER loop"""
    depth += isinstance(st, (ast.While, ast.For))
    for c in ast.iter_child_nodes(st):
        if isinstance(c, (ast.Return, ast.Yield, ast.YieldFrom, ast.Await, ast.FunctionDef, ast.Lambda, ast.Global, ast.Nonlocal)):
            raise Gap(f'line {c.lineno}: `{type(c).__name__}` in the loop of {XFUNC}')
        if isinstance(c, (ast.Break, ast.Continue)) and depth == 0:
            raise Gap(f'line {c.lineno}: `{type(c).__name__.lower()}` of the outer loop of {XFUNC}')
        _flow_ok(c, depth)


def _read_only(st, par):
    for n in ast.walk(st):
        if isinstance(n, ast.Name) and n.id in XTYPES:
            if not isinstance(n.ctx, ast.Load):
                raise Gap(f'line {n.lineno}: `{n.id}` is written by a statement that is not covered')
            a = n
            while not isinstance(a, ast.stmt):
                a = par[a]
            if ast.unparse(a) not in XREADS:
                raise Gap(f'line {n.lineno}: use of `{n.id}` in `{ast.unparse(a).splitlines()[0]}` not covered')


def translate_extract(tree, notes):
    fs_ = [n for n in tree.body if isinstance(n, ast.FunctionDef) and n.name == XFUNC]
    if len(fs_) != 1 or [ast.unparse(d) for d in fs_[0].decorator_list] != ['coroutine']:
        raise Gap(f'{XFUNC}: not exactly one top-level @coroutine definition')
    f = fs_[0]
    par = _parents(f)
    body = [st for st in f.body if not (isinstance(st, ast.Expr) and isinstance(st.value, ast.Constant))]
    if not body or not isinstance(body[-1], ast.While) or ast.unparse(body[-1].test) != 'True' or body[-1].orelse:
        raise Gap(f'{XFUNC} does not end with `while True:`')
    pre, loop = body[:-1], body[-1].body
    if not loop or ast.unparse(loop[0]) != 'data = (yield)':
        raise Gap(f'the loop of {XFUNC} does not start with `data = (yield)`')
    if any(a.arg in XTYPES for a in f.args.args + f.args.kwonlyargs):
        raise Gap(f'a parameter of {XFUNC} is called like a variable of the slice')
    init = {}
    for st in pre:
        text = ast.unparse(st)
        if text in XPRE:
            if text in init:
                raise Gap(f'line {st.lineno}: `{text}` twice')
            init[text] = XPRE[text]
        elif any(isinstance(n, ast.Name) and n.id in XTYPES for n in ast.walk(st)):
            raise Gap(f'line {st.lineno}: `{text.splitlines()[0]}` before the loop of {XFUNC} not covered')
        _flow_ok(st)
    if set(init) != set(XPRE):
        raise Gap(f'{XFUNC}: initialisation {sorted(set(XPRE) - set(init))} not found')
    items, skipped, env = [], [], set(XVARS) | {'data'}
    for st in loop[1:]:
        if isinstance(st, (ast.Break, ast.Continue, ast.Return)):
            raise Gap(f'line {st.lineno}: the outer loop of {XFUNC} is left')
        if not any(isinstance(n, ast.Name) and n.id in XTYPES for n in ast.walk(st)):
            _flow_ok(st)
            skipped.append(st.lineno)
            continue
        if isinstance(st, ast.While) and ast.unparse(st.test) == 'True' and not st.orelse:
            lt = block(st.body, set(XVARS), None, None, notes, 'xloop')
            items.append(('loop', lt, st.lineno))
            continue
        try:
            t = block([st], env, None, None, notes, 'init')
        except Gap:
            t = None
        if t is not None and t[0] == 'let' and t[3] == ('end', None, False) and t[1] in ('tlb', 'prior_samples'):
            items.append(('let', t[1], t[2], st.lineno))
            continue
        _read_only(st, par)
        _flow_ok(st)
        skipped.append(st.lineno)
    loops = [i for i in items if i[0] == 'loop']
    if len(loops) != 1:
        raise Gap(f'{XFUNC}: {len(loops)} `while True:` loops over the look-back buffer')

    def written(t, acc):
        if t[0] in ('let', 'let_head'):
            acc.add(t[1]); written(t[3], acc)
        elif t[0] == 'let_pop0':
            acc.add(t[1]); written(t[2], acc)
        elif t[0] == 'if':
            written(t[2], acc); written(t[3], acc)
        return acc
    lvars = [v for v in XVARS if v in written(loops[0][1], set())]
    if lvars != ['prior_samples']:
        raise Gap(f'{XFUNC}: the pruning loop writes {lvars}')
    # the creation of a capture
    calls = [n for n in ast.walk(f) if isinstance(n, ast.Call) and _is_name(n.func, FUNC)]
    if len(calls) != 1:
        raise Gap(f'{XFUNC}: {len(calls)} calls of {FUNC}')
    a = calls[0]
    while not isinstance(a, ast.stmt):
        a = par[a]
    blk = [x for fld in ('body', 'orelse') for x in getattr(par[a], fld, []) if isinstance(x, ast.stmt)]
    texts = [ast.unparse(x) for x in blk]
    k = texts.index(ast.unparse(a)) if ast.unparse(a) in texts else -1
    if texts[max(k - len(XCONVERSIONS) + 1, 0):k + 1] != XCONVERSIONS:
        raise Gap(f'line {a.lineno}: the conversion of a request to samples / the {FUNC} call is not the pinned text')
    names = SIGNATURE
    call, cargs = calls[0], {}
    if call.keywords or len(call.args) > len(names):
        raise Gap(f'line {call.lineno}: call of {FUNC} not covered')
    for nme, v in zip(names, call.args):
        if nme in XCALL_NON_STATE:
            if ast.unparse(v) != XCALL_NON_STATE[nme]:
                raise Gap(f'line {call.lineno}: argument {nme} of {FUNC}')
        elif not isinstance(v, ast.Name):
            raise Gap(f'line {call.lineno}: argument {nme} of {FUNC} is not a name')
        else:
            cargs[nme] = v.id
    notes.update(f'pinned: `{t}`' for t in list(XPRE)[2:] + XCONVERSIONS[:4])
    notes.add(f'{XFUNC}: statements at lines {skipped} do not write tlb / prior_samples / buffer_samples / data: not in the slice')
    return {'items': items, 'init': {v[0]: v[1] for v in init.values() if v}, 'call': cargs, 'lines': (f.lineno, f.end_lineno)}


def coq_extract(xt, tr):
    T = XTYPES
    sig = ' '.join(f'({v} : {T[v]})' for v in XVARS)
    out = ['(* ---- extract_epochs: look-back bookkeeping (the slice of the loop body over tlb, prior_samples) ---- *)']
    for v, e in xt['init'].items():
        out.append(f'Definition {XFUNC}_{v}0 : {T[v]} := {coq_expr(e)}.')
    loop = [i for i in xt['items'] if i[0] == 'loop'][0]
    out += ['', f'(* one pass of the `while True:` at line {loop[2]}: None = IndexError, else (prior_samples, `break` reached) *)',
            f'Definition {XFUNC}_prune_body {sig} : option ({T["prior_samples"]} * bool) :=',
            coq_tree(loop[1], ['prior_samples'], 2, 'xloop') + '.', '',
            f'Fixpoint {XFUNC}_prune (fuel : nat) {sig} : option ({T["prior_samples"]}) :=',
            '  match fuel with', '  | O => None',
            f'  | S fuel => match {XFUNC}_prune_body {" ".join(XVARS)} with',
            '              | None => None', '              | Some (prior_samples, true) => Some prior_samples',
            f'              | Some (prior_samples, false) => {XFUNC}_prune fuel {" ".join(XVARS)}',
            '              end', '  end.', '',
            '(* what one send(data) does to tlb and prior_samples, in source order; None = the send raises IndexError there *)',
            f'Definition {XFUNC}_lookback (fuel : nat) {sig} (data : {T["data"]}) : option (Z * {T["prior_samples"]}) :=']
    close = 0
    for it in xt['items']:
        if it[0] == 'let':
            out.append(f'  let {it[1]} := {coq_expr(it[2])} in')
        else:
            out.append(f'  match {XFUNC}_prune fuel {" ".join(XVARS)} with None => None | Some prior_samples =>')
            close += 1
    out.append('  Some (tlb, prior_samples)' + ' end' * close + '.')
    pars = sorted(set(xt['call'].values()), key=list(xt['call'].values()).index)
    args = [xt['call'].get(p, f'{PREFIX}_default_{p}') for p in tr['params']]
    out += ['', f'(* {XCONVERSIONS[-1]} *)',
            f'Definition {XFUNC}_new_capture ' + ' '.join(f'({p} : Z)' for p in pars) + ' : ce_state :=',
            f'  {PREFIX}_init {" ".join(args)}.', '']
    return '\n'.join(out)


def run_lookback(xt, tlb, prior, B, data):
    """the slice, evaluated independently: (tlb, prior_samples) after the send, or None"""
    env = {'tlb': tlb, 'prior_samples': list(prior), 'buffer_samples': B, 'data': data}
    for it in xt['items']:
        if it[0] == 'let':
            env[it[1]] = ev(it[2], env)
            continue
        for _ in range(len(env['prior_samples']) + 2):
            r = run_tree(it[1], {v: env[v] for v in XVARS}, ['prior_samples'])
            if r is None:
                return None
            env['prior_samples'] = r[0]['prior_samples']
            if r[2]:
                break
        else:
            return None
    return env['tlb'], env['prior_samples']


def selftest_extract(xt, mod, rng, count=25):
    """the real extract_epochs, send by send: tlb / prior_samples of the suspended frame against the slice; the arguments
    of the capture_epoch call against the pinned conversions"""
    import collections
    import logging
    import numpy as np
    logging.getLogger('psiaudio.pipeline').setLevel(logging.ERROR)
    n_sends, ex, calls = 0, [], []
    real_capture = mod.capture_epoch

    def spy(*a, **kw):
        calls.append((a, kw))
        return real_capture(*a, **kw)
    mod.capture_epoch = spy
    try:
        for trial in range(count):
            fs = rng.choice([1000.0, 195312.5, 44100])
            Bk = rng.choice([0, 0, 1, 3, 7, 12]) if trial else -2       # trial 0: a negative look-back (IndexError)
            pre, post, size = rng.choice([0, 2, 1.3]) / fs, rng.choice([0, 1, 2.6]) / fs, rng.randint(0, 6) / fs
            q = collections.deque()
            got = []
            ex_ = mod.extract_epochs(fs, q, size, got.append, buffer_size=Bk / fs, prestim_time=pre, poststim_time=post)
            B = int(ex_.gi_frame.f_locals['buffer_samples'])
            if B != round((Bk / fs) * fs):
                raise Gap('self-test: buffer_samples is not round(buffer_size * fs)')
            tlb, prior = xt_init(xt)
            for j in range(rng.randint(2, 7)):
                chunk = [rng.randint(0, 99) for _ in range(rng.randint(0, 6))]
                if rng.random() < 0.5:
                    info = {'t0': (tlb + rng.randint(-3, 8) + rng.choice([0, 0.3])) / fs, 'key': j}
                    q.append(info)
                    want = (round((info['t0'] - pre) * fs), round((size + post + pre) * fs))
                else:
                    want = None
                k = len(calls)
                try:
                    ex_.send(np.array(chunk, dtype=np.int64))
                    fl = ex_.gi_frame.f_locals
                    real = (int(fl['tlb']), [(int(s), [int(v) for v in d]) for s, d in fl['prior_samples']])
                except IndexError:
                    real = None
                except Exception:                            # e.g. epochs that cannot be stacked: not about the slice
                    break
                if want is not None and real is not None:
                    a, kw = calls[k]
                    if len(calls) != k + 1 or kw or (a[0], a[1]) != want or a[2] is not info or len(a) != 5:
                        raise Gap(f'self-test: {FUNC} called with {a[:2]}, expected {want}')
                mine = run_lookback(xt, tlb, prior, B, chunk)
                n_sends += 1
                if mine != real:
                    raise Gap(f'self-test: {XFUNC} (B={B}) tlb={tlb} prior_samples={prior} send {chunk}: the code gives '
                              f'{real}, the translation {mine}')
                ex.append((tlb, prior, B, chunk, real))
                if real is None:
                    break
                tlb, prior = real
    finally:
        mod.capture_epoch = real_capture
    return n_sends, ex


def xt_init(xt):
    return ev(xt['init']['tlb'], {}), ev(xt['init']['prior_samples'], {})


def examples_extract(ex, limit=12):
    def zl(l):
        return '[' + '; '.join(_z(x) for x in l) + ']'

    def pl(p):
        return '[' + '; '.join(f'({_z(s)}, {zl(d)})' for s, d in p) + ']'
    out = []
    ex = sorted(ex, key=lambda x: (x[4] is not None, -(len(x[1]) + 1 - len(x[4][1])) if x[4] else 0))   # raising, most pruned first
    for tlb, prior, B, chunk, real in ex[:limit]:
        r = 'None' if real is None else f'Some ({_z(real[0])}, {pl(real[1])})'
        out.append(f'Example real_send_{len(out)} : {XFUNC}_lookback {len(prior) + 2} {_z(tlb)} {pl(prior)} {_z(B)} {zl(chunk)} = {r}.\n'
                   'Proof. vm_compute. reflexivity. Qed.')
    return out


def translate(repo, rng=None):
    """-> (Coq text of coq/gen/CaptureGen.v, info dict).  Raises Gap (fail closed)."""
    import importlib
    import random
    path = os.path.join(repo, RELPATH)
    with open(path) as f:
        src = f.read()
    tr = translate_source(src)
    xnotes = set()
    xt = translate_extract(ast.parse(src), xnotes)
    mod = importlib.import_module('psiaudio.pipeline')
    if os.path.realpath(mod.__file__) != os.path.realpath(path):
        raise Gap(f'self-test would run {mod.__file__}, not {path}')
    n_steps, ex = selftest(tr, mod, rng or random.Random(5))
    n_sends, xex = selftest_extract(xt, mod, random.Random(6))
    head = (f'(* GENERATED on every run by translate/pycapture2coq.py from {path}\n'
            f'   (coroutine {FUNC}, lines {tr["lines"][0]}-{tr["lines"][1]}) - do not edit.\n'
            + ''.join('   ' + n.replace('"', "'").replace('(*', '( *').replace('*)', '* )') + '\n'
                      for n in tr['notes'] + sorted(xnotes)) + '*)')
    text = coq_text(tr, head)
    text += ('\n(* runs of the real coroutine (NumPy int64 chunks), send by send: state of the suspended frame, what target\n'
             '   received, StopIteration - checked here against the text above *)\n' + '\n'.join(examples(tr, ex)) + '\n')
    text += ('\n' + coq_extract(xt, tr) + '\n(* sends of the real extract_epochs: tlb, prior_samples of the suspended frame before / after *)\n'
             + '\n'.join(examples_extract(xex)) + '\n')
    return text, {'function': FUNC, 'lines': tr['lines'], 'state': tr['state'], 'notes': tr['notes'],
                  'selftest_steps': n_steps, 'extract_lines': xt['lines'], 'extract_notes': sorted(xnotes),
                  'selftest_sends': n_sends}


if __name__ == '__main__':
    import sys
    repo = sys.argv[1] if len(sys.argv) > 1 else '/repo'
    sys.path.insert(0, repo)
    text, info = translate(repo)
    if len(sys.argv) > 2:
        open(sys.argv[2], 'w').write(text)
    else:
        print(text)
    print(info, file=sys.stderr)
