"""pycapture2coq - fail-closed `ast` translator: the coroutine psiaudio.pipeline.capture_epoch -> coq/gen/CaptureGen.v (C05).

COROUTINE -> STEP FUNCTION.  A generator function decorated with @coroutine of the shape

    <statements S0>                 # locals set up before the loop
    while True:
        slb, data = (yield)         # one send((slb, data))
        <statements S>              # at most one target(...) call on every path; `break` ends the generator

becomes  <f>_init  : the parameters -> state          (S0; the state = parameters + locals assigned in S0)
         <f>_step  : state -> Z -> list Z -> state * option ce_out * bool      (S; the bool says `break` was reached)
Statements are translated one by one into a chain of `let`s; `if` splits the chain (the rest of the body is translated
under both branches), `x op= e` and `x = e` rebind x, `xs.append(e)` rebinds xs to xs ++ [e], target(e) records the
output of the path.  A local of the loop body that is read before it is assigned on that path (i.e. that would carry
a value from one send to the next without being part of the state) is rejected.

Everything that is not integer / list bookkeeping is in the tables below: a statement whose `ast.unparse` text is a key
of PINNED is replaced by what the table says (None = dropped); the float guards int(round(e)) are integer identities
(the harness hands the model the effective integers); data.shape[-1] is the chunk length, data[..., a:b] a py_slice.
ANY other statement, expression, call, name, keyword, decorator, default value or signature raises Gap.

The translator produces a small tree (IR) first; the Coq text is printed from it, and `selftest` interprets the same
tree with a few-line evaluator and compares it, send by send (state, output, finished), with the REAL coroutine run on
NumPy arrays (state read from the suspended generator frame).  `examples` turns real runs into `Example`s that coqc
checks against the emitted text itself.
"""
import ast
import os

RELPATH = os.path.join('psiaudio', 'pipeline.py')
FUNC = 'capture_epoch'
PREFIX = 'capture_epoch'


class Gap(Exception):
    pass


# ---- tables --------------------------------------------------------------------------------------------------------
SIGNATURE = ['epoch_s0', 'epoch_samples', 'info', 'target', 'fs', 'auto_send']       # positional parameters, in order
COROUTINE_DEF = ("def coroutine(func):\n\n    def start(*args, **kwargs):\n        cr = func(*args, **kwargs)\n"
                 "        next(cr)\n        return cr\n    return start")          # docstring removed
# Coq types of the variables that may be part of the state (anything else in the state raises)
VAR_TYPES = {'epoch_s0': 'Z', 'epoch_samples': 'Z', 'current_s0': 'Z', 'info': 'Z', 'md': 'Z',
             'accumulated_data': 'list (list Z)', 'auto_send': 'bool'}
# parameters that are not state: the callback (only ever called) and the sampling rate (only ever passed on, see MISSED)
NON_STATE_PARAMS = {'target', 'fs'}
# pinned statements: unparse text -> None (dropped) | (name, IR expression) (a binding)
PINNED = {
    # the request's info dict and its 'metadata' entry are one identity in the model (c_rid)
    'info = info.copy()': ('info', ('var', 'info')),
    "md = info.pop('metadata', {})": ('md', ('var', 'info')),
    # logging
    "m = 'Missed samples for epoch of %d samples starting at %d'": None,
    'log.warning(m, epoch_samples, epoch_s0)': None,
    # writes the metadata of the piece c only (no sample, shape or integer local): the model's tag c_rid stands for it
    "if hasattr(c, 'metadata'):\n    c.metadata.update(md)\n    c.metadata.update(info)": None,
}
# target(<this call>) is the "missed" stub: an empty PipelineData that carries s0 and the request's metadata
MISSED_FUNC, MISSED_ARGS, MISSED_KW = 'PipelineData', ['[]'], {'fs': 'fs'}      # + s0=<int expr>, metadata=<name>
BINOPS = {ast.Add: '+', ast.Sub: '-', ast.Mult: '*'}       # no // or % in this coroutine: not covered (Z.div by 0 differs)
PAIR_VARS = {'oldest_samples'}          # locals that hold a (start sample, chunk) pair: x[0] = fst, x[1] = snd
HEAD_LISTS = {'prior_samples'}          # lists read with l[0] / shortened with l.pop(0)
CMPOPS = {ast.Lt: '<?', ast.LtE: '<=?', ast.Gt: '>?', ast.GtE: '>=?', ast.Eq: '=?'}


# ---- expressions ---------------------------------------------------------------------------------------------------
def _is_name(n, name=None):
    return isinstance(n, ast.Name) and (name is None or n.id == name)


def expr(n, env, notes):
    """integer / list expression -> IR"""
    if isinstance(n, ast.Name):
        if n.id not in env:
            raise Gap(f'line {n.lineno}: `{n.id}` is read before it is assigned on this path (or is not a known local)')
        return ('var', n.id)
    if isinstance(n, ast.Constant) and type(n.value) is int:
        return ('int', n.value)
    if isinstance(n, ast.List) and not n.elts:
        return ('nil',)
    if isinstance(n, ast.Tuple) and len(n.elts) == 2:
        return ('pair', expr(n.elts[0], env, notes), expr(n.elts[1], env, notes))
    if isinstance(n, ast.Subscript) and _is_name(n.value) and n.value.id in PAIR_VARS \
            and isinstance(n.slice, ast.Constant) and n.slice.value in (0, 1) and type(n.slice.value) is int:
        return ('fst' if n.slice.value == 0 else 'snd', expr(n.value, env, notes))
    if isinstance(n, ast.BinOp) and type(n.op) in BINOPS:
        return ('bin', BINOPS[type(n.op)], expr(n.left, env, notes), expr(n.right, env, notes))
    if isinstance(n, ast.UnaryOp) and isinstance(n.op, ast.USub):
        return ('bin', '-', ('int', 0), expr(n.operand, env, notes))
    if isinstance(n, ast.Call) and not n.keywords and _is_name(n.func):
        f, a = n.func.id, n.args
        if f == 'int' and len(a) == 1 and isinstance(a[0], ast.Call) and _is_name(a[0].func, 'round') \
                and len(a[0].args) == 1 and not a[0].keywords:
            notes.add('int(round(e)) = e on integers (the harness hands the model the effective integers)')
            return expr(a[0].args[0], env, notes)
        if f in ('min', 'max') and len(a) == 2:
            return (f, expr(a[0], env, notes), expr(a[1], env, notes))
        if f == 'len' and len(a) == 1:
            return ('len', expr(a[0], env, notes))
    if isinstance(n, ast.Call) and _is_name(n.func, 'concat') and len(n.args) == 1 \
            and [(k.arg, ast.unparse(k.value)) for k in n.keywords] == [('axis', '-1')]:
        return ('concat', expr(n.args[0], env, notes))                  # pieces joined along time
    if isinstance(n, ast.Subscript) and isinstance(n.value, ast.Attribute) and n.value.attr == 'shape' \
            and ast.unparse(n.slice) == '-1':
        return ('len', expr(n.value.value, env, notes))                 # x.shape[-1]: samples along time
    if isinstance(n, ast.Subscript) and isinstance(n.slice, ast.Tuple) and len(n.slice.elts) == 2 \
            and isinstance(n.slice.elts[0], ast.Constant) and n.slice.elts[0].value is Ellipsis \
            and isinstance(n.slice.elts[1], ast.Slice):
        s = n.slice.elts[1]                                             # x[..., a:b]
        if s.step is not None or s.lower is None or s.upper is None:
            raise Gap(f'line {n.lineno}: slice form `{ast.unparse(n)}` not covered')
        return ('slice', expr(n.value, env, notes), expr(s.lower, env, notes), expr(s.upper, env, notes))
    raise Gap(f'line {getattr(n, "lineno", "?")}: expression `{ast.unparse(n)}` not covered')


def cond(n, env, notes):
    if isinstance(n, ast.Compare) and len(n.ops) == 1 and type(n.ops[0]) in CMPOPS:
        return ('cmp', CMPOPS[type(n.ops[0])], expr(n.left, env, notes), expr(n.comparators[0], env, notes))
    if isinstance(n, ast.Compare) and len(n.ops) == 1 and isinstance(n.ops[0], ast.NotEq):
        return ('not', ('cmp', '=?', expr(n.left, env, notes), expr(n.comparators[0], env, notes)))
    if isinstance(n, ast.Name) and VAR_TYPES.get(n.id) == 'bool' and n.id in env:
        return ('var', n.id)
    if isinstance(n, ast.UnaryOp) and isinstance(n.op, ast.Not):
        return ('not', cond(n.operand, env, notes))
    if isinstance(n, ast.BoolOp):
        r = cond(n.values[0], env, notes)
        for v in n.values[1:]:
            r = ('and' if isinstance(n.op, ast.And) else 'or', r, cond(v, env, notes))
        return r
    raise Gap(f'line {getattr(n, "lineno", "?")}: condition `{ast.unparse(n)}` not covered')


# ---- statements ----------------------------------------------------------------------------------------------------
def _target_call(st, env, notes):
    """target(x) -> ('data', IR) ; target(PipelineData([], fs=fs, s0=e, metadata=v)) -> ('missed', IR, IR)"""
    c = st.value
    if len(c.args) != 1 or c.keywords:
        raise Gap(f'line {st.lineno}: target call `{ast.unparse(st)}` not covered')
    a = c.args[0]
    if isinstance(a, ast.Name):
        return ('data', expr(a, env, notes))
    if isinstance(a, ast.Call) and _is_name(a.func, MISSED_FUNC) and [ast.unparse(x) for x in a.args] == MISSED_ARGS:
        kw = {k.arg: k.value for k in a.keywords}
        if len(kw) == len(a.keywords) and set(kw) == set(MISSED_KW) | {'s0', 'metadata'} \
                and all(ast.unparse(kw[k]) == v for k, v in MISSED_KW.items()) and isinstance(kw['metadata'], ast.Name):
            return ('missed', expr(kw['s0'], env, notes), expr(kw['metadata'], env, notes))
    raise Gap(f'line {st.lineno}: target call `{ast.unparse(st)}` not covered')


def block(stmts, env, out, state, notes, mode):
    """statement list (+ what follows it: nothing) -> IR tree.  env: names bound here; out: output recorded so far."""
    if not stmts:
        return ('end', out, False)
    st, rest = stmts[0], stmts[1:]
    text = ast.unparse(st)
    if text in PINNED:
        act = PINNED[text]
        notes.add(f'pinned: `{text.splitlines()[0]}{" ..." if chr(10) in text else ""}` -> '
                  + ('dropped' if act is None else f'{act[0]} := {act[1][1]}'))
        if act is None:
            return block(rest, env, out, state, notes, mode)
        if act[1][1] not in env:
            raise Gap(f'line {st.lineno}: pinned statement reads `{act[1][1]}` before it is assigned')
        return ('let', act[0], act[1], block(rest, env | {act[0]}, out, state, notes, mode))
    if isinstance(st, ast.Expr) and isinstance(st.value, ast.Constant) and isinstance(st.value.value, str):
        return block(rest, env, out, state, notes, mode)              # a docstring / bare string
    if mode == 'xloop' and isinstance(st, ast.Assign) and len(st.targets) == 1 and isinstance(st.targets[0], ast.Name) \
            and isinstance(st.value, ast.Subscript) and _is_name(st.value.value) and st.value.value.id in HEAD_LISTS \
            and ast.unparse(st.value.slice) == '0':
        x, l = st.targets[0].id, expr(st.value.value, env, notes)          # x = l[0]: IndexError on an empty list
        return ('let_head', x, l, block(rest, env | {x}, out, state, notes, mode))
    if mode == 'xloop' and isinstance(st, ast.Expr) and ast.unparse(st) in [f'{l}.pop(0)' for l in HEAD_LISTS]:
        l = st.value.func.value.id                                          # l.pop(0): IndexError on an empty list
        expr(st.value.func.value, env, notes)
        return ('let_pop0', l, block(rest, env, out, state, notes, mode))
    if isinstance(st, ast.Assign) and len(st.targets) == 1 and isinstance(st.targets[0], ast.Name):
        x = st.targets[0].id
        return ('let', x, expr(st.value, env, notes), block(rest, env | {x}, out, state, notes, mode))
    if isinstance(st, ast.AugAssign) and isinstance(st.target, ast.Name) and type(st.op) in BINOPS:
        x = st.target.id
        e = ('bin', BINOPS[type(st.op)], expr(st.target, env, notes), expr(st.value, env, notes))
        return ('let', x, e, block(rest, env, out, state, notes, mode))
    if isinstance(st, ast.Expr) and isinstance(st.value, ast.Call):
        c = st.value
        if isinstance(c.func, ast.Attribute) and c.func.attr == 'append' and isinstance(c.func.value, ast.Name) \
                and len(c.args) == 1 and not c.keywords:
            x = c.func.value.id
            e = ('snoc', expr(c.func.value, env, notes), expr(c.args[0], env, notes))
            return ('let', x, e, block(rest, env, out, state, notes, mode))
        if _is_name(c.func, 'target') and mode == 'step':
            if out is not None:
                raise Gap(f'line {st.lineno}: a second target(...) call on one path')
            o = _target_call(st, env, notes)
            return ('out', o, block(rest, env, o[0], state, notes, mode))
    if isinstance(st, ast.If):
        c = cond(st.test, env, notes)
        return ('if', c, block(st.body + rest, env, out, state, notes, mode),
                block(st.orelse + rest, env, out, state, notes, mode))
    if isinstance(st, ast.Break) and mode in ('step', 'xloop'):
        return ('end', out, True)
    raise Gap(f'line {st.lineno}: statement `{text.splitlines()[0]}` not covered')


def _function(tree):
    funcs = [n for n in tree.body if isinstance(n, ast.FunctionDef) and n.name == FUNC]
    if len(funcs) != 1:
        raise Gap(f'{len(funcs)} top-level definitions of {FUNC}')
    co = [n for n in tree.body if isinstance(n, ast.FunctionDef) and n.name == 'coroutine']
    if len(co) == 1 and co[0].body and isinstance(co[0].body[0], ast.Expr) and isinstance(co[0].body[0].value, ast.Constant) \
            and isinstance(co[0].body[0].value.value, str):
        co[0].body = co[0].body[1:]                                     # its docstring is free
    if len(co) != 1 or ast.unparse(co[0]) != COROUTINE_DEF:
        raise Gap('the @coroutine decorator is not the pinned auto-start decorator')
    for n in ast.walk(tree):
        if isinstance(n, (ast.Assign, ast.AugAssign, ast.AnnAssign, ast.Delete, ast.Global)):
            for t in ast.walk(n):
                if isinstance(t, ast.Name) and isinstance(t.ctx, (ast.Store, ast.Del)) and t.id in (FUNC, 'coroutine'):
                    raise Gap(f'`{t.id}` is rebound at line {t.lineno}')
    f = funcs[0]
    if [ast.unparse(d) for d in f.decorator_list] != ['coroutine']:
        raise Gap(f'decorators of {FUNC}: {[ast.unparse(d) for d in f.decorator_list]}')
    a = f.args
    if [x.arg for x in a.args] != SIGNATURE or a.posonlyargs or a.kwonlyargs or a.vararg or a.kwarg:
        raise Gap(f'signature of {FUNC} is `{ast.unparse(f.args)}`, pinned {SIGNATURE}')
    return f


def translate_source(src):
    """-> dict(state=[names], params=[names], defaults={}, init=IR, step=IR, notes=[..])"""
    f = _function(ast.parse(src))
    notes = set()
    body = list(f.body)
    if not body or not isinstance(body[-1], ast.While) or ast.unparse(body[-1].test) != 'True' or body[-1].orelse:
        raise Gap(f'{FUNC} does not end with `while True:`')
    pre, loop = body[:-1], body[-1].body
    if not loop or ast.unparse(loop[0]) != 'slb, data = (yield)':
        raise Gap(f'the loop of {FUNC} does not start with `slb, data = (yield)`')
    for n in ast.walk(f):
        if isinstance(n, (ast.Yield, ast.YieldFrom, ast.Await, ast.Return, ast.Continue, ast.Try, ast.With, ast.For,
                          ast.Lambda, ast.FunctionDef, ast.Global, ast.Nonlocal, ast.NamedExpr)) \
                and not (isinstance(n, ast.Yield) and n is loop[0].value) and n is not f:
            raise Gap(f'line {n.lineno}: `{type(n).__name__}` inside {FUNC}')
        if isinstance(n, ast.While) and n is not body[-1]:
            raise Gap(f'line {n.lineno}: a second loop inside {FUNC}')
    params = [a.arg for a in f.args.args if a.arg not in NON_STATE_PARAMS]
    defaults = {a.arg: d for a, d in zip(f.args.args[len(f.args.args) - len(f.args.defaults):], f.args.defaults)
                if a.arg not in NON_STATE_PARAMS}
    if [ast.unparse(d) for d in f.args.defaults][:-len(defaults) or None] != ['None'] or list(defaults) != ['auto_send']:
        raise Gap(f'defaults of {FUNC}: `{ast.unparse(f.args)}`')
    for k, d in defaults.items():
        if not (isinstance(d, ast.Constant) and type(d.value) is bool):
            raise Gap(f'default of {k} is not a bool constant')
    init = block(pre, set(params), None, None, notes, 'init')
    state = list(params)

    def assigned(t):
        if t[0] == 'let':
            if t[1] not in state:
                state.append(t[1])
            assigned(t[3])
        elif t[0] != 'end':
            raise Gap('branching before the loop is not covered')
    assigned(init)
    for v in state:
        if v not in VAR_TYPES:
            raise Gap(f'state variable `{v}` has no type in the table')
    step = block(loop[1:], set(state) | {'slb', 'data'}, None, state, notes, 'step')
    return {'state': state, 'params': params, 'defaults': {k: d.value for k, d in defaults.items()},
            'init': init, 'step': step, 'notes': sorted(notes), 'lines': (f.lineno, f.end_lineno)}


# ---- printing Coq ----------------------------------------------------------------------------------------------------
def _z(n):
    return f'{n}%Z' if n >= 0 else f'({n})%Z'


def coq_expr(e):
    k = e[0]
    if k == 'var':
        return e[1]
    if k == 'int':
        return _z(e[1])
    if k == 'nil':
        return '[]'
    if k == 'bin':
        return f'({coq_expr(e[2])} {e[1]} {coq_expr(e[3])})'
    if k in ('min', 'max'):
        return f'(Z.{k} {coq_expr(e[1])} {coq_expr(e[2])})'
    if k == 'len':
        return f'(zlen {coq_expr(e[1])})'
    if k == 'concat':
        return f'(concat {coq_expr(e[1])})'
    if k == 'slice':
        return f'(py_slice (Some {coq_expr(e[2])}) (Some {coq_expr(e[3])}) {coq_expr(e[1])})'
    if k == 'snoc':
        return f'({coq_expr(e[1])} ++ [{coq_expr(e[2])}])'
    if k == 'pair':
        return f'({coq_expr(e[1])}, {coq_expr(e[2])})'
    if k in ('true', 'false'):
        return k
    if k == 'has_key':
        return f'(has_key fst {coq_expr(e[1])} {coq_expr(e[2])})'
    if k == 'memz':
        return f'(memz {coq_expr(e[1])} {coq_expr(e[2])})'
    if k == 'dict_put':
        return f'(dict_put {coq_expr(e[1])} {coq_expr(e[2])} {coq_expr(e[3])})'
    if k == 'field':
        return f'({e[1]} {coq_expr(e[2])})'
    if k == 'newcap':
        return f'({XFUNC}_new_capture {coq_expr(e[1])} {coq_expr(e[2])} {coq_expr(e[3])})'
    if k in ('fst', 'snd'):
        return f'({k} {coq_expr(e[1])})'
    if k == 'cmp':
        return f'({coq_expr(e[2])} {e[1]} {coq_expr(e[3])})'
    if k == 'not':
        return f'(negb {coq_expr(e[1])})'
    if k in ('and', 'or'):
        return f'({coq_expr(e[1])} {"&&" if k == "and" else "||"} {coq_expr(e[2])})'
    raise Gap(f'printer: {k}')


def coq_tree(t, state, ind, mode):
    """mode 'init': the state record; 'step': (state, output, finished); 'xloop': Some (variables, finished) | None"""
    p = ' ' * ind
    if t[0] == 'let':
        return f'{p}let {t[1]} := {coq_expr(t[2])} in\n' + coq_tree(t[3], state, ind, mode)
    if t[0] == 'let_head' and mode == 'xloop':
        return (f'{p}match {coq_expr(t[2])} with\n{p}| [] => None\n{p}| {t[1]} :: _ =>\n'
                + coq_tree(t[3], state, ind + 2, mode) + f'\n{p}end')
    if t[0] == 'let_pop0' and mode == 'xloop':
        return (f'{p}match {t[1]} with\n{p}| [] => None\n{p}| _ :: {t[1]} =>\n'
                + coq_tree(t[2], state, ind + 2, mode) + f'\n{p}end')
    if t[0] == 'out' and mode == 'step':
        o = t[1]
        rhs = f'OTarget {coq_expr(o[1])}' if o[0] == 'data' else f'OMissed {coq_expr(o[1])} {coq_expr(o[2])}'
        return f'{p}let out_ := {rhs} in\n' + coq_tree(t[2], state, ind, mode)
    if t[0] == 'if':
        return (f'{p}if {coq_expr(t[1])} then\n' + coq_tree(t[2], state, ind + 2, mode) + f'\n{p}else\n'
                + coq_tree(t[3], state, ind + 2, mode))
    if t[0] == 'end':
        if mode == 'xloop':
            return f'{p}Some ({", ".join(state)}, {"true" if t[2] else "false"})'
        st = f'mk_ce_state {" ".join(state)}'
        if mode == 'init':
            return f'{p}{st}'
        return f'{p}({st}, {"Some out_" if t[1] else "None"}, {"true" if t[2] else "false"})'
    raise Gap(f'printer: {t[0]}')


def coq_text(tr, header=''):
    state, params = tr['state'], tr['params']
    fields = '; '.join(f'ce_{v} : {VAR_TYPES[v]}' for v in state)
    unpack = ''.join(f'  let {v} := ce_{v} st_ in\n' for v in state)
    args = ' '.join(f'({v} : {VAR_TYPES[v]})' for v in params)
    out = [header,
           'From Coq Require Import ZArith List Bool.',
           'From PV Require Import Common.PySlice Extract.Model.',
           'Import ListNotations.', 'Open Scope Z_scope.', '',
           '(* what target(...) receives: the joined pieces, or the empty "missed" PipelineData (s0, metadata identity) *)',
           'Inductive ce_out := OTarget (d : list Z) | OMissed (s0 md : Z).', '',
           '(* the locals of the coroutine that live from one send to the next *)',
           f'Record ce_state := mk_ce_state {{ {fields} }}.', '',
           '(* the statements before `while True:` *)',
           f'Definition {PREFIX}_init {args} : ce_state :=', coq_tree(tr['init'], state, 2, 'init') + '.', '']
    for k, v in tr['defaults'].items():
        out += [f'Definition {PREFIX}_default_{k} : bool := {"true" if v else "false"}.']
    out += ['', '(* one `slb, data = (yield)` iteration: new state, what target received (if called), whether `break` was reached *)',
            f'Definition {PREFIX}_step (st_ : ce_state) (slb : Z) (data : list Z) : ce_state * option ce_out * bool :=',
            unpack + coq_tree(tr['step'], state, 2, 'step') + '.', '']
    return '\n'.join(out)


# ---- the independent evaluator of the tree, and the comparison with the real coroutine -------------------------------
def _py_slice(l, a, b):
    n = len(l)
    adj = lambda x: max(0, x + n) if x < 0 else min(x, n)        # Common/PySlice.v adj_bound
    lo, hi = adj(a), adj(b)
    return l[lo:lo + max(hi - lo, 0)]


def ev(e, env):
    k = e[0]
    if k == 'var':
        return env[e[1]]
    if k == 'int':
        return e[1]
    if k == 'nil':
        return []
    if k == 'bin':
        a, b = ev(e[2], env), ev(e[3], env)
        if type(a) is not int or type(b) is not int:
            raise Gap('evaluator: arithmetic on a non-integer')
        return a + b if e[1] == '+' else a - b if e[1] == '-' else a * b
    if k == 'min':
        return min(ev(e[1], env), ev(e[2], env))
    if k == 'max':
        return max(ev(e[1], env), ev(e[2], env))
    if k == 'len':
        return len(ev(e[1], env))
    if k == 'concat':
        return [x for p in ev(e[1], env) for x in p]
    if k == 'slice':
        return _py_slice(ev(e[1], env), ev(e[2], env), ev(e[3], env))
    if k == 'snoc':
        return ev(e[1], env) + [ev(e[2], env)]
    if k == 'pair':
        return (ev(e[1], env), ev(e[2], env))
    if k in ('fst', 'snd'):
        return ev(e[1], env)[0 if k == 'fst' else 1]
    if k in ('true', 'false'):
        return k == 'true'
    if k == 'has_key':
        return any(x[0] == ev(e[1], env) for x in ev(e[2], env))
    if k == 'memz':
        return ev(e[1], env) in ev(e[2], env)
    if k == 'dict_put':
        return _dict_put(ev(e[1], env), ev(e[2], env), ev(e[3], env))
    if k == 'field':
        return ev(e[2], env)[e[1]]
    if k == 'newcap':
        tr = _TR['tr']
        return run_tree(tr['init'], {'epoch_s0': ev(e[1], env), 'epoch_samples': ev(e[2], env), 'info': ev(e[3], env),
                                     'auto_send': tr['defaults']['auto_send']}, tr['state'])[0]
    if k == 'cmp':
        a, b = ev(e[2], env), ev(e[3], env)
        return {'<?': a < b, '<=?': a <= b, '>?': a > b, '>=?': a >= b, '=?': a == b}[e[1]]
    if k == 'not':
        return not ev(e[1], env)
    if k == 'and':
        return ev(e[1], env) and ev(e[2], env)
    if k == 'or':
        return ev(e[1], env) or ev(e[2], env)
    raise Gap(f'evaluator: {k}')


def run_tree(t, env, state):
    env, out = dict(env), None
    while True:
        if t[0] == 'let':
            env[t[1]] = ev(t[2], env)
            t = t[3]
        elif t[0] == 'out':
            o = t[1]
            out = ['data', ev(o[1], env)] if o[0] == 'data' else ['missed', ev(o[1], env), ev(o[2], env)]
            t = t[2]
        elif t[0] == 'if':
            t = t[2] if ev(t[1], env) else t[3]
        elif t[0] == 'let_head':
            l = ev(t[2], env)
            if not l:
                return None                              # IndexError
            env[t[1]] = l[0]
            t = t[3]
        elif t[0] == 'let_pop0':
            if not env[t[1]]:
                return None
            env[t[1]] = env[t[1]][1:]
            t = t[2]
        else:
            return {v: env[v] for v in state}, (out if t[1] else None), t[2]


def real_run(repo_module, lo, n, auto, sends):
    """drives the REAL coroutine; after every send: (locals of the suspended frame | None, output | None, finished)"""
    import logging
    import numpy as np
    logging.getLogger('psiaudio.pipeline').setLevel(logging.ERROR)
    got, steps = [], []
    info = {'metadata': {'rid': 7}, 'x': 1}
    cap = repo_module.capture_epoch(lo, n, info, got.append, fs=1000.0, auto_send=auto)
    for slb, chunk in sends:
        k, done = len(got), False
        try:
            cap.send((slb, np.array(chunk, dtype=np.int64)))
        except StopIteration:
            done = True
        if len(got) - k > 1:
            raise Gap('self-test: two target calls in one send')
        o = None
        if len(got) > k:
            a = got[k]
            if isinstance(a, repo_module.PipelineData) and a.shape == (0,):
                o = ['missed', int(a.s0), 0 if a.metadata == info['metadata'] else -1]
            else:
                o = ['data', [int(v) for v in np.asarray(a)]]
        loc = None
        if not done:
            fl = cap.gi_frame.f_locals
            loc = {'epoch_s0': int(fl['epoch_s0']), 'epoch_samples': int(fl['epoch_samples']),
                   'current_s0': int(fl['current_s0']), 'auto_send': bool(fl['auto_send']),
                   'accumulated_data': [[int(v) for v in np.asarray(p)] for p in fl['accumulated_data']]}
        steps.append((loc, o, done))
        if done:
            break
    return steps


def _schedules(rng, count):
    fixed = [(4, 5, [(2, 3), (5, 0), (5, 1), (6, 4), (10, 2)]), (1, 2, [(5, 2), (7, 1)]), (3, 0, [(0, 2), (2, 4)]),
             (0, 6, [(0, 6)]), (2, 3, [(0, 1), (4, 5), (9, 2)]), (5, 4, [(0, 7), (4, 6)]), (6, 2, [(0, 3), (3, 3), (6, 3)])]
    for lo, n, sp in fixed:
        yield lo, n, [(s, list(range(100 + s, 100 + s + m))) for s, m in sp]
    for _ in range(count):
        s = rng.randint(0, 6)
        lo, n = s + rng.randint(-2, 9), rng.randint(0, 7)
        sends = []
        for _ in range(rng.randint(1, 6)):
            m = rng.randint(0, 5)
            sends.append((s, [rng.randint(0, 99) for _ in range(m)]))
            s += m + (rng.choice([0, 0, 0, 0, 1, -1, 2]) if rng.random() < 0.3 else 0)
        yield lo, n, sends


def selftest(tr, repo_module, rng, count=40):
    """the tree, evaluated independently, against the real coroutine: state, output and `finished` after every send"""
    n_steps, ex = 0, []
    state = tr['state']
    for lo, n, sends in _schedules(rng, count):
        for auto in (False, True):
            real = real_run(repo_module, lo, n, auto, sends)
            st, _, _ = run_tree(tr['init'], {'epoch_s0': lo, 'epoch_samples': n, 'info': 0, 'auto_send': auto}, state)
            for (slb, chunk), (loc, o, done) in zip(sends, real):
                st0 = st
                st, o2, done2 = run_tree(tr['step'], dict(st, slb=slb, data=chunk), state)
                n_steps += 1
                bad = (o2 != o) or (done2 != done) or (not done and any(st[k] != v for k, v in loc.items()))
                if bad:
                    raise Gap(f'self-test: capture_epoch({lo}, {n}, auto_send={auto}) at send ({slb}, {chunk}): the code '
                              f'gives state {loc}, output {o}, finished {done}; the translation {st}, {o2}, {done2}')
                ex.append((st0, slb, chunk, st if not done else None, o, done))
    return n_steps, ex


def examples(tr, ex, limit=30):
    """real runs as Coq Examples about the emitted text (the state after the last send of a run is not observable)"""
    def zl(l):
        return '[' + '; '.join(_z(x) for x in l) + ']'

    def stl(st):
        vals = {'Z': lambda v: _z(v), 'bool': lambda v: 'true' if v else 'false',
                'list (list Z)': lambda v: '[' + '; '.join(zl(p) for p in v) + ']'}
        return '(mk_ce_state ' + ' '.join(vals[VAR_TYPES[k]](st[k]) for k in tr['state']) + ')'
    out, seen, order = [], set(), []
    for x in ex:                                     # one of every kind first, then in order
        kind = (x[4][0] if x[4] else 'none', x[5], x[0]['auto_send'], len(x[0]['accumulated_data']) > 1)
        order.insert(len(seen), x) if kind not in seen else order.append(x)
        seen.add(kind)
    for st0, slb, chunk, st1, o, done in order[:limit]:
        ol = 'None' if o is None else (f'Some (OTarget {zl(o[1])})' if o[0] == 'data' else f'Some (OMissed {_z(o[1])} {_z(o[2])})')
        call = f'{PREFIX}_step {stl(st0)} {_z(slb)} {zl(chunk)}'
        if st1 is None:
            out.append(f'Example real_run_{len(out)} : let r := {call} in (snd (fst r), snd r) = ({ol}, true).\n'
                       'Proof. vm_compute. reflexivity. Qed.')
        else:
            out.append(f'Example real_run_{len(out)} : {call} = ({stl(st1)}, {ol}, false).\nProof. vm_compute. reflexivity. Qed.')
    return out


# ======================================================================================================================
# extract_epochs: the SLICE of its loop body that maintains tlb / prior_samples (the look-back buffer), and the call that
# creates a capture.  Statements of the loop body that do not mention tlb, prior_samples, buffer_samples or data are not
# part of the slice (listed in the notes); statements that only READ them must be one of XREADS; anything else raises.
XFUNC = 'extract_epochs'
XVARS = ['tlb', 'prior_samples', 'buffer_samples']
XTYPES = {'tlb': 'Z', 'prior_samples': 'list (Z * list Z)', 'buffer_samples': 'Z', 'data': 'list Z'}
XPRE = {'tlb = 0': ('tlb', ('int', 0)), 'prior_samples = []': ('prior_samples', ('nil',)),
        # float conversion: an input of the slice (the harness computes B with this very expression)
        'buffer_samples = round(buffer_size * fs)': None}
XREADS = {'epoch_coroutine.send((tlb, data))', 'for prior_sample in prior_samples:\n    epoch_coroutine.send(prior_sample)'}
# the float conversions of a request, pinned (the harness computes lo and n with these very expressions), and the call
XCONVERSIONS = ["info['epoch_size'] = epoch_size if epoch_size is not None else info['duration']",
                "total_epoch_size = info['epoch_size'] + poststim_time + prestim_time",
                'epoch_samples = round(total_epoch_size * fs)',
                "t0 = round((info['t0'] - prestim_time) * fs)",
                'epoch_coroutine = capture_epoch(t0, epoch_samples, info, epochs.append, fs)']
XCALL_NON_STATE = {'target': 'epochs.append', 'fs': 'fs'}


def _parents(root):
    par = {}
    for n in ast.walk(root):
        for c in ast.iter_child_nodes(n):
            par[c] = n
    return par


def _flow_ok(st, depth=0):
    """no return / yield, and no break / continue that would leave or restart the OUTER loop"""
    depth += isinstance(st, (ast.While, ast.For))
    for c in ast.iter_child_nodes(st):
        if isinstance(c, (ast.Return, ast.Yield, ast.YieldFrom, ast.Await, ast.FunctionDef, ast.Lambda, ast.Global, ast.Nonlocal)):
            raise Gap(f'line {c.lineno}: `{type(c).__name__}` in the loop of {XFUNC}')
        if isinstance(c, (ast.Break, ast.Continue)) and depth == 0:
            raise Gap(f'line {c.lineno}: `{type(c).__name__.lower()}` of the outer loop of {XFUNC}')
        _flow_ok(c, depth)


def _read_only(st, par):
    for n in ast.walk(st):
        if isinstance(n, ast.Name) and n.id in XTYPES:
            if not isinstance(n.ctx, ast.Load):
                raise Gap(f'line {n.lineno}: `{n.id}` is written by a statement that is not covered')
            a = n
            while not isinstance(a, ast.stmt):
                a = par[a]
            if ast.unparse(a) not in XREADS:
                raise Gap(f'line {n.lineno}: use of `{n.id}` in `{ast.unparse(a).splitlines()[0]}` not covered')


def translate_extract(tree, notes):
    fs_ = [n for n in tree.body if isinstance(n, ast.FunctionDef) and n.name == XFUNC]
    if len(fs_) != 1 or [ast.unparse(d) for d in fs_[0].decorator_list] != ['coroutine']:
        raise Gap(f'{XFUNC}: not exactly one top-level @coroutine definition')
    f = fs_[0]
    par = _parents(f)
    body = [st for st in f.body if not (isinstance(st, ast.Expr) and isinstance(st.value, ast.Constant))]
    if not body or not isinstance(body[-1], ast.While) or ast.unparse(body[-1].test) != 'True' or body[-1].orelse:
        raise Gap(f'{XFUNC} does not end with `while True:`')
    pre, loop = body[:-1], body[-1].body
    if not loop or ast.unparse(loop[0]) != 'data = (yield)':
        raise Gap(f'the loop of {XFUNC} does not start with `data = (yield)`')
    if any(a.arg in XTYPES for a in f.args.args + f.args.kwonlyargs):
        raise Gap(f'a parameter of {XFUNC} is called like a variable of the slice')
    init = {}
    for st in pre:
        text = ast.unparse(st)
        if text in XPRE:
            if text in init:
                raise Gap(f'line {st.lineno}: `{text}` twice')
            init[text] = XPRE[text]
        elif any(isinstance(n, ast.Name) and n.id in XTYPES for n in ast.walk(st)):
            raise Gap(f'line {st.lineno}: `{text.splitlines()[0]}` before the loop of {XFUNC} not covered')
        _flow_ok(st)
    if set(init) != set(XPRE):
        raise Gap(f'{XFUNC}: initialisation {sorted(set(XPRE) - set(init))} not found')
    items, skipped, env = [], [], set(XVARS) | {'data'}
    for st in loop[1:]:
        if isinstance(st, (ast.Break, ast.Continue, ast.Return)):
            raise Gap(f'line {st.lineno}: the outer loop of {XFUNC} is left')
        if not any(isinstance(n, ast.Name) and n.id in XTYPES for n in ast.walk(st)):
            _flow_ok(st)
            skipped.append(st.lineno)
            continue
        if isinstance(st, ast.While) and ast.unparse(st.test) == 'True' and not st.orelse:
            lt = block(st.body, set(XVARS), None, None, notes, 'xloop')
            items.append(('loop', lt, st.lineno))
            continue
        try:
            t = block([st], env, None, None, notes, 'init')
        except Gap:
            t = None
        if t is not None and t[0] == 'let' and t[3] == ('end', None, False) and t[1] in ('tlb', 'prior_samples'):
            items.append(('let', t[1], t[2], st.lineno))
            continue
        _read_only(st, par)
        _flow_ok(st)
        skipped.append(st.lineno)
    loops = [i for i in items if i[0] == 'loop']
    if len(loops) != 1:
        raise Gap(f'{XFUNC}: {len(loops)} `while True:` loops over the look-back buffer')

    def written(t, acc):
        if t[0] in ('let', 'let_head'):
            acc.add(t[1]); written(t[3], acc)
        elif t[0] == 'let_pop0':
            acc.add(t[1]); written(t[2], acc)
        elif t[0] == 'if':
            written(t[2], acc); written(t[3], acc)
        return acc
    lvars = [v for v in XVARS if v in written(loops[0][1], set())]
    if lvars != ['prior_samples']:
        raise Gap(f'{XFUNC}: the pruning loop writes {lvars}')
    # the creation of a capture
    calls = [n for n in ast.walk(f) if isinstance(n, ast.Call) and _is_name(n.func, FUNC)]
    if len(calls) != 1:
        raise Gap(f'{XFUNC}: {len(calls)} calls of {FUNC}')
    a = calls[0]
    while not isinstance(a, ast.stmt):
        a = par[a]
    blk = [x for fld in ('body', 'orelse') for x in getattr(par[a], fld, []) if isinstance(x, ast.stmt)]
    texts = [ast.unparse(x) for x in blk]
    k = texts.index(ast.unparse(a)) if ast.unparse(a) in texts else -1
    if texts[max(k - len(XCONVERSIONS) + 1, 0):k + 1] != XCONVERSIONS:
        raise Gap(f'line {a.lineno}: the conversion of a request to samples / the {FUNC} call is not the pinned text')
    names = SIGNATURE
    call, cargs = calls[0], {}
    if call.keywords or len(call.args) > len(names):
        raise Gap(f'line {call.lineno}: call of {FUNC} not covered')
    for nme, v in zip(names, call.args):
        if nme in XCALL_NON_STATE:
            if ast.unparse(v) != XCALL_NON_STATE[nme]:
                raise Gap(f'line {call.lineno}: argument {nme} of {FUNC}')
        elif not isinstance(v, ast.Name):
            raise Gap(f'line {call.lineno}: argument {nme} of {FUNC} is not a name')
        else:
            cargs[nme] = v.id
    notes.update(f'pinned: `{t}`' for t in list(XPRE)[2:] + XCONVERSIONS[:4])
    notes.add(f'{XFUNC}: statements at lines {skipped} do not write tlb / prior_samples / buffer_samples / data: not in the slice')
    return {'items': items, 'init': {v[0]: v[1] for v in init.values() if v}, 'call': cargs, 'lines': (f.lineno, f.end_lineno)}


def coq_extract(xt, tr):
    T = XTYPES
    sig = ' '.join(f'({v} : {T[v]})' for v in XVARS)
    out = ['(* ---- extract_epochs: look-back bookkeeping (the slice of the loop body over tlb, prior_samples) ---- *)']
    for v, e in xt['init'].items():
        out.append(f'Definition {XFUNC}_{v}0 : {T[v]} := {coq_expr(e)}.')
    loop = [i for i in xt['items'] if i[0] == 'loop'][0]
    out += ['', f'(* one pass of the `while True:` at line {loop[2]}: None = IndexError, else (prior_samples, `break` reached) *)',
            f'Definition {XFUNC}_prune_body {sig} : option ({T["prior_samples"]} * bool) :=',
            coq_tree(loop[1], ['prior_samples'], 2, 'xloop') + '.', '',
            f'Fixpoint {XFUNC}_prune (fuel : nat) {sig} : option ({T["prior_samples"]}) :=',
            '  match fuel with', '  | O => None',
            f'  | S fuel => match {XFUNC}_prune_body {" ".join(XVARS)} with',
            '              | None => None', '              | Some (prior_samples, true) => Some prior_samples',
            f'              | Some (prior_samples, false) => {XFUNC}_prune fuel {" ".join(XVARS)}',
            '              end', '  end.', '',
            '(* what one send(data) does to tlb and prior_samples, in source order; None = the send raises IndexError there *)',
            f'Definition {XFUNC}_lookback (fuel : nat) {sig} (data : {T["data"]}) : option (Z * {T["prior_samples"]}) :=']
    close = 0
    for it in xt['items']:
        if it[0] == 'let':
            out.append(f'  let {it[1]} := {coq_expr(it[2])} in')
        else:
            out.append(f'  match {XFUNC}_prune fuel {" ".join(XVARS)} with None => None | Some prior_samples =>')
            close += 1
    out.append('  Some (tlb, prior_samples)' + ' end' * close + '.')
    pars = sorted(set(xt['call'].values()), key=list(xt['call'].values()).index)
    args = [xt['call'].get(p, f'{PREFIX}_default_{p}') for p in tr['params']]
    out += ['', f'(* {XCONVERSIONS[-1]} *)',
            f'Definition {XFUNC}_new_capture ' + ' '.join(f'({p} : Z)' for p in pars) + ' : ce_state :=',
            f'  {PREFIX}_init {" ".join(args)}.', '']
    return '\n'.join(out)


def run_lookback(xt, tlb, prior, B, data):
    """the slice, evaluated independently: (tlb, prior_samples) after the send, or None"""
    env = {'tlb': tlb, 'prior_samples': list(prior), 'buffer_samples': B, 'data': data}
    for it in xt['items']:
        if it[0] == 'let':
            env[it[1]] = ev(it[2], env)
            continue
        for _ in range(len(env['prior_samples']) + 2):
            r = run_tree(it[1], {v: env[v] for v in XVARS}, ['prior_samples'])
            if r is None:
                return None
            env['prior_samples'] = r[0]['prior_samples']
            if r[2]:
                break
        else:
            return None
    return env['tlb'], env['prior_samples']


def selftest_extract(xt, mod, rng, count=25):
    """the real extract_epochs, send by send: tlb / prior_samples of the suspended frame against the slice; the arguments
    of the capture_epoch call against the pinned conversions"""
    import collections
    import logging
    import numpy as np
    logging.getLogger('psiaudio.pipeline').setLevel(logging.ERROR)
    n_sends, ex, calls = 0, [], []
    real_capture = mod.capture_epoch

    def spy(*a, **kw):
        calls.append((a, kw))
        return real_capture(*a, **kw)
    mod.capture_epoch = spy
    try:
        for trial in range(count):
            fs = rng.choice([1000.0, 195312.5, 44100])
            Bk = rng.choice([0, 0, 1, 3, 7, 12]) if trial else -2       # trial 0: a negative look-back (IndexError)
            pre, post, size = rng.choice([0, 2, 1.3]) / fs, rng.choice([0, 1, 2.6]) / fs, rng.randint(0, 6) / fs
            q = collections.deque()
            got = []
            ex_ = mod.extract_epochs(fs, q, size, got.append, buffer_size=Bk / fs, prestim_time=pre, poststim_time=post)
            B = int(ex_.gi_frame.f_locals['buffer_samples'])
            if B != round((Bk / fs) * fs):
                raise Gap('self-test: buffer_samples is not round(buffer_size * fs)')
            tlb, prior = xt_init(xt)
            for j in range(rng.randint(2, 7)):
                chunk = [rng.randint(0, 99) for _ in range(rng.randint(0, 6))]
                if rng.random() < 0.5:
                    info = {'t0': (tlb + rng.randint(-3, 8) + rng.choice([0, 0.3])) / fs, 'key': j}
                    q.append(info)
                    want = (round((info['t0'] - pre) * fs), round((size + post + pre) * fs))
                else:
                    want = None
                k = len(calls)
                try:
                    ex_.send(np.array(chunk, dtype=np.int64))
                    fl = ex_.gi_frame.f_locals
                    real = (int(fl['tlb']), [(int(s), [int(v) for v in d]) for s, d in fl['prior_samples']])
                except IndexError:
                    real = None
                except Exception:                            # e.g. epochs that cannot be stacked: not about the slice
                    break
                if want is not None and real is not None:
                    a, kw = calls[k]
                    if len(calls) != k + 1 or kw or (a[0], a[1]) != want or a[2] is not info or len(a) != 5:
                        raise Gap(f'self-test: {FUNC} called with {a[:2]}, expected {want}')
                mine = run_lookback(xt, tlb, prior, B, chunk)
                n_sends += 1
                if mine != real:
                    raise Gap(f'self-test: {XFUNC} (B={B}) tlb={tlb} prior_samples={prior} send {chunk}: the code gives '
                              f'{real}, the translation {mine}')
                ex.append((tlb, prior, B, chunk, real))
                if real is None:
                    break
                tlb, prior = real
    finally:
        mod.capture_epoch = real_capture
    return n_sends, ex


def xt_init(xt):
    return ev(xt['init']['tlb'], {}), ev(xt['init']['prior_samples'], {})


def examples_extract(ex, limit=12):
    def zl(l):
        return '[' + '; '.join(_z(x) for x in l) + ']'

    def pl(p):
        return '[' + '; '.join(f'({_z(s)}, {zl(d)})' for s, d in p) + ']'
    out = []
    ex = sorted(ex, key=lambda x: (x[4] is not None, -(len(x[1]) + 1 - len(x[4][1])) if x[4] else 0))   # raising, most pruned first
    for tlb, prior, B, chunk, real in ex[:limit]:
        r = 'None' if real is None else f'Some ({_z(real[0])}, {pl(real[1])})'
        out.append(f'Example real_send_{len(out)} : {XFUNC}_lookback {len(prior) + 2} {_z(tlb)} {pl(prior)} {_z(B)} {zl(chunk)} = {r}.\n'
                   'Proof. vm_compute. reflexivity. Qed.')
    return out


# ======================================================================================================================
# extract_epochs, the WHOLE loop body (second batch): one send(data) as a function  state x inputs -> XOk (state, what
# target received, callback called) | XRaise exception.  Statement by statement, in continuation-passing style:
#   `while L:` (L a deque / list)          -> a fuelled Fixpoint over the variables its body writes (test: L not empty)
#   `for p in xs:` / `for k, v in list(D.items()):` -> a structural Fixpoint over the snapshot list; v aliases D[k]
#   `try: .. except StopIteration: ..`     -> the statements of the handler are the continuation of a finished coroutine
#   co.send((a, b)) / co.send(pair)        -> capture_epoch_step (the generated step above) on the coroutine state; what its
#                                             target (= epochs.append, pinned at the capture_epoch call) receives is appended
#                                             to `epochs` as the model's item tagged with `key`; `break` there = StopIteration
#   L.popleft() / xs.remove(k) / D.pop(k)  -> head+tail / remove_first / del_key, with IndexError / ValueError / KeyError
#   k in xs / k in D / D[k] = v            -> memz / has_key fst / dict_put (replace in place, else append: dict order)
#   `continue`, `raise ValueError(f'Duplicate ...')`, the `while True:` pruning loop (extract_epochs_prune above)
# deques `queue` / `removed_queue` = their contents at the send (model: feed), source_complete.is_set() / `empty_queue_cb
# is not None` = booleans; the statements of YPIN are pinned by text.
YF = 'extract_epochs'
YTYPES = {'tlb': 'Z', 'epoch_coroutines': 'list (Z * ce_state)', 'prior_samples': 'list (Z * list Z)', 'epochs': 'list item',
          'empty_queue_cb': 'bool', 'buffer_samples': 'Z', 'data': 'list Z', 'removed_queue': 'list Z',
          'queue': 'list request', 'source_complete': 'bool', 'skip': 'list Z', 'n_remove': 'Z', 'n_pop': 'Z',
          'n_queued': 'Z', 'n_invalid': 'Z', 'key': 'Z', 'epoch_coroutine': 'ce_state', 'prior_sample': 'Z * list Z',
          't0': 'Z', 'epoch_samples': 'Z', 'target_arg': 'option (list item)', 'cb_called': 'bool'}
YSTATE = ['tlb', 'epoch_coroutines', 'prior_samples', 'epochs', 'empty_queue_cb']
YINPUTS = ['buffer_samples', 'data', 'removed_queue', 'queue', 'source_complete']
YDEQUES = {'removed_queue', 'queue'}
YLOOPS = {'removed_queue': 'drain', 'epoch_coroutines': 'deliver', 'prior_samples': 'replay', 'queue': 'intake'}
YDICTS = {'epoch_coroutines'}
YKEYLISTS = {'skip'}
YPRE = {'tlb = 0': ('tlb', ('int', 0)), 'epoch_coroutines = {}': ('epoch_coroutines', ('nil',)),
        'prior_samples = []': ('prior_samples', ('nil',)), 'epochs = []': ('epochs', ('nil',)),
        'buffer_samples = round(buffer_size * fs)': None,
        'if source_complete is None:\n    source_complete = Event()\n    source_complete.set()': None,
        'if removed_queue is None:\n    removed_queue = deque()': None}
# pinned statements of the loop body: text -> None (dropped) | (name, IR) ; `info` is a removal notice (its key) in the
# first loop and a request (Model.request: r_key, r_lo, r_n, r_rid computed by the harness with the pinned float expressions)
YPIN_DRAIN = {"key = (info['t0'], info.get('key', None))": ('key', ('var', 'info'))}
YPIN = {"key = (info['t0'], info.get('key', None))": ('key', ('field', 'r_key', ('var', 'info'))),
        "if n_remove or n_pop:\n    log.debug('Marked %d epochs for removal, removed %d epochs', n_remove, n_pop)": None,
        "if n_queued or n_invalid:\n    log.debug('Queued %d epochs, %d were invalid', n_queued, n_invalid)": None,
        "info['prestim_time'] = prestim_time": None, "info['poststim_time'] = poststim_time": None,
        XCONVERSIONS[0]: None, XCONVERSIONS[1]: None,
        XCONVERSIONS[2]: ('epoch_samples', ('field', 'r_n', ('var', 'info'))),
        XCONVERSIONS[3]: ('t0', ('field', 'r_lo', ('var', 'info'))),
        XCONVERSIONS[4]: ('epoch_coroutine', ('newcap', ('var', 't0'), ('var', 'epoch_samples'), ('field', 'r_rid', ('var', 'info'))))}
YSTACK = ("if isinstance(epochs[0], PipelineData):\n    merged = concat(epochs, axis=-3)\nelse:\n"
          "    merged = np.concatenate([e[np.newaxis] for e in epochs], axis=0)\ntarget(merged)\nepochs[:] = []")
YDUP = "raise ValueError(f'Duplicate epochs not supported. Got {key}.')"
YPRUNE = ('while True:\n    oldest_samples = prior_samples[0]\n    tub = oldest_samples[0] + oldest_samples[1].shape[-1]\n'
          '    if tub < tlb - buffer_samples:\n        prior_samples.pop(0)\n    else:\n        break')   # only a marker: its
# translation is extract_epochs_prune above (translated from the source, not from this text)


class _Y:
    def __init__(self, notes):
        self.notes, self.loops = notes, []


def ycond(n, env, notes):
    if isinstance(n, ast.BoolOp):
        r = ycond(n.values[0], env, notes)
        for v in n.values[1:]:
            r = ('and' if isinstance(n.op, ast.And) else 'or', r, ycond(v, env, notes))
        return r
    if isinstance(n, ast.Compare) and len(n.ops) == 1 and isinstance(n.ops[0], (ast.In, ast.NotIn)) \
            and _is_name(n.left) and _is_name(n.comparators[0]) and n.left.id in env and n.comparators[0].id in env:
        c = n.comparators[0].id
        if c in YDICTS or c in YKEYLISTS:
            r = ('has_key' if c in YDICTS else 'memz', ('var', n.left.id), ('var', c))
            return r if isinstance(n.ops[0], ast.In) else ('not', r)
    t = ast.unparse(n)
    if t == 'source_complete.is_set()' and 'source_complete' in env:
        return ('var', 'source_complete')
    if t == 'empty_queue_cb is not None' and 'empty_queue_cb' in env:
        return ('var', 'empty_queue_cb')
    return cond(n, env, notes)


def _send_args(call, env, notes):
    """co.send((a, b)) | co.send(p) with p a (start, chunk) pair"""
    if len(call.args) != 1 or call.keywords:
        raise Gap(f'line {call.lineno}: send call not covered')
    a = call.args[0]
    if isinstance(a, ast.Tuple) and len(a.elts) == 2:
        return expr(a.elts[0], env, notes), expr(a.elts[1], env, notes)
    if _is_name(a) and a.id in env and YTYPES.get(a.id) == 'Z * list Z':
        return ('fst', ('var', a.id)), ('snd', ('var', a.id))
    raise Gap(f'line {call.lineno}: send argument `{ast.unparse(a)}` not covered')


def yblock(stmts, env, Y, mode, on_stop, alias, pins):
    """-> tree.  on_stop: (statement list, mode) to go on with when a coroutine finishes (StopIteration), None: propagates.
    mode: 'top' | 'while' | 'for'.  alias: {coroutine variable: (dict, key variable)}."""
    if not stmts:
        return ('end', 'next')
    st, rest = stmts[0], stmts[1:]
    go = lambda r=rest, e=env, o=on_stop: yblock(r, e, Y, mode, o, alias, pins)
    if isinstance(st, tuple) and st[0] == 'endtry':
        return yblock(rest, env, Y, mode, st[1], alias, pins)
    text = ast.unparse(st)
    if text in pins:
        act = pins[text]
        Y.notes.add(f'pinned: `{text.splitlines()[0]}{" ..." if chr(10) in text else ""}`'
                    + ('' if act is None else f' -> {act[0]} := {coq_expr(act[1])}'))
        if act is None:
            return go()
        for v in _fv_expr(act[1]):
            if v not in env:
                raise Gap(f'line {st.lineno}: pinned statement reads `{v}` before it is assigned')
        return ('let', act[0], act[1], go(e=env | {act[0]}))
    if isinstance(st, ast.Assign) and len(st.targets) == 1 and isinstance(st.targets[0], ast.Name):
        x, v = st.targets[0].id, st.value
        if isinstance(v, ast.Call) and isinstance(v.func, ast.Attribute) and v.func.attr == 'popleft' and not v.args \
                and not v.keywords and _is_name(v.func.value) and v.func.value.id in YDEQUES and v.func.value.id in env:
            return ('pop', x, v.func.value.id, go(e=env | {x}))
        if x == 'empty_queue_cb' and ast.unparse(v) == 'None':
            return ('let', x, ('false',), go())
        if x in YTYPES and x not in YDEQUES:
            return ('let', x, expr(v, env, Y.notes), go(e=env | {x}))
    if isinstance(st, ast.Assign) and len(st.targets) == 1 and isinstance(st.targets[0], ast.Subscript) \
            and _is_name(st.targets[0].value) and st.targets[0].value.id in YDICTS and _is_name(st.targets[0].slice) \
            and _is_name(st.value) and {st.targets[0].value.id, st.targets[0].slice.id, st.value.id} <= env:
        d = st.targets[0].value.id
        return ('let', d, ('dict_put', ('var', st.targets[0].slice.id), ('var', st.value.id), ('var', d)), go())
    if isinstance(st, ast.AugAssign) and isinstance(st.target, ast.Name) and type(st.op) in BINOPS:
        e = ('bin', BINOPS[type(st.op)], expr(st.target, env, Y.notes), expr(st.value, env, Y.notes))
        return ('let', st.target.id, e, go())
    if isinstance(st, ast.Expr) and isinstance(st.value, ast.Call):
        c = st.value
        f = c.func
        if text == 'empty_queue_cb()' and 'empty_queue_cb' in env:
            return ('let', 'cb_called', ('true',), go())
        if isinstance(f, ast.Attribute) and _is_name(f.value) and f.value.id in env and not c.keywords:
            o, m = f.value.id, f.attr
            if m == 'append' and len(c.args) == 1 and o not in YDEQUES and o not in YDICTS:
                return ('let', o, ('snoc', ('var', o), expr(c.args[0], env, Y.notes)), go())
            if m == 'remove' and o in YKEYLISTS and len(c.args) == 1 and _is_name(c.args[0]) and c.args[0].id in env:
                return ('remove', c.args[0].id, o, go())
            if m == 'pop' and o in YDICTS and len(c.args) == 1 and _is_name(c.args[0]) and c.args[0].id in env:
                return ('dict_pop', c.args[0].id, o, go())
            if m == 'send' and YTYPES.get(o) == 'ce_state':
                a, b = _send_args(c, env, Y.notes)
                if 'key' not in env or 'epochs' not in env:
                    raise Gap(f'line {st.lineno}: send outside the scope of `key` / `epochs`')
                stop = ('end', 'stop') if on_stop is None else \
                    yblock(on_stop[0], env, Y, mode, on_stop[1], alias, pins)
                return ('send', o, a, b, alias.get(o), go(), stop)
    if text == YDUP:
        return ('raise', 'RDuplicate')
    if isinstance(st, ast.Continue) and mode == 'while':
        return ('end', 'next')
    if isinstance(st, ast.Pass):
        return go()
    if isinstance(st, ast.If):
        if ast.unparse(st.test) == 'len(epochs) != 0' and not st.orelse and '\n'.join(ast.unparse(x) for x in st.body) == YSTACK:
            Y.notes.add('pinned: the stacking of the epochs of one send + target(merged) + epochs[:] = [] -> Model.stack_ok kind')
            return ('if', ycond(st.test, env, Y.notes), ('stack', go()), go())
        return ('if', ycond(st.test, env, Y.notes), go(r=st.body + rest), go(r=st.orelse + rest))
    if isinstance(st, ast.Try):
        h = st.handlers
        if len(h) != 1 or ast.unparse(h[0].type) != 'StopIteration' or h[0].name or st.orelse or st.finalbody:
            raise Gap(f'line {st.lineno}: try statement not covered')
        return yblock(st.body + [('endtry', on_stop)] + rest, env, Y, mode, (h[0].body + rest, on_stop), alias, pins)
    if isinstance(st, ast.While) and not st.orelse:
        if text == YPRUNE:
            return ('prune', go())
        if _is_name(st.test) and st.test.id in YDEQUES and st.test.id in env:
            body = yblock(st.body, env, Y, 'while', None, {}, YPIN_DRAIN if st.test.id == 'removed_queue' else pins)
            Y.loops.append({'kind': 'while', 'test': st.test.id, 'body': body, 'line': st.lineno, 'env': set(env)})
            return ('loop', len(Y.loops) - 1, go(), ('raise', 'RStop'))
    if isinstance(st, ast.For) and not st.orelse:
        it, tg = ast.unparse(st.iter), ast.unparse(st.target)
        if it in [f'list({d}.items())' for d in YDICTS if d in env] and tg == '(key, epoch_coroutine)':
            d = st.iter.args[0].func.value.id
            body = yblock(st.body, env | {'key', 'epoch_coroutine'}, Y, 'for', None, {'epoch_coroutine': (d, 'key')}, pins)
            Y.loops.append({'kind': 'for', 'iter': ('var', d), 'pat': '(key, epoch_coroutine)', 'binds': ['key', 'epoch_coroutine'],
                            'body': body, 'line': st.lineno, 'env': set(env)})
        elif it == 'prior_samples' and it in env and tg == 'prior_sample':
            body = yblock(st.body, env | {'prior_sample'}, Y, 'for', None, alias, pins)
            Y.loops.append({'kind': 'for', 'iter': ('var', it), 'pat': 'prior_sample', 'binds': ['prior_sample'],
                            'body': body, 'line': st.lineno, 'env': set(env)})
        else:
            raise Gap(f'line {st.lineno}: for loop `{text.splitlines()[0]}` not covered')
        stop = ('raise', 'RStop') if on_stop is None else yblock(on_stop[0], env, Y, mode, on_stop[1], alias, pins)
        return ('loop', len(Y.loops) - 1, go(), stop)
    raise Gap(f'line {st.lineno}: statement `{text.splitlines()[0]}` of {YF} not covered')


def _fv_expr(e):
    if e[0] == 'var':
        return {e[1]}
    return set().union(*[_fv_expr(x) for x in e[1:] if isinstance(x, tuple)]) if len(e) > 1 else set()


def _tree_vars(t, loops):
    """(read, written) variable names of a tree (bound names included: the caller intersects with its environment)"""
    k = t[0]
    if k == 'let':
        r, w = _tree_vars(t[3], loops)
        return r | _fv_expr(t[2]), w | {t[1]}
    if k == 'if':
        a, b = _tree_vars(t[2], loops), _tree_vars(t[3], loops)
        return a[0] | b[0] | _fv_expr(t[1]), a[1] | b[1]
    if k == 'pop':
        r, w = _tree_vars(t[3], loops)
        return r | {t[2]}, w | {t[1], t[2]}
    if k in ('remove', 'dict_pop'):
        r, w = _tree_vars(t[3], loops)
        return r | {t[1], t[2]}, w | {t[2]}
    if k == 'send':
        a, b = _tree_vars(t[5], loops), _tree_vars(t[6], loops)
        al = {t[4][0], t[4][1]} if t[4] else set()
        return a[0] | b[0] | _fv_expr(t[2]) | _fv_expr(t[3]) | {t[1], 'key', 'epochs'} | al, a[1] | b[1] | {t[1], 'epochs'} | ({t[4][0]} if t[4] else set())
    if k == 'loop':
        L = loops[t[1]]
        a, b = _tree_vars(t[2], loops), _tree_vars(t[3], loops)
        return a[0] | b[0] | set(L['args']) | (_fv_expr(L['iter']) if L['kind'] == 'for' else set()), a[1] | b[1] | set(L['W'])
    if k == 'prune':
        r, w = _tree_vars(t[1], loops)
        return r | {'tlb', 'prior_samples', 'buffer_samples'}, w | {'prior_samples'}
    if k == 'stack':
        r, w = _tree_vars(t[1], loops)
        return r | {'epochs'}, w | {'epochs', 'target_arg'}
    return set(), set()


def translate_send(tree, notes):
    f = [n for n in tree.body if isinstance(n, ast.FunctionDef) and n.name == YF][0]     # shape checked by translate_extract
    body = [st for st in f.body if not (isinstance(st, ast.Expr) and isinstance(st.value, ast.Constant))]
    pre, loop = body[:-1], body[-1].body
    init = {}
    for st in pre:
        text = ast.unparse(st)
        if text not in YPRE or text in init:
            raise Gap(f'line {st.lineno}: `{text.splitlines()[0]}` before the loop of {YF} not covered')
        init[text] = YPRE[text]
    if set(init) != set(YPRE):
        raise Gap(f'{YF}: initialisation {sorted(set(YPRE) - set(init))} not found')
    names = [a.arg for a in f.args.args]
    for v in ('queue', 'removed_queue', 'source_complete', 'empty_queue_cb', 'target', 'buffer_size', 'fs'):
        if v not in names:
            raise Gap(f'{YF} has no parameter {v}')
    Y = _Y(notes)
    env = set(YSTATE) | set(YINPUTS) | {'target_arg', 'cb_called'}
    top = yblock(loop[1:], env, Y, 'top', None, {}, YPIN)
    # the variables of every loop: arguments = what its body reads of the enclosing scope, results = what it writes of it
    for L in Y.loops:                                   # inner loops are appended before the loops that contain them
        r, w = _tree_vars(L['body'], Y.loops)
        scope = L['env']
        extra = {L['test']} if L['kind'] == 'while' else set()
        L['W'] = [v for v in YTYPES if v in (w | extra) & scope and (L['kind'] == 'while' or v not in L['binds'])]
        L['args'] = [v for v in YTYPES if v in (r | w | extra) & scope]
        L['name'] = f'{YF}_' + YLOOPS[L['test'] if L['kind'] == 'while' else L['iter'][1]]      # by what it runs over
    if len({L['name'] for L in Y.loops}) != len(Y.loops):
        raise Gap(f'{YF}: two loops over the same container')
    nloops = {'while': 0, 'for': 0}
    for L in Y.loops:
        nloops[L['kind']] += 1
    if nloops != {'while': 2, 'for': 2}:
        raise Gap(f'{YF}: loops found {nloops}')
    targets = [n for n in ast.walk(f) if isinstance(n, ast.Call) and _is_name(n.func, 'target')]
    if len(targets) != 1:
        raise Gap(f'{YF}: {len(targets)} target calls')
    return {'init': {v[0]: v[1] for v in init.values() if v}, 'top': top, 'loops': Y.loops}


# ---- printing
def _tuple(vs, flag=None):
    xs = list(vs) + ([flag] if flag is not None else [])
    return '(' + ', '.join(xs) + ')' if len(xs) != 1 else xs[0]


def _ttype(vs, flag=True):
    xs = [f'({YTYPES[v]})' for v in vs] + (['bool'] if flag else [])
    return ' * '.join(xs)


def coq_ytree(t, ys, ind, end):
    """end: function kind -> Coq text of the result of a path"""
    p = ' ' * ind
    k = t[0]
    rec = lambda x, i=ind: coq_ytree(x, ys, i, end)
    if k == 'let':
        return f'{p}let {t[1]} := {coq_expr(t[2])} in\n' + rec(t[3])
    if k == 'if':
        return f'{p}if {coq_expr(t[1])} then\n' + rec(t[2], ind + 2) + f'\n{p}else\n' + rec(t[3], ind + 2)
    if k == 'pop':
        return f'{p}match {t[2]} with\n{p}| [] => XRaise RIndexError\n{p}| {t[1]} :: {t[2]} =>\n' + rec(t[3], ind + 2) + f'\n{p}end'
    if k == 'remove':
        return (f'{p}if memz {t[1]} {t[2]} then\n{p}  let {t[2]} := remove_first {t[1]} {t[2]} in\n' + rec(t[3], ind + 2)
                + f'\n{p}else XRaise RValueError')
    if k == 'dict_pop':
        return (f'{p}if has_key fst {t[1]} {t[2]} then\n{p}  let {t[2]} := del_key fst {t[1]} {t[2]} in\n' + rec(t[3], ind + 2)
                + f'\n{p}else XRaise RKeyError')
    if k == 'raise':
        return f'{p}XRaise {t[1]}'
    if k == 'end':
        return p + end(t[1])
    if k == 'send':
        co, al = t[1], t[4]
        upd = f'{p}let {al[0]} := dict_put {al[1]} {co} {al[0]} in\n' if al else ''
        return (f"{p}let '(co_, out_, fin_) := capture_epoch_step {co} {coq_expr(t[2])} {coq_expr(t[3])} in\n"
                f'{p}let epochs := epochs ++ out_items key {co} out_ in\n{p}let {co} := co_ in\n' + upd
                + f'{p}if fin_ then\n' + rec(t[6], ind + 2) + f'\n{p}else\n' + rec(t[5], ind + 2))
    if k == 'loop':
        L = ys['loops'][t[1]]
        first = 'fuel ' if L['kind'] == 'while' else coq_expr(L['iter']) + ' '
        call = f'{L["name"]} {first}' + ' '.join(L['args'])
        return (f'{p}match {call} with\n{p}| XRaise e_ => XRaise e_\n{p}| XOk {_tuple(L["W"], "true")} =>\n' + rec(t[3], ind + 2)
                + f'\n{p}| XOk {_tuple(L["W"], "false")} =>\n' + rec(t[2], ind + 2) + f'\n{p}end')
    if k == 'prune':
        return (f'{p}match {XFUNC}_prune fuel tlb prior_samples buffer_samples with\n{p}| None => XRaise RIndexError\n'
                f'{p}| Some prior_samples =>\n' + rec(t[1], ind + 2) + f'\n{p}end')
    if k == 'stack':
        return (f'{p}if stack_ok kind_ epochs then\n{p}  let target_arg := Some epochs in\n{p}  let epochs := [] in\n'
                + rec(t[1], ind + 2) + f'\n{p}else XRaise RStack')
    raise Gap(f'printer: {k}')


YHEADER = """(* ---- extract_epochs: one whole send (second batch).  Fixed glue: *)
(* what epochs.append receives from the coroutine filed under `key`, as the model's item *)
Definition ce_item (key : Z) (st : ce_state) (o : ce_out) : item :=
  match o with
  | OTarget d => {| i_key := key; i_rid := ce_md st; i_s0 := ce_epoch_s0 st; i_data := d; i_missed := false |}
  | OMissed s0 md => {| i_key := key; i_rid := md; i_s0 := s0; i_data := []; i_missed := true |}
  end.
Definition out_items (key : Z) (st : ce_state) (o : option ce_out) : list item :=
  match o with None => [] | Some x => [ce_item key st x] end.
(* D[k] = v on an insertion-ordered dict: replaced in place, else appended *)
Fixpoint dict_put {A} (k : Z) (v : A) (d : list (Z * A)) : list (Z * A) :=
  match d with [] => [(k, v)] | x :: t => if fst x =? k then (k, v) :: t else x :: dict_put k v t end.
Inductive xraise := RIndexError | RKeyError | RValueError | RDuplicate | RStack | RStop | RFuel.
Inductive xres (A : Type) := XOk (a : A) | XRaise (e : xraise).
Arguments XOk {A}. Arguments XRaise {A}.
"""


def coq_send(ys, tr):
    out = [YHEADER, f'Record xe_state := mk_xe_state {{ ' + '; '.join(f'xe_{v} : {YTYPES[v]}' for v in YSTATE) + ' }.', '',
           '(* the statements before `while True:`; empty_queue_cb: whether a callback was given *)',
           f'Definition {YF}_init (empty_queue_cb : bool) : xe_state :=']
    out += [f'  let {v} := {coq_expr(e)} in' for v, e in ys['init'].items()] + [f'  mk_xe_state {" ".join(YSTATE)}.', '']
    for L in ys['loops']:
        sig = ' '.join(f'({v} : {YTYPES[v]})' for v in L['args'])
        rt = f'xres ({_ttype(L["W"])})'
        W = L['W']
        endf = lambda kind, W=W: f'XOk {_tuple(W, "true" if kind == "stop" else "false")}'
        body = coq_ytree(L['body'], ys, 6, endf)
        rec_call = f'{L["name"]} {"fuel" if L["kind"] == "while" else "items_"} ' + ' '.join(L['args'])
        if L['kind'] == 'while':
            out += [f'(* `while {L["test"]}:` at line {L["line"]} *)',
                    f'Fixpoint {L["name"]} (fuel : nat) {sig} : {rt} :=', '  match fuel with', '  | O => XRaise RFuel',
                    f'  | S fuel =>\n    if is_nil {L["test"]} then XOk {_tuple(W, "false")} else', '    match (', body, '    ) with',
                    '    | XRaise e_ => XRaise e_', f'    | XOk {_tuple(W, "_")} => {rec_call}', '    end', '  end.', '']
        else:
            it = YTYPES[L['iter'][1]]
            out += [f'(* `for {L["pat"]} in ...` at line {L["line"]}: over the snapshot items_; true = StopIteration left the loop *)',
                    f'Fixpoint {L["name"]} (items_ : {it}) {sig} : {rt} :=', '  match items_ with',
                    f'  | [] => XOk {_tuple(W, "false")}', f'  | {L["pat"]} :: items_ =>', '    match (', body, '    ) with',
                    '    | XRaise e_ => XRaise e_', f'    | XOk {_tuple(W, "true")} => XOk {_tuple(W, "true")}',
                    f'    | XOk {_tuple(W, "false")} => {rec_call}', '    end', '  end.', '']
    ins = ' '.join(f'({v} : {YTYPES[v]})' for v in YINPUTS)
    unpack = ''.join(f'  let {v} := xe_{v} st_ in\n' for v in YSTATE)
    endt = lambda kind: f'XOk (mk_xe_state {" ".join(YSTATE)}, target_arg, cb_called)'
    out += ['(* one send(data): the loop body from `data = (yield)` to the next yield.  queue / removed_queue: their contents;',
            '   kind_: what the chunks are (Model.kind) - only the stacking depends on it *)',
            f'Definition {YF}_send (fuel : nat) (kind_ : kind) (st_ : xe_state) {ins}',
            '  : xres (xe_state * option (list item) * bool) :=',
            unpack + '  let target_arg := None in\n  let cb_called := false in\n' + coq_ytree(ys['top'], ys, 2, endt) + '.', '']
    return '\n'.join(out)


# ---- the independent evaluator of the whole send, and the comparison with the real extract_epochs
_TR = {}


def _stack_ok(kind, b):
    """Extract/Model.v stack_ok; kind = (annot, multi)"""
    uniform = all(len(y['data']) == len(b[0]['data']) for y in b[1:]) if b else True
    return uniform and (all(y['missed'] for y in b) or not any(y['missed'] for y in b)
                        or ((not kind[1]) and (kind[0] or not (b[0]['missed'] if b else False))))


def _dict_put(k, v, d):
    return [(k, v) if x[0] == k else x for x in d] if any(x[0] == k for x in d) else d + [(k, v)]


def yrun(t, env, ys, xt, kind):
    """-> ('ok', env, 'next' | 'stop') | ('raise', R)"""
    tr = _TR['tr']
    while True:
        k = t[0]
        if k == 'let':
            env[t[1]] = ev(t[2], env)
            t = t[3]
        elif k == 'if':
            t = t[2] if ev(t[1], env) else t[3]
        elif k == 'pop':
            if not env[t[2]]:
                return ('raise', 'RIndexError')
            env[t[1]], env[t[2]] = env[t[2]][0], env[t[2]][1:]
            t = t[3]
        elif k == 'remove':
            l = list(env[t[2]])
            if env[t[1]] not in l:
                return ('raise', 'RValueError')
            l.remove(env[t[1]])
            env[t[2]] = l
            t = t[3]
        elif k == 'dict_pop':
            d = env[t[2]]
            i = [j for j, x in enumerate(d) if x[0] == env[t[1]]]
            if not i:
                return ('raise', 'RKeyError')
            env[t[2]] = d[:i[0]] + d[i[0] + 1:]
            t = t[3]
        elif k == 'raise':
            return ('raise', t[1])
        elif k == 'end':
            return ('ok', env, t[1])
        elif k == 'send':
            co = env[t[1]]
            st2, o, fin = run_tree(tr['step'], dict(co, slb=ev(t[2], env), data=ev(t[3], env)), tr['state'])
            if o is not None:
                it = {'key': env['key'], 'rid': co['md'], 's0': co['epoch_s0'], 'data': o[1], 'missed': False} if o[0] == 'data' \
                    else {'key': env['key'], 'rid': o[2], 's0': o[1], 'data': [], 'missed': True}
                env['epochs'] = env['epochs'] + [it]
            env[t[1]] = st2
            if t[4]:
                env[t[4][0]] = _dict_put(env[t[4][1]], st2, env[t[4][0]])
            t = t[6] if fin else t[5]
        elif k == 'loop':
            L = ys['loops'][t[1]]
            stopped = False
            if L['kind'] == 'while':
                fuel = len(env[L['test']]) + 1
                while env[L['test']]:
                    fuel -= 1
                    r = yrun(L['body'], dict(env), ys, xt, kind) if fuel > 0 else ('raise', 'RFuel')
                    if r[0] == 'raise':
                        return r
                    for v in L['W']:
                        env[v] = r[1][v]
            else:
                for x in list(ev(L['iter'], env)):
                    e2 = dict(env)
                    for nme, val in zip(L['binds'], x if len(L['binds']) > 1 else [x]):
                        e2[nme] = val
                    r = yrun(L['body'], e2, ys, xt, kind)
                    if r[0] == 'raise':
                        return r
                    for v in L['W']:
                        env[v] = r[1][v]
                    if r[2] == 'stop':
                        stopped = True
                        break
            t = t[3] if stopped else t[2]
        elif k == 'prune':
            loop = [i for i in xt['items'] if i[0] == 'loop'][0]
            for _ in range(len(env['prior_samples']) + 2):
                r = run_tree(loop[1], {v: env[v] for v in XVARS}, ['prior_samples'])
                if r is None:
                    return ('raise', 'RIndexError')
                env['prior_samples'] = r[0]['prior_samples']
                if r[2]:
                    break
            else:
                return ('raise', 'RFuel')
            t = t[1]
        elif k == 'stack':
            if not _stack_ok(kind, env['epochs']):
                return ('raise', 'RStack')
            env['target_arg'], env['epochs'] = list(env['epochs']), []
            t = t[1]
        else:
            raise Gap(f'evaluator: {k}')


def send_eval(ys, xt, st, B, data, rems, reqs, complete, kind=(False, False)):
    env = dict(st, buffer_samples=B, data=data, removed_queue=list(rems), queue=list(reqs), source_complete=complete,
               target_arg=None, cb_called=False)
    r = yrun(ys['top'], env, ys, xt, kind)
    if r[0] == 'raise':
        return r
    return ('ok', {v: r[1][v] for v in YSTATE}, r[1]['target_arg'], r[1]['cb_called'])


def selftest_send(ys, xt, tr, mod, rng, count=40):
    """the real extract_epochs (1-D NumPy chunks) driven with random requests / removals / completion flags, send by send:
    exceptions, what target received, callback calls, tlb, prior_samples, the pending coroutines (order, frame locals)"""
    import collections
    import logging
    import threading
    import numpy as np
    logging.getLogger('psiaudio.pipeline').setLevel(logging.ERROR)
    _TR['tr'] = tr
    n_sends, outcomes, ex = 0, collections.Counter(), []
    for trial in range(count):
        fs = rng.choice([1000.0, 195312.5])
        Bk = rng.choice([0, 2, 5, 9])
        pre, post = rng.choice([0, 2]) / fs, rng.choice([0, 1]) / fs
        per_req = trial % 4 == 3                       # per-request durations: unequal lengths can meet in one send
        size = None if per_req else rng.randint(0, 5) / fs
        q, rq, got, cbs = collections.deque(), collections.deque(), [], []
        sc = threading.Event() if trial % 3 == 0 else None
        armed = trial % 5 != 4
        ex_ = mod.extract_epochs(fs, q, size, got.append, buffer_size=Bk / fs, empty_queue_cb=(lambda: cbs.append(1)) if armed else None,
                                 removed_queue=rq, prestim_time=pre, poststim_time=post, source_complete=sc)
        B = round((Bk / fs) * fs)
        st = {'tlb': ev(ys['init']['tlb'], {}), 'epoch_coroutines': [], 'prior_samples': [], 'epochs': [], 'empty_queue_cb': armed}
        kid, known, nrid = {}, [], 0
        for j in range(rng.randint(2, 8)):
            chunk = [rng.randint(0, 99) for _ in range(rng.randint(0, 6))]
            reqs, rems = [], []
            for _ in range(rng.choice([0, 0, 1, 1, 2, 3])):
                if known and rng.random() < 0.12:
                    t0, key = rng.choice(known)                              # a second request with the same (t0, key)
                else:
                    t0, key = (st['tlb'] + rng.randint(-4, 9)) / fs, rng.choice([None, 'a', j])
                nrid += 1
                info = {'t0': t0, 'key': key, 'metadata': {'rid': nrid}}
                if key is None:
                    del info['key']
                dur = rng.randint(0, 5) / fs
                if per_req:
                    info['duration'] = dur
                known.append((t0, key))
                k_ = kid.setdefault((t0, key), len(kid))
                reqs.append({'r_key': k_, 'r_lo': round((t0 - pre) * fs), 'r_rid': nrid,
                             'r_n': round(((dur if per_req else size) + post + pre) * fs)})
                q.append(info)
            for _ in range(rng.choice([0, 0, 0, 1, 2])):
                t0, key = rng.choice(known) if known and rng.random() < 0.8 else (77.0, 'zz')
                rems.append(kid.setdefault((t0, key), len(kid)))
                rq.append({'t0': t0, 'key': key})
            if sc is not None:
                sc.set() if rng.random() < 0.6 else sc.clear()
            complete = True if sc is None else sc.is_set()
            n_got, n_cb = len(got), len(cbs)
            try:
                ex_.send(np.array(chunk, dtype=np.int64))
                real = 'ok'
            except IndexError:
                real = 'RIndexError'
            except ValueError as e:
                real = 'RDuplicate' if 'Duplicate epochs' in str(e) else 'RStack'
            mine = send_eval(ys, xt, st, B, chunk, rems, reqs, complete)
            n_sends += 1
            outcomes[real] += 1
            what = f'self-test: {YF} trial {trial} send {j} (B={B}, chunk {chunk}, requests {reqs}, removals {rems}, complete {complete})'
            if (mine[1] if mine[0] == 'raise' else 'ok') != real:
                raise Gap(f'{what}: the code {real}, the translation {mine[:2] if mine[0] == "raise" else "ok"}')
            ex.append((st, B, chunk, rems, reqs, complete, mine))
            if real != 'ok':
                break
            _, st2, tgt, cb = mine
            rows = [[int(v) for v in np.asarray(r).ravel()] for m in got[n_got:] for r in m]
            if len(got) - n_got > 1 or rows != [it['data'] for it in (tgt or [])] or (tgt is None) != (len(got) == n_got):
                raise Gap(f'{what}: target received {rows}, the translation {tgt}')
            if len(cbs) - n_cb != int(cb):
                raise Gap(f'{what}: callback called {len(cbs) - n_cb} times, the translation {cb}')
            fl = ex_.gi_frame.f_locals
            real_st = {'tlb': int(fl['tlb']), 'prior_samples': [(int(a), [int(v) for v in d]) for a, d in fl['prior_samples']],
                       'epochs': list(fl['epochs']), 'empty_queue_cb': fl['empty_queue_cb'] is not None,
                       'epoch_coroutines': [(kid[k], {'epoch_s0': int(c.gi_frame.f_locals['epoch_s0']),
                                                      'epoch_samples': int(c.gi_frame.f_locals['epoch_samples']),
                                                      'current_s0': int(c.gi_frame.f_locals['current_s0']),
                                                      'accumulated_data': [[int(v) for v in np.asarray(x)] for x in c.gi_frame.f_locals['accumulated_data']]})
                                            for k, c in fl['epoch_coroutines'].items()]}
            mine_st = dict(st2, epoch_coroutines=[(k, {f: c[f] for f in ('epoch_s0', 'epoch_samples', 'current_s0', 'accumulated_data')})
                                                  for k, c in st2['epoch_coroutines']])
            if real_st != mine_st or q or rq:
                raise Gap(f'{what}: state of the code {real_st}, of the translation {mine_st}')
            st = st2
    need = {'ok', 'RDuplicate', 'RStack'}
    if not need <= set(outcomes):
        raise Gap(f'self-test: outcomes reached {dict(outcomes)}, wanted {need}')
    return n_sends, dict(outcomes), ex


def examples_send(ys, ex, limit=10):
    """sends of the real extract_epochs as Examples about the emitted text (compared through ye_obs: everything but the
    auto_send / info fields the frames do not show differently)"""
    def zl(l):
        return '[' + '; '.join(_z(x) for x in l) + ']'

    def pl(p):
        return '[' + '; '.join(f'({_z(a)}, {zl(d)})' for a, d in p) + ']'

    def cs(c):
        vals = {'Z': _z, 'bool': lambda v: 'true' if v else 'false', 'list (list Z)': lambda v: '[' + '; '.join(zl(x) for x in v) + ']'}
        return '(mk_ce_state ' + ' '.join(vals[VAR_TYPES[k]](c[k]) for k in _TR['tr']['state']) + ')'

    def il(b):
        return '[' + '; '.join(f'{{| i_key := {_z(i["key"])}; i_rid := {_z(i["rid"])}; i_s0 := {_z(i["s0"])}; i_data := {zl(i["data"])}; '
                               f'i_missed := {"true" if i["missed"] else "false"} |}}' for i in b) + ']'

    def stl(st):
        return (f'(mk_xe_state {_z(st["tlb"])} [' + '; '.join(f'({_z(k)}, {cs(c)})' for k, c in st['epoch_coroutines']) + f'] {pl(st["prior_samples"])} '
                f'{il(st["epochs"])} {"true" if st["empty_queue_cb"] else "false"})')
    out = []
    ex = sorted(ex, key=lambda x: (x[6][0] == 'ok', -len(x[4]) - len(x[3]) - len(x[0]['epoch_coroutines'])))
    for st, B, chunk, rems, reqs, complete, mine in ex[:limit]:
        rl = '[' + '; '.join(f'mkreq {_z(r["r_key"])} {_z(r["r_lo"])} {_z(r["r_n"])} {_z(r["r_rid"])}' for r in reqs) + ']'
        fuel = len(rems) + len(reqs) + len(st['prior_samples']) + 3
        call = f'{YF}_send {fuel} (mkkind false false) {stl(st)} {_z(B)} {zl(chunk)} {zl(rems)} {rl} {"true" if complete else "false"}'
        r = f'XRaise {mine[1]}' if mine[0] == 'raise' else \
            f'XOk ({stl(mine[1])}, {"None" if mine[2] is None else "Some " + il(mine[2])}, {"true" if mine[3] else "false"})'
        out.append(f'Example real_whole_send_{len(out)} : {call} = {r}.\nProof. vm_compute. reflexivity. Qed.')
    return out


def translate(repo, rng=None):
    """-> (Coq text of coq/gen/CaptureGen.v, info dict).  Raises Gap (fail closed)."""
    import importlib
    import random
    path = os.path.join(repo, RELPATH)
    with open(path) as f:
        src = f.read()
    tr = translate_source(src)
    xnotes = set()
    xt = translate_extract(ast.parse(src), xnotes)
    mod = importlib.import_module('psiaudio.pipeline')
    if os.path.realpath(mod.__file__) != os.path.realpath(path):
        raise Gap(f'self-test would run {mod.__file__}, not {path}')
    n_steps, ex = selftest(tr, mod, rng or random.Random(5))
    n_sends, xex = selftest_extract(xt, mod, random.Random(6))
    ys = translate_send(ast.parse(src), xnotes)
    n_whole, outcomes, yex = selftest_send(ys, xt, tr, mod, random.Random(7))
    head = (f'(* GENERATED on every run by translate/pycapture2coq.py from {path}\n'
            f'   (coroutine {FUNC}, lines {tr["lines"][0]}-{tr["lines"][1]}) - do not edit.\n'
            + ''.join('   ' + n.replace('"', "'").replace('(*', '( *').replace('*)', '* )') + '\n'
                      for n in tr['notes'] + sorted(xnotes)) + '*)')
    text = coq_text(tr, head)
    text += ('\n(* runs of the real coroutine (NumPy int64 chunks), send by send: state of the suspended frame, what target\n'
             '   received, StopIteration - checked here against the text above *)\n' + '\n'.join(examples(tr, ex)) + '\n')
    text += ('\n' + coq_extract(xt, tr) + '\n(* sends of the real extract_epochs: tlb, prior_samples of the suspended frame before / after *)\n'
             + '\n'.join(examples_extract(xex)) + '\n')
    text += ('\n' + coq_send(ys, tr) + '\n(* whole sends of the real extract_epochs (1-D NumPy chunks): state of the suspended frames before / after,\n'
             '   what target received, whether the callback was called, or the exception *)\n' + '\n'.join(examples_send(ys, yex)) + '\n')
    return text, {'function': FUNC, 'lines': tr['lines'], 'state': tr['state'], 'notes': tr['notes'],
                  'selftest_steps': n_steps, 'extract_lines': xt['lines'], 'extract_notes': sorted(xnotes),
                  'selftest_sends': n_sends, 'selftest_whole_sends': n_whole, 'selftest_outcomes': outcomes}


if __name__ == '__main__':
    import sys
    repo = sys.argv[1] if len(sys.argv) > 1 else '/repo'
    sys.path.insert(0, repo)
    text, info = translate(repo)
    if len(sys.argv) > 2:
        open(sys.argv[2], 'w').write(text)
    else:
        print(text)
    print(info, file=sys.stderr)
