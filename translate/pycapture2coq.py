"""pycapture2coq - fail-closed `ast` translator: the coroutine psiaudio.pipeline.capture_epoch -> coq/gen/CaptureGen.v (C05).

COROUTINE -> STEP FUNCTION.  A generator function decorated with @coroutine of the shape

    <statements S0>                 # locals set up before the loop
    while True:
        slb, data = (yield)         # one send((slb, data))
        <statements S>              # at most one target(...) call on every path; `break` ends the generator

becomes  <f>_init  : the parameters -> state          (S0; the state = parameters + locals assigned in S0)
         <f>_step  : state -> Z -> list Z -> state * option ce_out * bool      (S; the bool says `break` was reached)
Statements are translated one by one into a chain of `let`s; `if` splits the chain (the rest of the body is translated
under both branches), `x op= e` and `x = e` rebind x, `xs.append(e)` rebinds xs to xs ++ [e], target(e) records the
output of the path.  A local of the loop body that is read before it is assigned on that path (i.e. that would carry
a value from one send to the next without being part of the state) is rejected.

Everything that is not integer / list bookkeeping is in the tables below: a statement whose `ast.unparse` text is a key
of PINNED is replaced by what the table says (None = dropped); the float guards int(round(e)) are integer identities
(the harness hands the model the effective integers); data.shape[-1] is the chunk length, data[..., a:b] a py_slice.
ANY other statement, expression, call, name, keyword, decorator, default value or signature raises Gap.

The translator produces a small tree (IR) first; the Coq text is printed from it, and `selftest` interprets the same
tree with a few-line evaluator and compares it, send by send (state, output, finished), with the REAL coroutine run on
NumPy arrays (state read from the suspended generator frame).  `examples` turns real runs into `Example`s that coqc
checks against the emitted text itself.
"""
import ast
import os

RELPATH = os.path.join('psiaudio', 'pipeline.py')
FUNC = 'capture_epoch'
PREFIX = 'capture_epoch'


class Gap(Exception):
    pass


# ---- tables --------------------------------------------------------------------------------------------------------
SIGNATURE = 'epoch_s0, epoch_samples, info, target, fs=None, auto_send=False'
COROUTINE_DEF = ("def coroutine(func):\n\n    def start(*args, **kwargs):\n        cr = func(*args, **kwargs)\n"
                 "        next(cr)\n        return cr\n    return start")          # docstring removed
# Coq types of the variables that may be part of the state (anything else in the state raises)
VAR_TYPES = {'epoch_s0': 'Z', 'epoch_samples': 'Z', 'current_s0': 'Z', 'info': 'Z', 'md': 'Z',
             'accumulated_data': 'list (list Z)', 'auto_send': 'bool'}
# parameters that are not state: the callback (only ever called) and the sampling rate (only ever passed on, see MISSED)
NON_STATE_PARAMS = {'target', 'fs'}
# pinned statements: unparse text -> None (dropped) | (name, IR expression) (a binding)
PINNED = {
    # the request's info dict and its 'metadata' entry are one identity in the model (c_rid)
    'info = info.copy()': ('info', ('var', 'info')),
    "md = info.pop('metadata', {})": ('md', ('var', 'info')),
    # logging
    "m = 'Missed samples for epoch of %d samples starting at %d'": None,
    'log.warning(m, epoch_samples, epoch_s0)': None,
    # writes the metadata of the piece c only (no sample, shape or integer local): the model's tag c_rid stands for it
    "if hasattr(c, 'metadata'):\n    c.metadata.update(md)\n    c.metadata.update(info)": None,
}
# target(<this call>) is the "missed" stub: an empty PipelineData that carries s0 and the request's metadata
MISSED_FUNC, MISSED_ARGS, MISSED_KW = 'PipelineData', ['[]'], {'fs': 'fs'}      # + s0=<int expr>, metadata=<name>
BINOPS = {ast.Add: '+', ast.Sub: '-', ast.Mult: '*'}       # no // or % in this coroutine: not covered (Z.div by 0 differs)
CMPOPS = {ast.Lt: '<?', ast.LtE: '<=?', ast.Gt: '>?', ast.GtE: '>=?', ast.Eq: '=?'}


# ---- expressions ---------------------------------------------------------------------------------------------------
def _is_name(n, name=None):
    return isinstance(n, ast.Name) and (name is None or n.id == name)


def expr(n, env, notes):
    """integer / list expression -> IR"""
    if isinstance(n, ast.Name):
        if n.id not in env:
            raise Gap(f'line {n.lineno}: `{n.id}` is read before it is assigned on this path (or is not a known local)')
        return ('var', n.id)
    if isinstance(n, ast.Constant) and type(n.value) is int:
        return ('int', n.value)
    if isinstance(n, ast.List) and not n.elts:
        return ('nil',)
    if isinstance(n, ast.BinOp) and type(n.op) in BINOPS:
        return ('bin', BINOPS[type(n.op)], expr(n.left, env, notes), expr(n.right, env, notes))
    if isinstance(n, ast.UnaryOp) and isinstance(n.op, ast.USub):
        return ('bin', '-', ('int', 0), expr(n.operand, env, notes))
    if isinstance(n, ast.Call) and not n.keywords and _is_name(n.func):
        f, a = n.func.id, n.args
        if f == 'int' and len(a) == 1 and isinstance(a[0], ast.Call) and _is_name(a[0].func, 'round') \
                and len(a[0].args) == 1 and not a[0].keywords:
            notes.add('int(round(e)) = e on integers (the harness hands the model the effective integers)')
            return expr(a[0].args[0], env, notes)
        if f in ('min', 'max') and len(a) == 2:
            return (f, expr(a[0], env, notes), expr(a[1], env, notes))
        if f == 'len' and len(a) == 1:
            return ('len', expr(a[0], env, notes))
    if isinstance(n, ast.Call) and _is_name(n.func, 'concat') and len(n.args) == 1 \
            and [(k.arg, ast.unparse(k.value)) for k in n.keywords] == [('axis', '-1')]:
        return ('concat', expr(n.args[0], env, notes))                  # pieces joined along time
    if isinstance(n, ast.Subscript) and isinstance(n.value, ast.Attribute) and n.value.attr == 'shape' \
            and ast.unparse(n.slice) == '-1':
        return ('len', expr(n.value.value, env, notes))                 # x.shape[-1]: samples along time
    if isinstance(n, ast.Subscript) and isinstance(n.slice, ast.Tuple) and len(n.slice.elts) == 2 \
            and isinstance(n.slice.elts[0], ast.Constant) and n.slice.elts[0].value is Ellipsis \
            and isinstance(n.slice.elts[1], ast.Slice):
        s = n.slice.elts[1]                                             # x[..., a:b]
        if s.step is not None or s.lower is None or s.upper is None:
            raise Gap(f'line {n.lineno}: slice form `{ast.unparse(n)}` not covered')
        return ('slice', expr(n.value, env, notes), expr(s.lower, env, notes), expr(s.upper, env, notes))
    raise Gap(f'line {getattr(n, "lineno", "?")}: expression `{ast.unparse(n)}` not covered')


def cond(n, env, notes):
    if isinstance(n, ast.Compare) and len(n.ops) == 1 and type(n.ops[0]) in CMPOPS:
        return ('cmp', CMPOPS[type(n.ops[0])], expr(n.left, env, notes), expr(n.comparators[0], env, notes))
    if isinstance(n, ast.Compare) and len(n.ops) == 1 and isinstance(n.ops[0], ast.NotEq):
        return ('not', ('cmp', '=?', expr(n.left, env, notes), expr(n.comparators[0], env, notes)))
    if isinstance(n, ast.Name) and VAR_TYPES.get(n.id) == 'bool' and n.id in env:
        return ('var', n.id)
    if isinstance(n, ast.UnaryOp) and isinstance(n.op, ast.Not):
        return ('not', cond(n.operand, env, notes))
    if isinstance(n, ast.BoolOp):
        r = cond(n.values[0], env, notes)
        for v in n.values[1:]:
            r = ('and' if isinstance(n.op, ast.And) else 'or', r, cond(v, env, notes))
        return r
    raise Gap(f'line {getattr(n, "lineno", "?")}: condition `{ast.unparse(n)}` not covered')


# ---- statements ----------------------------------------------------------------------------------------------------
def _target_call(st, env, notes):
    """target(x) -> ('data', IR) ; target(PipelineData([], fs=fs, s0=e, metadata=v)) -> ('missed', IR, IR)"""
    c = st.value
    if len(c.args) != 1 or c.keywords:
        raise Gap(f'line {st.lineno}: target call `{ast.unparse(st)}` not covered')
    a = c.args[0]
    if isinstance(a, ast.Name):
        return ('data', expr(a, env, notes))
    if isinstance(a, ast.Call) and _is_name(a.func, MISSED_FUNC) and [ast.unparse(x) for x in a.args] == MISSED_ARGS:
        kw = {k.arg: k.value for k in a.keywords}
        if len(kw) == len(a.keywords) and set(kw) == set(MISSED_KW) | {'s0', 'metadata'} \
                and all(ast.unparse(kw[k]) == v for k, v in MISSED_KW.items()) and isinstance(kw['metadata'], ast.Name):
            return ('missed', expr(kw['s0'], env, notes), expr(kw['metadata'], env, notes))
    raise Gap(f'line {st.lineno}: target call `{ast.unparse(st)}` not covered')


def block(stmts, env, out, state, notes, in_loop):
    """statement list (+ what follows it: nothing) -> IR tree.  env: names bound here; out: output recorded so far."""
    if not stmts:
        return ('end', out, False)
    st, rest = stmts[0], stmts[1:]
    text = ast.unparse(st)
    if text in PINNED:
        act = PINNED[text]
        notes.add(f'pinned: `{text.splitlines()[0]}{" ..." if chr(10) in text else ""}` -> '
                  + ('dropped' if act is None else f'{act[0]} := {act[1][1]}'))
        if act is None:
            return block(rest, env, out, state, notes, in_loop)
        if act[1][1] not in env:
            raise Gap(f'line {st.lineno}: pinned statement reads `{act[1][1]}` before it is assigned')
        return ('let', act[0], act[1], block(rest, env | {act[0]}, out, state, notes, in_loop))
    if isinstance(st, ast.Expr) and isinstance(st.value, ast.Constant) and isinstance(st.value.value, str):
        return block(rest, env, out, state, notes, in_loop)              # a docstring / bare string
    if isinstance(st, ast.Assign) and len(st.targets) == 1 and isinstance(st.targets[0], ast.Name):
        x = st.targets[0].id
        return ('let', x, expr(st.value, env, notes), block(rest, env | {x}, out, state, notes, in_loop))
    if isinstance(st, ast.AugAssign) and isinstance(st.target, ast.Name) and type(st.op) in BINOPS:
        x = st.target.id
        e = ('bin', BINOPS[type(st.op)], expr(st.target, env, notes), expr(st.value, env, notes))
        return ('let', x, e, block(rest, env, out, state, notes, in_loop))
    if isinstance(st, ast.Expr) and isinstance(st.value, ast.Call):
        c = st.value
        if isinstance(c.func, ast.Attribute) and c.func.attr == 'append' and isinstance(c.func.value, ast.Name) \
                and len(c.args) == 1 and not c.keywords:
            x = c.func.value.id
            e = ('snoc', expr(c.func.value, env, notes), expr(c.args[0], env, notes))
            return ('let', x, e, block(rest, env, out, state, notes, in_loop))
        if _is_name(c.func, 'target') and in_loop:
            if out is not None:
                raise Gap(f'line {st.lineno}: a second target(...) call on one path')
            o = _target_call(st, env, notes)
            return ('out', o, block(rest, env, o[0], state, notes, in_loop))
    if isinstance(st, ast.If):
        c = cond(st.test, env, notes)
        return ('if', c, block(st.body + rest, env, out, state, notes, in_loop),
                block(st.orelse + rest, env, out, state, notes, in_loop))
    if isinstance(st, ast.Break) and in_loop:
        return ('end', out, True)
    raise Gap(f'line {st.lineno}: statement `{text.splitlines()[0]}` not covered')


def _function(tree):
    funcs = [n for n in tree.body if isinstance(n, ast.FunctionDef) and n.name == FUNC]
    if len(funcs) != 1:
        raise Gap(f'{len(funcs)} top-level definitions of {FUNC}')
    co = [n for n in tree.body if isinstance(n, ast.FunctionDef) and n.name == 'coroutine']
    if len(co) == 1 and co[0].body and isinstance(co[0].body[0], ast.Expr) and isinstance(co[0].body[0].value, ast.Constant) \
            and isinstance(co[0].body[0].value.value, str):
        co[0].body = co[0].body[1:]                                     # its docstring is free
    if len(co) != 1 or ast.unparse(co[0]) != COROUTINE_DEF:
        raise Gap('the @coroutine decorator is not the pinned auto-start decorator')
    for n in ast.walk(tree):
        if isinstance(n, (ast.Assign, ast.AugAssign, ast.AnnAssign, ast.Delete, ast.Global)):
            for t in ast.walk(n):
                if isinstance(t, ast.Name) and isinstance(t.ctx, (ast.Store, ast.Del)) and t.id in (FUNC, 'coroutine'):
                    raise Gap(f'`{t.id}` is rebound at line {t.lineno}')
    f = funcs[0]
    if [ast.unparse(d) for d in f.decorator_list] != ['coroutine']:
        raise Gap(f'decorators of {FUNC}: {[ast.unparse(d) for d in f.decorator_list]}')
    if ast.unparse(f.args) != SIGNATURE:
        raise Gap(f'signature of {FUNC} is `{ast.unparse(f.args)}`, pinned `{SIGNATURE}`')
    return f


def translate_source(src):
    """-> dict(state=[names], params=[names], defaults={}, init=IR, step=IR, notes=[..])"""
    f = _function(ast.parse(src))
    notes = set()
    body = list(f.body)
    if not body or not isinstance(body[-1], ast.While) or ast.unparse(body[-1].test) != 'True' or body[-1].orelse:
        raise Gap(f'{FUNC} does not end with `while True:`')
    pre, loop = body[:-1], body[-1].body
    if not loop or ast.unparse(loop[0]) != 'slb, data = (yield)':
        raise Gap(f'the loop of {FUNC} does not start with `slb, data = (yield)`')
    for n in ast.walk(f):
        if isinstance(n, (ast.Yield, ast.YieldFrom, ast.Await, ast.Return, ast.Continue, ast.Try, ast.With, ast.For,
                          ast.Lambda, ast.FunctionDef, ast.Global, ast.Nonlocal, ast.NamedExpr)) \
                and not (isinstance(n, ast.Yield) and n is loop[0].value) and n is not f:
            raise Gap(f'line {n.lineno}: `{type(n).__name__}` inside {FUNC}')
        if isinstance(n, ast.While) and n is not body[-1]:
            raise Gap(f'line {n.lineno}: a second loop inside {FUNC}')
    params = [a.arg for a in f.args.args if a.arg not in NON_STATE_PARAMS]
    defaults = {a.arg: d for a, d in zip(f.args.args[len(f.args.args) - len(f.args.defaults):], f.args.defaults)
                if a.arg not in NON_STATE_PARAMS}
    for k, d in defaults.items():
        if not (isinstance(d, ast.Constant) and type(d.value) is bool):
            raise Gap(f'default of {k} is not a bool constant')
    init = block(pre, set(params), None, None, notes, False)
    state = list(params)

    def assigned(t):
        if t[0] == 'let':
            if t[1] not in state:
                state.append(t[1])
            assigned(t[3])
        elif t[0] != 'end':
            raise Gap('branching before the loop is not covered')
    assigned(init)
    for v in state:
        if v not in VAR_TYPES:
            raise Gap(f'state variable `{v}` has no type in the table')
    step = block(loop[1:], set(state) | {'slb', 'data'}, None, state, notes, True)
    return {'state': state, 'params': params, 'defaults': {k: d.value for k, d in defaults.items()},
            'init': init, 'step': step, 'notes': sorted(notes), 'lines': (f.lineno, f.end_lineno)}


# ---- printing Coq ----------------------------------------------------------------------------------------------------
def _z(n):
    return f'{n}%Z' if n >= 0 else f'({n})%Z'


def coq_expr(e):
    k = e[0]
    if k == 'var':
        return e[1]
    if k == 'int':
        return _z(e[1])
    if k == 'nil':
        return '[]'
    if k == 'bin':
        return f'({coq_expr(e[2])} {e[1]} {coq_expr(e[3])})'
    if k in ('min', 'max'):
        return f'(Z.{k} {coq_expr(e[1])} {coq_expr(e[2])})'
    if k == 'len':
        return f'(zlen {coq_expr(e[1])})'
    if k == 'concat':
        return f'(concat {coq_expr(e[1])})'
    if k == 'slice':
        return f'(py_slice (Some {coq_expr(e[2])}) (Some {coq_expr(e[3])}) {coq_expr(e[1])})'
    if k == 'snoc':
        return f'({coq_expr(e[1])} ++ [{coq_expr(e[2])}])'
    if k == 'cmp':
        return f'({coq_expr(e[2])} {e[1]} {coq_expr(e[3])})'
    if k == 'not':
        return f'(negb {coq_expr(e[1])})'
    if k in ('and', 'or'):
        return f'({coq_expr(e[1])} {"&&" if k == "and" else "||"} {coq_expr(e[2])})'
    raise Gap(f'printer: {k}')


def coq_tree(t, state, ind, is_step):
    p = ' ' * ind
    if t[0] == 'let':
        return f'{p}let {t[1]} := {coq_expr(t[2])} in\n' + coq_tree(t[3], state, ind, is_step)
    if t[0] == 'out':
        o = t[1]
        rhs = f'OTarget {coq_expr(o[1])}' if o[0] == 'data' else f'OMissed {coq_expr(o[1])} {coq_expr(o[2])}'
        return f'{p}let out_ := {rhs} in\n' + coq_tree(t[2], state, ind, is_step)
    if t[0] == 'if':
        return (f'{p}if {coq_expr(t[1])} then\n' + coq_tree(t[2], state, ind + 2, is_step) + f'\n{p}else\n'
                + coq_tree(t[3], state, ind + 2, is_step))
    if t[0] == 'end':
        st = f'mk_ce_state {" ".join(state)}'
        if not is_step:
            return f'{p}{st}'
        return f'{p}({st}, {"Some out_" if t[1] else "None"}, {"true" if t[2] else "false"})'
    raise Gap(f'printer: {t[0]}')


def coq_text(tr, header=''):
    state, params = tr['state'], tr['params']
    fields = '; '.join(f'ce_{v} : {VAR_TYPES[v]}' for v in state)
    unpack = ''.join(f'  let {v} := ce_{v} st_ in\n' for v in state)
    args = ' '.join(f'({v} : {VAR_TYPES[v]})' for v in params)
    out = [header,
           'From Coq Require Import ZArith List Bool.',
           'From PV Require Import Common.PySlice Extract.Model.',
           'Import ListNotations.', 'Open Scope Z_scope.', '',
           '(* what target(...) receives: the joined pieces, or the empty "missed" PipelineData (s0, metadata identity) *)',
           'Inductive ce_out := OTarget (d : list Z) | OMissed (s0 md : Z).', '',
           '(* the locals of the coroutine that live from one send to the next *)',
           f'Record ce_state := mk_ce_state {{ {fields} }}.', '',
           '(* the statements before `while True:` *)',
           f'Definition {PREFIX}_init {args} : ce_state :=', coq_tree(tr['init'], state, 2, False) + '.', '']
    for k, v in tr['defaults'].items():
        out += [f'Definition {PREFIX}_default_{k} : bool := {"true" if v else "false"}.']
    out += ['', '(* one `slb, data = (yield)` iteration: new state, what target received (if called), whether `break` was reached *)',
            f'Definition {PREFIX}_step (st_ : ce_state) (slb : Z) (data : list Z) : ce_state * option ce_out * bool :=',
            unpack + coq_tree(tr['step'], state, 2, True) + '.', '']
    return '\n'.join(out)


# ---- the independent evaluator of the tree, and the comparison with the real coroutine -------------------------------
def _py_slice(l, a, b):
    n = len(l)
    adj = lambda x: max(0, x + n) if x < 0 else min(x, n)        # Common/PySlice.v adj_bound
    lo, hi = adj(a), adj(b)
    return l[lo:lo + max(hi - lo, 0)]


def ev(e, env):
    k = e[0]
    if k == 'var':
        return env[e[1]]
    if k == 'int':
        return e[1]
    if k == 'nil':
        return []
    if k == 'bin':
        a, b = ev(e[2], env), ev(e[3], env)
        if type(a) is not int or type(b) is not int:
            raise Gap('evaluator: arithmetic on a non-integer')
        return a + b if e[1] == '+' else a - b if e[1] == '-' else a * b
    if k == 'min':
        return min(ev(e[1], env), ev(e[2], env))
    if k == 'max':
        return max(ev(e[1], env), ev(e[2], env))
    if k == 'len':
        return len(ev(e[1], env))
    if k == 'concat':
        return [x for p in ev(e[1], env) for x in p]
    if k == 'slice':
        return _py_slice(ev(e[1], env), ev(e[2], env), ev(e[3], env))
    if k == 'snoc':
        return ev(e[1], env) + [ev(e[2], env)]
    if k == 'cmp':
        a, b = ev(e[2], env), ev(e[3], env)
        return {'<?': a < b, '<=?': a <= b, '>?': a > b, '>=?': a >= b, '=?': a == b}[e[1]]
    if k == 'not':
        return not ev(e[1], env)
    if k == 'and':
        return ev(e[1], env) and ev(e[2], env)
    if k == 'or':
        return ev(e[1], env) or ev(e[2], env)
    raise Gap(f'evaluator: {k}')


def run_tree(t, env, state):
    env, out = dict(env), None
    while True:
        if t[0] == 'let':
            env[t[1]] = ev(t[2], env)
            t = t[3]
        elif t[0] == 'out':
            o = t[1]
            out = ['data', ev(o[1], env)] if o[0] == 'data' else ['missed', ev(o[1], env), ev(o[2], env)]
            t = t[2]
        elif t[0] == 'if':
            t = t[2] if ev(t[1], env) else t[3]
        else:
            return {v: env[v] for v in state}, (out if t[1] else None), t[2]


def real_run(repo_module, lo, n, auto, sends):
    """drives the REAL coroutine; after every send: (locals of the suspended frame | None, output | None, finished)"""
    import logging
    import numpy as np
    logging.getLogger('psiaudio.pipeline').setLevel(logging.ERROR)
    got, steps = [], []
    info = {'metadata': {'rid': 7}, 'x': 1}
    cap = repo_module.capture_epoch(lo, n, info, got.append, fs=1000.0, auto_send=auto)
    for slb, chunk in sends:
        k, done = len(got), False
        try:
            cap.send((slb, np.array(chunk, dtype=np.int64)))
        except StopIteration:
            done = True
        if len(got) - k > 1:
            raise Gap('self-test: two target calls in one send')
        o = None
        if len(got) > k:
            a = got[k]
            if isinstance(a, repo_module.PipelineData) and a.shape == (0,):
                o = ['missed', int(a.s0), 0 if a.metadata == info['metadata'] else -1]
            else:
                o = ['data', [int(v) for v in np.asarray(a)]]
        loc = None
        if not done:
            fl = cap.gi_frame.f_locals
            loc = {'epoch_s0': int(fl['epoch_s0']), 'epoch_samples': int(fl['epoch_samples']),
                   'current_s0': int(fl['current_s0']), 'auto_send': bool(fl['auto_send']),
                   'accumulated_data': [[int(v) for v in np.asarray(p)] for p in fl['accumulated_data']]}
        steps.append((loc, o, done))
        if done:
            break
    return steps


def _schedules(rng, count):
    fixed = [(4, 5, [(2, 3), (5, 0), (5, 1), (6, 4), (10, 2)]), (1, 2, [(5, 2), (7, 1)]), (3, 0, [(0, 2), (2, 4)]),
             (0, 6, [(0, 6)]), (2, 3, [(0, 1), (4, 5), (9, 2)]), (5, 4, [(0, 7), (4, 6)]), (6, 2, [(0, 3), (3, 3), (6, 3)])]
    for lo, n, sp in fixed:
        yield lo, n, [(s, list(range(100 + s, 100 + s + m))) for s, m in sp]
    for _ in range(count):
        s = rng.randint(0, 6)
        lo, n = s + rng.randint(-2, 9), rng.randint(0, 7)
        sends = []
        for _ in range(rng.randint(1, 6)):
            m = rng.randint(0, 5)
            sends.append((s, [rng.randint(0, 99) for _ in range(m)]))
            s += m + (rng.choice([0, 0, 0, 0, 1, -1, 2]) if rng.random() < 0.3 else 0)
        yield lo, n, sends


def selftest(tr, repo_module, rng, count=40):
    """the tree, evaluated independently, against the real coroutine: state, output and `finished` after every send"""
    n_steps, ex = 0, []
    state = tr['state']
    for lo, n, sends in _schedules(rng, count):
        for auto in (False, True):
            real = real_run(repo_module, lo, n, auto, sends)
            st, _, _ = run_tree(tr['init'], {'epoch_s0': lo, 'epoch_samples': n, 'info': 0, 'auto_send': auto}, state)
            for (slb, chunk), (loc, o, done) in zip(sends, real):
                st0 = st
                st, o2, done2 = run_tree(tr['step'], dict(st, slb=slb, data=chunk), state)
                n_steps += 1
                bad = (o2 != o) or (done2 != done) or (not done and any(st[k] != v for k, v in loc.items()))
                if bad:
                    raise Gap(f'self-test: capture_epoch({lo}, {n}, auto_send={auto}) at send ({slb}, {chunk}): the code '
                              f'gives state {loc}, output {o}, finished {done}; the translation {st}, {o2}, {done2}')
                ex.append((st0, slb, chunk, st if not done else None, o, done))
    return n_steps, ex


def examples(tr, ex, limit=30):
    """real runs as Coq Examples about the emitted text (the state after the last send of a run is not observable)"""
    def zl(l):
        return '[' + '; '.join(_z(x) for x in l) + ']'

    def stl(st):
        vals = {'Z': lambda v: _z(v), 'bool': lambda v: 'true' if v else 'false',
                'list (list Z)': lambda v: '[' + '; '.join(zl(p) for p in v) + ']'}
        return '(mk_ce_state ' + ' '.join(vals[VAR_TYPES[k]](st[k]) for k in tr['state']) + ')'
    out, seen, order = [], set(), []
    for x in ex:                                     # one of every kind first, then in order
        kind = (x[4][0] if x[4] else 'none', x[5], x[0]['auto_send'], len(x[0]['accumulated_data']) > 1)
        order.insert(len(seen), x) if kind not in seen else order.append(x)
        seen.add(kind)
    for st0, slb, chunk, st1, o, done in order[:limit]:
        ol = 'None' if o is None else (f'Some (OTarget {zl(o[1])})' if o[0] == 'data' else f'Some (OMissed {_z(o[1])} {_z(o[2])})')
        call = f'{PREFIX}_step {stl(st0)} {_z(slb)} {zl(chunk)}'
        if st1 is None:
            out.append(f'Example real_run_{len(out)} : let r := {call} in (snd (fst r), snd r) = ({ol}, true).\n'
                       'Proof. vm_compute. reflexivity. Qed.')
        else:
            out.append(f'Example real_run_{len(out)} : {call} = ({stl(st1)}, {ol}, false).\nProof. vm_compute. reflexivity. Qed.')
    return out


def translate(repo, rng=None):
    """-> (Coq text of coq/gen/CaptureGen.v, info dict).  Raises Gap (fail closed)."""
    import importlib
    import random
    path = os.path.join(repo, RELPATH)
    with open(path) as f:
        tr = translate_source(f.read())
    mod = importlib.import_module('psiaudio.pipeline')
    if os.path.realpath(mod.__file__) != os.path.realpath(path):
        raise Gap(f'self-test would run {mod.__file__}, not {path}')
    n_steps, ex = selftest(tr, mod, rng or random.Random(5))
    head = (f'(* GENERATED on every run by translate/pycapture2coq.py from {path}\n'
            f'   (coroutine {FUNC}, lines {tr["lines"][0]}-{tr["lines"][1]}) - do not edit.\n'
            + ''.join(f'   {n}\n' for n in tr['notes']) + '*)')
    text = coq_text(tr, head)
    text += ('\n(* runs of the real coroutine (NumPy int64 chunks), send by send: state of the suspended frame, what target\n'
             '   received, StopIteration - checked here against the text above *)\n' + '\n'.join(examples(tr, ex)) + '\n')
    return text, {'function': FUNC, 'lines': tr['lines'], 'state': tr['state'], 'notes': tr['notes'],
                  'selftest_steps': n_steps}


if __name__ == '__main__':
    import sys
    repo = sys.argv[1] if len(sys.argv) > 1 else '/repo'
    sys.path.insert(0, repo)
    text, info = translate(repo)
    if len(sys.argv) > 2:
        open(sys.argv[2], 'w').write(text)
    else:
        print(text)
    print(info, file=sys.stderr)
