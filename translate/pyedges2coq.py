"""Fail-closed `ast` translator for the edge detector of psiaudio/pipeline.py (property C13).

Reads the CURRENT source of the coroutine `edges` and of Events.get_range_samples / get_latest_samples and emits
coq/gen/EdgesGen.v, statement by statement, in the vocabulary of coq/Edges/TiePrims.v (+ Runs/NumpyPrims.v); the calls
util.epochs / util.debounce_epochs become the definitions of coq/gen/RunsGen.v (translate/pyruns2coq.py, property C18).
coq/Edges/ProofsTie.v proves the emitted definitions equal to the hand-written model coq/Edges/Model.v.

COROUTINE -> STEP FUNCTION.  `edges` has the shape   S0 ; x = RECV ; S1 ; while True: S ; x = RECV   and becomes
    gen_edges_setup : parameters -> option unit                       S0 (None = the constructor call raises)
    gen_edges_start : parameters -> first chunk -> state              S1 (runs once, when the first chunk arrives)
    gen_edges_step  : fuel -> parameters -> state -> chunk -> option (events * state)
                                                                      S  (one send; None = it raises; the block = what target got)
  assignment -> let          if c: raise -> if c then None else ..        partial call (concat, util.*, a[mask]) -> bind
  if isinstance(x, PipelineData) -> match c_ann x (x.s0 / x.fs are readable only where x is known to be annotated)
  other `if` -> let vars := if c then .. else vars       for a, b in l -> fold_left of a generated body definition
  l.append(e) -> py_append         target(e) -> the output of the step (exactly one on every path)       return e -> Some e
Everything that is not integer / list bookkeeping is in the tables: DROP (statements matched on their exact `ast.unparse`
text and left out), PATTERNS (expressions matched structurally, holes _1 _2 ..), PINNED_TEXT / PINNED_HASH (definitions the
primitives stand for: a change there breaks the tie as well).  Anything else raises TranslatorGap; comments, blank lines and
docstrings do not reach the ast and are harmless."""
import ast
import hashlib
import os

RELPATH = os.path.join('psiaudio', 'pipeline.py')


class TranslatorGap(Exception):
    pass


def gap(node, why):
    txt = ast.unparse(node) if isinstance(node, ast.AST) else str(node)
    raise TranslatorGap(f'{why}: `{txt[:120]}` (line {getattr(node, "lineno", "?")})')


# ---- tables ------------------------------------------------------------------------------------------------------------
COQ_TYPE = {'Z': 'Z', 'bool': 'bool', 'arr': 'arr', 'runs': 'list (Z * Z)', 'evl': 'list ev', 'ev': 'ev', 'events': 'events',
            'detect': 'detect', 'mask': 'list bool', 'arrZ': 'list Z'}
RESERVED = set('end match with fun let in if then else return fix forall exists as at Type Set Prop fuel bind where struct using '
               'for cofix nat Z bool list option Some None true false fst snd map length zlen arr ev events detect st_ it_ out_ '
               'tt unit fold_left'.split())
RECV = "new_samples = (yield).astype('bool')"          # one send: the chunk, cast to boolean (the model's chunks are boolean)
STRINGS = {'detect': {'rising': 'DRising', 'falling': 'DFalling', 'both': 'DBoth'}, 'kind': {'rising': 'Rising', 'falling': 'Falling'}}
SELF_FIELDS = {'start': ('e_start', 'Z'), 'end': ('e_end', 'Z'), 'fs': ('e_fs', 'Z'), 'events': ('evs', 'evl')}   # see Events.__init__
TARGETS = [
    {'name': 'get_range_samples', 'cls': 'Events', 'sig': 'self, start, end', 'params': [('self', 'events'), ('start', 'Z'), ('end', 'Z')]},
    {'name': 'get_latest_samples', 'cls': 'Events', 'sig': 'self, lb, ub=0', 'params': [('self', 'events'), ('lb', 'Z'), ('ub', 'Z')]},
    {'name': 'edges', 'cls': None, 'sig': "min_samples, target, initial_state=False, fs='auto', detect='both'", 'coroutine': True,
     'params': [('min_samples', 'Z'), ('initial_state', 'bool'), ('fs', 'Z'), ('detect', 'detect')], 'callback': 'target',
     'start_params': ['min_samples', 'initial_state', 'fs'], 'step_params': ['min_samples', 'detect'],
     'state': [('prior_samples', 'arr'), ('s0', 'Z'), ('fs', 'Z')], 'chunk': 'new_samples', 'locals': {'events': 'evl'},
     'drop': [
         # the channel label of the carried samples (not represented: chunks share channel and metadata)
         'channel = new_samples.channel', 'if isinstance(channel, list):\n    channel = channel[0]',
         # "no rate": the rate is an opaque label, 'auto' and None are the same label for plain input
         "if fs == 'auto':\n    fs = None",
         # (1, n) input is flattened, N-dimensional input refused: the model's chunks are 1-D
         "if new_samples.ndim == 1:\n    pass\nelif new_samples.ndim == 2 and new_samples.shape[0] == 1:\n"
         "    new_samples = new_samples[0]\nelse:\n    raise ValueError('Cannot handle N-dimensional data')"]},
]
# expression patterns (holes _1 _2 ..): argument types, Coq text, result type, partial (may raise: bind)
PATTERNS = [
    ('_1.shape[-1]', ('arr',), '(arr_len {0})', 'Z', False),
    ("np.tile(_1, _2).astype('bool')", ('bool', 'Z'), '(np_tile_bool {0} {1})', 'arr', False),
    ('concat((_1, _2), axis=-1)', ('arr', 'arr'), 'pd_concat {0} {1}', 'arr', True),
    ('util.epochs(_1)', ('arr',), 'gen_epochs (c_data {0})', 'runs', True),
    ('util.debounce_epochs(_1, _2)', ('runs', 'Z'), 'gen_debounce_epochs fuel {0} {1}', 'runs', True),
    ('_1[..., _2:]', ('arr', 'Z'), '(pd_from {1} {0})', 'arr', False),
    ('Events(_1, _2, _3, _4)', ('evl', 'Z', 'Z', 'Z'), '(mk_events {0} {1} {2} {3})', 'events', False),
    ("_1['sample']", ('evl',), '(df_sample {0})', 'arrZ', False),
    ('_1[_2]', ('evl', 'mask'), 'np_select {1} {0}', 'evl', True),
]
# x = PipelineData(y, s0=.., fs=.., <the rest exactly so>): x is then known to be annotated with these two values
PD_NEW = 'PipelineData(_1, s0=_2, fs=_3, channel=channel, metadata=new_samples.metadata)'
CMP = {ast.Eq: '=?', ast.Lt: '<?', ast.Gt: '>?', ast.GtE: '>=?', ast.LtE: '<=?'}
CMP_ARR = {ast.GtE: 'np_ge_s', ast.Lt: 'np_lt_s'}
BIN = {ast.Add: '+', ast.Sub: '-', ast.Mult: '*'}
# definitions the primitives / tables stand for, pinned on their docstring-free `ast.unparse` text (or its sha256)
PINNED_TEXT = {
    'coroutine': 'def coroutine(func):\n\n    def start(*args, **kwargs):\n        cr = func(*args, **kwargs)\n        next(cr)\n'
                 '        return cr\n    return start',
    'Events.__init__': "def __init__(self, events, start, end, fs):\n    self.events = pd.DataFrame(events, columns=['event', 'sample'])\n"
                       "    if fs is None:\n        self.events['ts'] = np.nan\n    else:\n        self.events['ts'] = self.events['sample'] / fs\n"
                       '    self.start = start\n    self.end = end\n    self.fs = fs',
}
PINNED_HASH = {    # pd_concat, pd_new, pd_from of coq/Edges/TiePrims.v model these
    'concat': '42a92b6c34f1', 'PipelineData.__new__': '2b4f9402d48d', 'PipelineData.__getitem__': 'a9271a26be92',
}
PRIMITIVES = ['arr_len', 'np_tile_bool', 'pd_new', 'pd_concat', 'pd_from', 'str_in', 'detect_eqb', 'mk_events', 'df_sample',
              'np_lt_s', 'np_ge_s', 'np_and', 'np_select', 'py_append', 'bind', 'gen_epochs', 'gen_debounce_epochs']


def mangle(name):
    return name + '_' if name in RESERVED or name.startswith(('gen_', 'np_', 'pd_', 'py_')) else name


def strip_doc(node):
    """the definition without docstrings (they are free)"""
    for n in ast.walk(node):
        if isinstance(n, (ast.FunctionDef, ast.ClassDef)) and n.body and isinstance(n.body[0], ast.Expr) and \
                isinstance(n.body[0].value, ast.Constant) and isinstance(n.body[0].value.value, str):
            n.body = n.body[1:] or [ast.Pass()]
    return node


def match(p, n, b):
    """structural match of the pattern p (holes: names _1, _2, ..) against the node n"""
    if isinstance(p, ast.Name) and p.id[0] == '_' and p.id[1:].isdigit():
        b[int(p.id[1:]) - 1] = n
        return True
    if type(p) is not type(n):
        return False
    for f in p._fields:
        pv, nv = getattr(p, f, None), getattr(n, f, None)
        if isinstance(pv, list):
            if not isinstance(nv, list) or len(pv) != len(nv) or not all(match(x, y, b) for x, y in zip(pv, nv)):
                return False
        elif isinstance(pv, ast.AST):
            if not isinstance(nv, ast.AST) or not match(pv, nv, b):
                return False
        elif pv != nv:
            return False
    return True


def pattern(src):
    return ast.parse(src, mode='eval').body


def assigned(stmts):
    """names bound by the statements: x = .., x op= .., x.append(..), for a, b in ..  (any other binding form is a gap)"""
    out = []
    for s in stmts:
        for n in ast.walk(s):
            ts = n.targets if isinstance(n, ast.Assign) else [n.target] if isinstance(n, ast.AugAssign) else \
                n.target.elts if isinstance(n, ast.For) and isinstance(n.target, ast.Tuple) else \
                [n.value.func.value] if isinstance(n, ast.Expr) and isinstance(n.value, ast.Call) and \
                isinstance(n.value.func, ast.Attribute) and n.value.func.attr == 'append' else []
            if isinstance(n, (ast.Assign, ast.AugAssign, ast.For, ast.With, ast.NamedExpr, ast.Delete, ast.Import, ast.ImportFrom)) and \
                    (not ts or not all(isinstance(t, ast.Name) for t in ts)):
                gap(n, 'binding form')
            out += [t.id for t in ts if t.id not in out]
    return out


class Fn:
    def __init__(self, spec, node, funcs):
        self.spec, self.node, self.funcs = spec, node, funcs
        self.name, self.defs, self.ntmp, self.nfor, self.partial, self.fuel = spec['name'], [], 0, 0, False, False
        self.dropped = []

    # ---- expressions -> (Coq text, type); partial operations are appended to pend and bound before use
    def hole(self, pend, opt):
        self.ntmp += 1
        self.partial = True
        pend.append((f"t'{self.ntmp}", opt))
        return f"t'{self.ntmp}"

    @staticmethod
    def wrap(pend, text):
        if pend and text == f'Some {pend[-1][0]}':                     # bind o (fun t => Some t) = o
            text, pend = pend[-1][1], pend[:-1]
        for t, opt in reversed(pend):
            text = f'bind ({opt}) (fun {t} =>\n{text})'
        return text

    def expr(self, n, env, pend):
        if isinstance(n, ast.Name):
            if n.id not in env:
                gap(n, 'name read before it is assigned on this path / unknown name')
            return mangle(n.id), env[n.id]
        if isinstance(n, ast.Constant) and type(n.value) is int:
            return f'{n.value}', 'Z'
        if isinstance(n, ast.UnaryOp) and isinstance(n.op, ast.USub):
            a, ta = self.expr(n.operand, env, pend)
            if ta != 'Z':
                gap(n, f'negation of {ta}')
            return f'(- {a})', 'Z'
        if isinstance(n, ast.Tuple) and len(n.elts) == 2 and isinstance(n.elts[0], ast.Constant) and n.elts[0].value in STRINGS['kind']:
            a, ta = self.expr(n.elts[1], env, pend)
            if ta != 'Z':
                gap(n, f'event at a {ta}')
            return f'({STRINGS["kind"][n.elts[0].value]}, {a})', 'ev'
        if isinstance(n, ast.Attribute) and isinstance(n.value, ast.Name) and isinstance(n.ctx, ast.Load):
            x = n.value.id
            if x == 'self' and env.get('self') == 'events' and n.attr in SELF_FIELDS:
                return f'({SELF_FIELDS[n.attr][0]} self)', SELF_FIELDS[n.attr][1]
            if n.attr in ('s0', 'fs') and env.get(x) == 'arr' and x in env['#pd']:
                return env['#pd'][x][n.attr == 'fs'], 'Z'
            gap(n, 'attribute (of an array not known to be a PipelineData here)')
        if isinstance(n, ast.BinOp):
            (a, ta), (b, tb) = self.expr(n.left, env, pend), self.expr(n.right, env, pend)
            if (ta, tb) == ('Z', 'Z') and type(n.op) in BIN:
                return f'({a} {BIN[type(n.op)]} {b})', 'Z'
            if (ta, tb) == ('mask', 'mask') and isinstance(n.op, ast.BitAnd):
                return f'(np_and {a} {b})', 'mask'
            gap(n, f'binary operator on {ta}, {tb}')
        if isinstance(n, ast.Compare) and len(n.ops) == 1:
            a, ta = self.expr(n.left, env, pend)
            c = n.comparators[0]
            if isinstance(n.ops[0], ast.In) and ta in STRINGS and isinstance(c, ast.Tuple) and c.elts and \
                    all(isinstance(e, ast.Constant) and e.value in STRINGS[ta] for e in c.elts):
                return f'(str_in {a} [{"; ".join(STRINGS[ta][e.value] for e in c.elts)}])', 'bool'
            b, tb = self.expr(c, env, pend)
            if (ta, tb) == ('Z', 'Z') and type(n.ops[0]) in CMP:
                return f'({a} {CMP[type(n.ops[0])]} {b})', 'bool'
            if (ta, tb) == ('arrZ', 'Z') and type(n.ops[0]) in CMP_ARR:
                return f'({CMP_ARR[type(n.ops[0])]} {a} {b})', 'mask'
            gap(n, f'comparison on {ta}, {tb}')
        if isinstance(n, ast.BoolOp):
            parts = []
            for v in n.values:
                sub = []
                parts.append(self.expr(v, env, sub if parts else pend))
                if sub:
                    gap(v, 'an operation that may raise inside a short-circuit operand')
            if any(t != 'bool' for _, t in parts):
                gap(n, 'boolean operator on non-booleans')
            return '(' + (' && ' if isinstance(n.op, ast.And) else ' || ').join(a for a, _ in parts) + ')', 'bool'
        if isinstance(n, ast.Call) and isinstance(n.func, ast.Attribute) and ast.unparse(n.func.value) == 'self' and \
                n.func.attr in self.funcs and env.get('self') == 'events' and not n.keywords:
            g = self.funcs[n.func.attr]
            args = [self.expr(a, env, pend) for a in n.args]
            if [t for _, t in args] != g['argtypes'][1:]:
                gap(n, f'arguments of {n.func.attr}')
            return self.hole(pend, ' '.join([g['coq'], 'self'] + [a for a, _ in args])), g['ret']
        for src, argt, coq, ret, part in PATTERNS:
            b = {}
            if match(pattern(src), n, b):
                args = [self.expr(b[i], env, pend) for i in range(len(argt))]
                if tuple(t for _, t in args) != argt:
                    continue
                self.fuel |= ' fuel ' in coq
                text = coq.format(*[a for a, _ in args])
                return (self.hole(pend, text) if part else text), ret
        gap(n, 'expression not in the vocabulary')

    # ---- statements; k(env) gives the text of what follows
    def block(self, stmts, env, k):
        if not stmts:
            return k(env)
        s, rest = stmts[0], stmts[1:]
        nxt = lambda env2: self.block(rest, env2, k)
        pend, text = [], ast.unparse(s)
        if text in self.spec.get('drop', []):
            self.dropped.append(text)
            return nxt(env)
        if text == RECV or isinstance(s, ast.Pass):
            gap(s, 'statement out of place')
        if isinstance(s, ast.Return) and not rest and s.value is not None and not self.spec.get('coroutine'):
            e, t = self.expr(s.value, env, pend)
            self.ret = self.ret | {t}
            return self.wrap(pend, f'Some {e}')
        if isinstance(s, ast.Assign) and len(s.targets) == 1 and isinstance(s.targets[0], ast.Name):
            x, b = s.targets[0].id, {}
            pd = {v: a for v, a in env['#pd'].items() if v != x}
            if isinstance(s.value, ast.List) and not s.value.elts and x in self.spec.get('locals', {}):
                e, t, pre = '[]', self.spec['locals'][x], ''
            elif match(pattern(PD_NEW), s.value, b):
                (y, ty), (e1, t1), (e2, t2) = (self.expr(b[i], env, pend) for i in range(3))
                if (ty, t1, t2) != ('arr', 'Z', 'Z'):
                    gap(s, 'PipelineData(..) of these types')
                pd[x] = (f"{mangle(x)}'s0", f"{mangle(x)}'fs")
                pre = f'let {pd[x][0]} := {e1} in\nlet {pd[x][1]} := {e2} in\n'
                e, t = f'pd_new {y} {pd[x][0]} {pd[x][1]}', 'arr'
            else:
                (e, t), pre = self.expr(s.value, env, pend), ''
            return self.wrap(pend, pre + f'let {mangle(x)} := {e} in\n' + nxt({**env, x: t, '#pd': pd}))
        if isinstance(s, ast.AugAssign) and isinstance(s.target, ast.Name) and type(s.op) in BIN:
            (d, td), x = self.expr(s.value, env, pend), s.target.id
            if env.get(x) != 'Z' or td != 'Z':
                gap(s, 'augmented assignment on non-integers')
            return self.wrap(pend, f'let {mangle(x)} := ({mangle(x)} {BIN[type(s.op)]} {d}) in\n' + nxt(env))
        if isinstance(s, ast.Expr) and isinstance(s.value, ast.Call) and not s.value.keywords and len(s.value.args) == 1:
            c, (e, t) = s.value, self.expr(s.value.args[0], env, pend)
            if isinstance(c.func, ast.Attribute) and c.func.attr == 'append' and isinstance(c.func.value, ast.Name) and \
                    (env.get(c.func.value.id), t) == ('evl', 'ev') and c.func.value.id in self.spec.get('locals', {}):
                x = mangle(c.func.value.id)
                return self.wrap(pend, f'let {x} := py_append {x} {e} in\n' + nxt(env))
            if isinstance(c.func, ast.Name) and c.func.id == self.spec.get('callback') and c.func.id not in env and \
                    t == 'events' and 'out_' not in env and env.get('#mode') == 'step':
                return self.wrap(pend, f'let out_ := {e} in\n' + nxt({**env, 'out_': 'events'}))
            gap(s, 'call statement')
        if isinstance(s, ast.If):
            b = {}
            if match(pattern('isinstance(_1, PipelineData)'), s.test, b) and isinstance(b[0], ast.Name) and env.get(b[0].id) == 'arr':
                x = b[0].id                                  # the rest of the block is translated under both branches
                names = (f"{mangle(x)}'s0", f"{mangle(x)}'fs")
                yes = self.block(s.body + rest, {**env, '#pd': {**env['#pd'], x: names}}, k)
                no = self.block(s.orelse + rest, env, k)
                return f'match c_ann {mangle(x)} with\n| Some ({names[0]}, {names[1]}) =>\n{yes}\n| None =>\n{no}\nend'
            c, tc = self.expr(s.test, env, pend)
            if tc != 'bool':
                gap(s.test, f'condition of type {tc}')
            if len(s.body) == 1 and isinstance(s.body[0], ast.Raise) and not s.orelse:
                self.partial = True
                return self.wrap(pend, f'if {c}\n then None\n else {nxt(env)}')
            vs = assigned([s])
            if not vs or any(v not in env for v in vs) or env.get('#mode') == 'join':
                gap(s, 'an `if` that is joined must assign variables that exist before it (and is not nested)')
            tail = lambda env2: self.joined(s, env, env2, vs)
            a, o = (self.block(blk, {**env, '#mode': 'join'}, tail) for blk in (s.body, s.orelse))
            return self.wrap(pend, f'let {self.tup(vs, True)} := if {c}\n then {a}\n else {o} in\n' + nxt(env))
        if isinstance(s, ast.For) and not s.orelse and isinstance(s.target, ast.Tuple) and len(s.target.elts) == 2 and \
                all(isinstance(e, ast.Name) for e in s.target.elts):
            return self.for_(s, env, nxt, pend)
        gap(s, 'statement not in the vocabulary')

    def joined(self, s, env, env2, vs):
        if any(env2[v] != env[v] for v in vs) or env2['#pd'] != env['#pd'] or 'out_' in env2 and 'out_' not in env:
            gap(s, 'a branch changes a type / an annotation fact / calls the target')
        return self.tup(vs)

    @staticmethod
    def tup(vs, pat=False):
        return mangle(vs[0]) if len(vs) == 1 else ("'(" if pat else '(') + ', '.join(mangle(v) for v in vs) + ')'

    def for_(self, s, env, nxt, pend):
        it, ti = self.expr(s.iter, env, pend)
        a, b = (e.id for e in s.target.elts)
        state = [v for v in assigned(s.body) if v in env]
        if ti != 'runs' or len(state) != 1 or a == b or {a, b} & (set(env) | set(assigned(s.body))):
            gap(s, 'for loop: over (n, 2) integer rows, with fresh row names and exactly one accumulated variable')
        reads = sorted({(n.lineno, n.col_offset, n.id) for st in s.body for n in ast.walk(st) if isinstance(n, ast.Name) and
                        isinstance(n.ctx, ast.Load) and n.id in env and n.id not in state})
        free = list(dict.fromkeys(v for _, _, v in reads))
        self.nfor += 1
        name, was = f'gen_{self.name}_for{self.nfor}', self.partial
        self.partial = False
        body = self.block(s.body, {**env, a: 'Z', b: 'Z', '#mode': 'loop'}, lambda env2: self.joined(s, env, env2, state))
        if self.partial:
            gap(s, 'a loop body that may raise')
        self.partial = was
        binders = ' '.join(f'({mangle(v)} : {COQ_TYPE[env[v]]})' for v in free + state)
        self.defs.append(f'(* the body of `for {a}, {b} in {ast.unparse(s.iter)}:` (line {s.lineno}) *)\n'
                         f'Definition {name} {binders} (it_ : Z * Z) : {COQ_TYPE[env[state[0]]]} :=\n'
                         f"let '({mangle(a)}, {mangle(b)}) := it_ in\n{body}.\n")
        call = ' '.join([name] + [mangle(v) for v in free])
        return self.wrap(pend, f'let {mangle(state[0])} := fold_left ({call}) {it} {mangle(state[0])} in\n' + nxt(env))

    # ---- whole definitions
    def check_signature(self):
        if ast.unparse(self.node.args) != self.spec['sig'] or \
                [ast.unparse(d) for d in self.node.decorator_list] != (['coroutine'] if self.spec.get('coroutine') else []):
            gap(self.node, f'signature / decorators are not `{self.spec["sig"]}`')

    def finish(self, text, what):
        if sorted(self.dropped) != sorted(self.spec.get('drop', [])):
            gap(self.node, f'pinned statements not found exactly once: {sorted(set(self.spec.get("drop", [])) - set(self.dropped))}')
        return '\n'.join(self.defs) + text, what

    def method(self):
        self.check_signature()
        self.ret = set()
        env = {**dict(self.spec['params']), '#pd': {}, '#mode': 'method'}
        text = self.block(strip_doc(self.node).body, env, lambda e: gap(self.node, 'a path falls off the end'))
        if len(self.ret) != 1 or self.fuel:
            gap(self.node, f'return types {self.ret}')
        ret = self.ret.pop()
        binders = ' '.join(f'({mangle(p)} : {COQ_TYPE[t]})' for p, t in self.spec['params'])
        out = f'Definition gen_{self.name} {binders} : option ({COQ_TYPE[ret]}) :=\n{text}.\n'
        for a, d in zip(self.node.args.args[::-1], self.node.args.defaults[::-1]):
            if not (isinstance(d, ast.Constant) and type(d.value) is int):
                gap(d, 'default value')
            out += f'Definition gen_{self.name}_default_{a.arg} : Z := {d.value}.\n'
        return self.finish(out, {'coq': f'gen_{self.name}', 'argtypes': [t for _, t in self.spec['params']], 'ret': ret})

    def coroutine(self):
        self.check_signature()
        sp, f = self.spec, strip_doc(self.node)
        body = f.body
        if not isinstance(body[-1], ast.While) or ast.unparse(body[-1].test) != 'True' or body[-1].orelse:
            gap(f, 'the coroutine does not end with `while True:`')
        pre, loop = body[:-1], body[-1].body
        at = [i for i, s in enumerate(pre) if ast.unparse(s) == RECV]
        ny = sum(isinstance(n, (ast.Yield, ast.YieldFrom, ast.Await)) for n in ast.walk(f))
        if len(at) != 1 or ast.unparse(loop[-1]) != RECV or ny != 2:
            gap(f, f'the coroutine is not  S0; {RECV}; S1; while True: S; {RECV}')
        for n in ast.walk(f):
            if isinstance(n, (ast.Return, ast.Break, ast.Continue, ast.Try, ast.With, ast.Lambda, ast.Global, ast.Nonlocal, ast.While,
                              ast.FunctionDef, ast.ListComp, ast.GeneratorExp, ast.NamedExpr)) and n not in (f, body[-1]):
                gap(n, 'control flow not covered inside the coroutine')
        params, state, chunk = dict(sp['params']), sp['state'], sp['chunk']
        kept = lambda stmts: [s for s in stmts if ast.unparse(s) not in sp['drop']]          # (top-level) pinned statements aside
        written = assigned(kept(loop[:-1]))
        first = assigned(kept(pre[at[0] + 1:]))
        if assigned(pre[:at[0]]) or [v for v in written + first if v in params and v not in dict(state)] or chunk in written + first:
            gap(f, 'a binding before the first receive, or a parameter that is not part of the state (or the received chunk) is rebound')
        sig = lambda names: ' '.join(f'({mangle(p)} : {COQ_TYPE[params[p]]})' for p in names)
        styp = ' * '.join(COQ_TYPE[t] for _, t in state)
        stup = '(' + ', '.join(mangle(v) for v, _ in state) + ')'

        def end(env, text):
            if any(env.get(v) != t for v, t in state):
                gap(f, f'the state variables {state} are not all bound (with these types) at the end of a path')
            return text
        base = {**params, '#pd': {}}
        setup = self.block(pre[:at[0]], {**base, '#mode': 'setup'}, lambda env: 'Some tt')
        self.partial = False
        start = self.block(pre[at[0] + 1:], {**base, chunk: 'arr', '#mode': 'start'}, lambda env: end(env, stup))
        if self.partial or self.fuel:
            gap(f, 'the statements between the first receive and the loop may raise (not covered)')
        env = {p: t for p, t in params.items() if p in sp['step_params']}
        step = self.block(loop[:-1], {**env, **dict(state), chunk: 'arr', '#pd': {}, '#mode': 'step'},
                          lambda env2: end(env2, f'Some (out_, {stup})') if 'out_' in env2 else gap(f, 'a path without a target(..) call'))
        n = self.name
        out = (f'(* the locals that live from one send to the next: {", ".join(v for v, _ in state)} *)\n'
               f'Definition gen_{n}_state : Type := ({styp})%type.\n\n'
               f'(* the statements before the first receive (None = calling {n}(..) raises) *)\n'
               f'Definition gen_{n}_setup {sig(sp["params"][0][0:1])} : option unit :=\n{setup}.\n\n'
               f'(* the statements between the first receive and `while True:` (they run when the first chunk arrives) *)\n'
               f'Definition gen_{n}_start {sig(sp["start_params"])} ({mangle(chunk)} : arr) : gen_{n}_state :=\n{start}.\n\n'
               f'(* one pass of the loop: from a received chunk to the next receive; the block is what target(..) was given *)\n'
               f'Definition gen_{n}_step (fuel : nat) {sig(sp["step_params"])} (st_ : gen_{n}_state) ({mangle(chunk)} : arr)'
               f' : option (events * gen_{n}_state) :=\nlet \'{stup} := st_ in\n{step}.\n')
        return self.finish(out, {'coq': f'gen_{n}_step', 'state': [v for v, _ in state]})


HEADER = '''From PV Require Import Common.ListX Common.PySlice Runs.Model Runs.NumpyPrims Edges.Model Edges.TiePrims gen.RunsGen.
Open Scope Z_scope.
'''


def _lookup(tree, dotted):
    body = tree.body
    for part in dotted.split('.'):
        hits = [n for n in body if isinstance(n, (ast.FunctionDef, ast.ClassDef, ast.AsyncFunctionDef)) and n.name == part]
        if len(hits) != 1 or isinstance(hits[0], ast.AsyncFunctionDef):
            raise TranslatorGap(f'{dotted}: {len(hits)} definitions of `{part}`')
        body = hits[0].body
    return hits[0]


def digest(node):
    return hashlib.sha256(ast.unparse(strip_doc(node)).encode()).hexdigest()[:12]


def translate(repo):
    """-> (text of coq/gen/EdgesGen.v, info).  Raises TranslatorGap on anything outside the tables."""
    path = os.path.join(repo, RELPATH)
    src = open(path).read()
    names = {t['name'] for t in TARGETS if not t['cls']} | {t['cls'] for t in TARGETS if t['cls']} | {'coroutine', 'concat', 'PipelineData'}
    for n in ast.parse(src).body:          # a second module-level binding of one of these names would make the text stale
        if not isinstance(n, (ast.FunctionDef, ast.ClassDef)):
            for t in ast.walk(n):
                nm = t.id if isinstance(t, ast.Name) and not isinstance(t.ctx, ast.Load) else \
                    (t.asname or t.name).split('.')[0] if isinstance(t, ast.alias) else None
                if nm in names:
                    raise TranslatorGap(f'{nm} is also bound at module level (line {n.lineno})')
    for dotted, want in PINNED_TEXT.items():
        if ast.unparse(strip_doc(_lookup(ast.parse(src), dotted))) != want:
            raise TranslatorGap(f'{dotted} is not the pinned text any more')
    for dotted, want in PINNED_HASH.items():
        if digest(_lookup(ast.parse(src), dotted)) != want:
            raise TranslatorGap(f'{dotted} has changed (sha256 of its docstring-free text is {digest(_lookup(ast.parse(src), dotted))}, '
                                f'pinned {want}): the primitive of coq/Edges/TiePrims.v that stands for it must be re-validated')
    funcs, parts, info = {}, [], {'source': path, 'functions': {}, 'pinned': sorted(PINNED_TEXT) + sorted(PINNED_HASH)}
    for spec in TARGETS:
        dotted = (spec['cls'] + '.' if spec['cls'] else '') + spec['name']
        node = _lookup(ast.parse(src), dotted)
        fn = Fn(spec, node, funcs)
        text, sig = fn.coroutine() if spec.get('coroutine') else fn.method()
        funcs[spec['name']] = sig
        parts.append(f'(* pipeline.{dotted}, line {node.lineno} *)\n' + text)
        info['functions'][dotted] = {'coq': sig['coq'], 'dropped': [d.split('\n')[0] for d in fn.dropped], 'line': node.lineno}
    return HEADER + '\n' + '\n'.join(parts), info


# ---- self-test: the emitted definitions, evaluated by coqc (vm_compute), against the real coroutine / methods -----------------
def _z(v):
    return str(int(v)) if v >= 0 else f'({int(v)})'


def _bits(x):
    return '[' + '; '.join('true' if b else 'false' for b in x) + ']'


def _arr(a, P):
    ann = f'(Some ({_z(a.s0)}, {_z(a.fs)}))' if isinstance(a, P.PipelineData) else 'None'
    return f'(mk_arr {_bits(a.reshape(-1).tolist())} {ann})'


def _block(E):
    code = {'rising': 1, 'falling': 0}
    rows = '; '.join(f'({code[k]}, {_z(s)})' for k, s in zip(E.events['event'], E.events['sample']))
    return f'([{rows}], ({_z(E.start)}, ({_z(E.end)}, {_z(-1 if E.fs is None else E.fs)})))'


def selftest_terms(P, rng):
    """Coq boolean terms: a generated definition applied to what the real code was given == what the real code did
    (blocks handed to the target; prior_samples, s0, fs of the suspended generator frame after every send)."""
    import numpy as np
    terms = []
    DET = {'rising': 'DRising', 'falling': 'DFalling', 'both': 'DBoth', 'none': 'DOther'}
    for m in (1, 0, -2):
        try:
            P.edges(m, print)
            ok = 'true'
        except ValueError:
            ok = 'false'
        terms.append(f'Bool.eqb (match gen_edges_setup {_z(m)} with Some _ => true | None => false end) {ok}')
    for trial in range(60):
        m, init, det = rng.randint(1, 4), rng.random() < 0.5, rng.choice(['both', 'both', 'rising', 'falling', 'none'])
        form = rng.choice(['plain', 'plain2d', 'pd', 'pd1d', 'auto'])
        first, fs = rng.choice([0, 7, -5]), rng.choice([1000, 25])
        glitch = rng.choice([None, None, None, 's0', 'fs', 'mixed']) if trial % 3 == 0 else None
        got = []
        co = P.edges(m, got.append, initial_state=init, detect=det, **({} if form == 'auto' else {'fs': float(fs)}))
        fs_arg = -1 if form == 'auto' else fs
        pos, state, level = first, None, init
        for j in range(rng.randint(1, 6)):
            bits = []
            for _ in range(rng.choice([0, 1, 2, 3, 5, 8])):
                level = (not level) if rng.random() < 0.35 else level
                bits.append(level)
            x = np.array(bits, dtype=rng.choice([bool, int, float]))
            x = x[np.newaxis, :] if form in ('plain2d', 'pd') else x
            bad = glitch if j == 2 else None
            if form.startswith('pd') != (bad == 'mixed'):
                kw = {'channel': ['c']} if x.ndim == 2 else {}
                x = P.PipelineData(x, fs=float(fs + (bad == 'fs')), s0=pos + (bad == 's0'), metadata={}, **kw)
            chunk, n0 = _arr(x.astype(bool), P), len(got)
            st = f'(gen_edges_start {_z(m)} {str(bool(init)).lower()} {_z(fs_arg)} {chunk})' if state is None else state
            call = f'gen_edges_step {m + len(bits) + 1}%nat {_z(m)} {DET[det]} {st} {chunk}'
            try:
                co.send(x)
            except ValueError:
                terms.append(f'match {call} with None => true | Some _ => false end')
                break
            loc = co.gi_frame.f_locals
            if len(got) != n0 + 1:
                raise TranslatorGap('self-test: not exactly one block per send')
            p, s, f = _arr(loc['prior_samples'], P), _z(loc['s0']), _z(-1 if loc['fs'] is None else loc['fs'])
            terms.append(f"match {call} with Some (E, (p, s, f)) => eqb_block (enc_block E) {_block(got[-1])} && eqb_arr p {p} && "
                         f'(s =? {s}) && (f =? {f}) | None => false end')
            state, pos = f'({p}, {s}, {f})', pos + len(bits)
    for _ in range(60):
        start, n = rng.randint(-8, 20), rng.randint(0, 9)
        rows = [(rng.choice(['rising', 'falling']), rng.randint(start - 2, start + n + 2)) for _ in range(rng.randint(0, 6))]
        E = P.Events(rows, start, start + n, 1000.0)
        lit = f'(dec_block {_block(E)})'
        a, b = rng.randint(start - 2, start + n + 1), rng.randint(start - 2, start + n + 2)
        for call, real in ((f'gen_get_range_samples {lit} {_z(a)} {_z(b)}', lambda: E.get_range_samples(a, b)),
                           (f'gen_get_latest_samples {lit} {_z(a - E.end)} {_z(b - E.end)}', lambda: E.get_latest_samples(a - E.end, b - E.end)),
                           (f'gen_get_latest_samples {lit} {_z(a - E.end)} gen_get_latest_samples_default_ub', lambda: E.get_latest_samples(a - E.end))):
            try:
                want = f'(Some {_block(real())})'
            except ValueError:
                want = 'None'
            terms.append(f'eqb_option eqb_block (option_map enc_block ({call})) {want}')
    return terms


if __name__ == '__main__':
    import sys
    text, info = translate(sys.argv[1] if len(sys.argv) > 1 else '/repo')
    print(text)
    print(info, file=sys.stderr)
