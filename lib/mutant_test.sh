#!/bin/bash
# usage: lib/mutant_test.sh <patch.diff> <prop> [<prop> ...]   (env TIER=quick|thorough)
# Applies the patch to a scratch worktree of /repo, runs the checks against it, removes the worktree.
set -u
PATCH=$(readlink -f "$1"); shift
WT=/tmp/mt-$$-$RANDOM
git -C /repo worktree add -q --detach "$WT" HEAD || exit 3
trap 'git -C /repo worktree remove --force "$WT" >/dev/null 2>&1; rm -rf "$WT"; /verif/lib/retranslate.py >/dev/null 2>&1' EXIT
if ! git -C "$WT" apply "$PATCH"; then echo "PATCH DOES NOT APPLY"; exit 3; fi
cd /verif
for P in "$@"; do
  echo "== $P on mutant $(basename $(dirname $PATCH))/$(basename $PATCH)"
  PSIAUDIO_REPO="$WT" VERIF_DEV_SKIP_PROPS=${VERIF_DEV_SKIP_PROPS:-} timeout 3000 ./check "$P" "${TIER:-quick}" 2>&1 | grep -E "VIOLATION|KNOWN|MACHINERY|quick:|thorough:" | cut -c1-300 | head -8
  echo "   exit=${PIPESTATUS[0]}"
done
