#!/bin/bash
# Applies every seeded change (seeded/<id>/patch.diff) to a scratch worktree of /repo and expects the check of
# its property to report a VIOLATION; then expects silence from every check on an untouched worktree.
# usage: lib/selftest_seeded.sh [<id> ...]      (default: all)          takes ~1 min per seeded change
cd /verif
IDS=${@:-$(ls seeded)}
FAIL=0
for ID in $IDS; do
  P=$(python3 -c "import json;print(json.load(open('seeded/$ID/meta.json'))['property'])")
  if python3 -c "import json,sys;sys.exit(0 if json.load(open('seeded/$ID/meta.json')).get('obsolete') else 1)"; then echo "skipped $ID ($P): obsolete (equivalent after a later repair)"; continue; fi
  OUT=$(lib/mutant_test.sh seeded/$ID/patch.diff $P 2>&1)
  if echo "$OUT" | grep -q "VIOLATION property=$P"; then echo "caught  $ID ($P)"; else echo "MISSED  $ID ($P)"; echo "$OUT" | tail -3; FAIL=1; fi
done
exit $FAIL
