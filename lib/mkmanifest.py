#!/venv/bin/python
"""Regenerates MANIFEST.json from lib/manifest_src.py (kept in one place so it stays valid)."""
import json, os, sys
sys.path.insert(0, os.path.dirname(os.path.abspath(__file__)))
from manifest_src import CHECKS, NOT_APPLICABLE, NOTES
props = [json.loads(l)['id'] for l in open(os.path.join(os.path.dirname(__file__), '..', 'properties.jsonl'))]
checks = []
for pid in props:
    if pid not in CHECKS:
        continue
    c = CHECKS[pid]
    checks.append({
        'property_id': pid,
        'quick_cmd': f'./check {pid} quick',
        'thorough_cmd': f'./check {pid} thorough',
        'evidence_file': f'/verif/evidence/{pid}.json',
        'replay_cmd_template': f'./check {pid} --replay {{path}}',
        'engine': 'coq',
        'level_claimed': {'category': 'proof', 'text': c['text'], 'design_ref': c['ref']},
        'level_note': c['note'],
        'technique': c['technique'],
    })
na = [{'property_id': p, 'reason': NOT_APPLICABLE[p]} for p in props if p not in CHECKS]
m = {
    'version': 1,
    'setup_cmd': '/verif/lib/setup.sh',
    'hooks': {'guard': 'PSIAUDIO_VERIF', 'enable': 'none needed: no check requires instrumentation inside psiaudio',
              'baseline_off_cmd': '/verif/lib/run_baseline.sh /repo', 'source_commits': [], 'add_only': True},
    'engines': [{'name': 'coq', 'path': '/verif/coq', 'serves_properties': [c['property_id'] for c in checks],
                 'kind_free_text': 'Coq 8.16.1 development (models, specs, proofs, Props/Cxx.v) + Python harness '
                                   'that ties each model to /repo by a generated-cases correspondence evaluated with '
                                   'vm_compute inside coqc, or by a fail-closed AST translator'}],
    'checks': checks,
    'notes': NOTES,
    'not_applicable': na,
}
json.dump(m, open(os.path.join(os.path.dirname(__file__), '..', 'MANIFEST.json'), 'w'), indent=1)
print('checks:', [c['property_id'] for c in checks], 'not claimed:', [n['property_id'] for n in na])
