NOTES = ('Every check: (1) hygiene grep (no Admitted/Axiom/...), (2) full incremental `make` of coq/, '
         '(3) coqc of coq/Props/<id>.v counting Theorem statements vs Print Assumptions answers, '
         '(4) correspondence: the implementation under $PSIAUDIO_REPO (default /repo) and the Coq model are run on the '
         'same generated cases, the comparison being evaluated by vm_compute inside coqc, (5) the property stated as an '
         'oracle on the implementation over the same cases, (6) evidence. See DESIGN.md.')

COMMON_NOTE = ('Trusted: Coq kernel + vm_compute; the hand-written model is tied to the code only by the '
               'correspondence check (differential test on generated cases, exhaustive in small windows); NumPy '
               'primitives are modelled, not verified; harness generators/canonicalisation.')

CHECKS = {
 'C18': dict(
   text='Theorems for ALL boolean lists / interval lists (no length bound): the modelled epochs() returns exactly the '
        'maximal runs; smooth_epochs returns the sorted non-touching cover of the same union; debounce_epochs equals '
        'drop-short-then-join. Model tied to util.py by exhaustive small-length + random correspondence.',
   ref='DESIGN.md section 6 C18', note=COMMON_NOTE + ' epochs modelled for pad=0; non-empty intervals assumed for smooth/debounce.',
   technique='Coq proof (induction over lists) + vm_compute correspondence against util.py'),
 'C14': dict(
   text='Refinement theorem for ALL finite histories of append/invalidate/resize/read on any capacity: every output of the '
        'ring-buffer model equals the output of an abstract spec (logical stream + oldest retained index); bounds invariant '
        'lb <= ub = stream length, window = min(capacity, available). Model tied to buffer.py by exhaustive short histories around '
        'every boundary + random long histories, 1-2 channels, three rates.',
   ref='DESIGN.md section 6 C14', note=COMMON_NOTE + ' Times are passed as k/fs; appends >= 1 sample, invalidation index >= 0, resize >= 1 sample, reads lower <= upper.',
   technique='Coq proof (simulation/refinement to abstract spec, induction over histories) + vm_compute correspondence against buffer.py'),
 'C01': dict(
   text='Theorem: for EVERY generator expression (carriers, square wave, fixed, gate, envelope, SAM envelope, square-wave envelope with '
        'rational period, stateful filter, repeat, and all compositions), every list of chunk sizes, drawing from a freshly reset '
        'generator yields exactly the whole-stream denotation on [0, sum); fragment theorems for envelope / _sam_envelope / '
        'SquareWaveFactory / square_wave at every (offset, samples) incl. past the end. Model tied to stim.py by a correspondence that evaluates the '
        'model\'s symbolic recipes with one-shot elementary functions and compares bit-exactly, exhaustively in +-2 windows around every boundary.',
   ref='DESIGN.md section 6 C01', note=COMMON_NOTE + ' cos/RNG/lfilter/window primitives are oracles (their own chunk invariance is tested, not proved); '
        'float arithmetic of the square-wave period is modelled as exact rational arithmetic; WavSequenceFactory not modelled.',
   technique='Coq proof (structural induction over generator expressions + fragment arithmetic lemmas) + vm_compute model outputs compared against stim.py'),
 'C09': dict(
   text='Theorems for all parameters and ALL draw histories (incl. past the end): totals = start+duration (array length), remaining = '
        'max(total - drawn, 0), complete iff drawn >= total, every sample outside [start, start+duration) is exactly zero (gate, envelope, fixed, repeat), '
        'envelope = zeros / first window half over exactly rise samples / ones / second half, too-long rise rejected; cos^2 ramp in [0,1] over R. '
        'Same model and correspondence as C01 plus the bookkeeping observables.',
   ref='DESIGN.md section 6 C09', note=COMMON_NOTE + ' The [0,1] range is proved for the cosine-squared window over R (real-number axioms of the Coq standard library); for scipy windows it is checked numerically.',
   technique='Coq proof (induction over draw histories) + vm_compute model outputs compared against stim.py'),
 'C19': dict(
   text='A boolean name-resolution checker over scope trees is proved sound AND complete w.r.t. a relational model of Python scoping '
        '(function/lambda/comprehension/class scopes, global/nonlocal, module globals, builtins, attribute chains on imported modules); '
        'the scope trees of all ten modules and the dir() facts of the installed libraries are REGENERATED from the source on every run by a '
        'fail-closed AST translator and re-checked by vm_compute (C19_<module>); the translator is cross-checked per code unit against the '
        'global loads in the real bytecode.',
   ref='DESIGN.md section 6 C19', note='Trusted: Coq kernel + vm_compute; translate/pynames2coq.py (fail-closed); dir() of the installed numpy/scipy/pandas/matplotlib; '
        'the relational model of Python scoping (language reference 4.2.2). Locals that may be unbound, instance attributes and failing imports are outside the claim. '
        'One known finding (util.iir reads undefined fs).',
   technique='Coq proof (checker soundness/completeness) applied by vm_compute to a model regenerated from the source by a translator'),
 'C07': dict(
   text='Real-number theorems (round trip level->volts->level, inverse, attenuation/gain/fixed gain as pure dB offsets, +20 dB <=> x10, all '
        'constructors consistent, mV/Pa round trip) proved about definitions REGENERATED from calibration.py/util.py on every run by a fail-closed '
        'AST translator; rational-number theorems for the interpolation / point-lookup model (table points reproduced, affine between neighbours, '
        'None outside, mean over a range fails on any uncalibrated frequency), that model being tied to the code by a Q-valued correspondence.',
   ref='DESIGN.md section 6 C07', note='Trusted: Coq kernel; real-number axioms of the Coq standard library (sig_forall_dec, sig_not_dec, functional_extensionality_dep, classic); '
        'translate/pyexpr2coq.py (with its own numeric self-test); float evaluation of log10/10**x is not modelled (laws proved over R, observed to 1e-9 in binary64); '
        'scipy interp1d modelled as piecewise linear with NaN outside.',
   technique='Coq proof over R about translator-regenerated definitions + Q-model correspondence for interpolation'),
 'C15': dict(
   text='General theorem (any number of threads, ALL interleavings, unbounded pre-emptions, re-entrant lock, exception edges): if every access to a '
        'mutable shared field of every operation lies inside its outermost lock region (boolean well_locked over a method table), every complete '
        'schedule yields the results and final store of the serial execution ordered by outermost acquisition. The method table of SignalBuffer '
        '(statements, lock nesting, fields read/written, calls) is REGENERATED from buffer.py on every run by a fail-closed AST translator and '
        'well_locked is re-evaluated by vm_compute; mutable fields are computed (assigned outside __init__). When it fails, a settrace-driven '
        'deterministic scheduler searches the REAL class for a torn read.',
   ref='DESIGN.md section 6 C15', note='Trusted: Coq kernel + vm_compute; translate/pylocks2coq.py (fail-closed; cross-checked per method against bytecode attribute names and runtime '
        'observation); the theorem is about a source-line-granular interleaving semantics with the RLock as mutual exclusion: CPython bytecode-level switching and NumPy releasing the GIL are outside the model.',
   technique='Coq proof (serializability by forward simulation) applied by vm_compute to a lock table regenerated from the source by a translator; schedule search on the real class when it fails'),
 'C04': dict(
   text='Theorems over EVERY finite history of pop_buffer / pause(t <= clock) / resume on every queue class: the log holds exactly the non-cancelled '
        'trials (per (stimulus, start): live = #added - #removed, so nothing is removed twice or without being live); remaining + non-cancelled presentations = '
        'requested at every step; at empty exactly requested (>= for keep-completed policies); one pause removes exactly the live trials ending after t, newest first, '
        'restores each once, leaves nothing pending; paused output is zeros with no trial start; first trial after resume(t2) starts at t2; future pause rejected. '
        'Model tied to queue.py by a correspondence that pauses at EVERY sample position of small timelines plus random histories.',
   ref='DESIGN.md section 6 C04', note=COMMON_NOTE + ' Pause/resume times on the sample grid. The _x theorems (C04_conservation_x, _at_empty_x, _pause_exact_x, _rejected_pause_atomic, _rejected_pause_is_skip, closest-key / log order) extend this to histories with rejected pauses (a no-op since the repair), pops with decrement=False and arbitrary declared durations. Shuffle/randint are oracles.',
   technique='Coq proof (history invariant by induction over operations) + vm_compute model outputs compared against queue.py'),
 'C05': dict(
   text='Refinement theorem: the model of capture_epoch/extract_epochs equals an abstract spec send by send for every stream, chunking (incl. empty chunks), '
        'request/removal schedule; hence each never-removed request inside the look-back is delivered exactly once with exactly stream[lo, lo+n) and its own metadata, '
        'removed-before-complete never delivered, removed-after unaffected, done callback at most once and only when pending is empty and the source complete. '
        'Model tied to pipeline.py by correspondence on 1-D/2-channel, plain/annotated inputs.',
   ref='DESIGN.md section 6 C05', note=COMMON_NOTE + ' lo/n/B are computed by the harness with the code\'s own float expressions; distinct (t0,key); one known finding (unequal per-request durations completing in one send).',
   technique='Coq proof (refinement to an abstract spec, induction over sends) + vm_compute correspondence against pipeline.py'),
 'C10': dict(
   text='Theorems about an aliasing model (heap of storages, views, caller writes, memo table, deep copy): in EVERY program each next() returns what a heap-free '
        'reference semantics returns (function of the generator\'s own parameters and calls); noninterference under insertion of caller writes / memoised calls / '
        'global-random use / use of other generators; reset and deepcopy replay; memoised results are pure and writes to them rejected. The model is tied to '
        'stim.py by random programs on real objects with in-place writes into every returned array, plus queue append/clone programs judged by an oracle.',
   ref='DESIGN.md section 6 C10', note=COMMON_NOTE + ' That real objects have no hidden shared state beyond what the model lists is probed by the correspondence (incl. calibration objects shared between a factory and its copies), not proved; memoisation over MUTABLE argument objects has its own model (Determ/ModelMemo.v: value-keyed memo pure for every program, identity-keyed refuted); RandomSignalQueue (global RNG by design) is outside.',
   technique='Coq proof (refinement of an aliasing heap model to a pure reference semantics) + vm_compute model outputs compared against stim.py'),
 'C03': dict(
   text='Theorem: for every queue class, any number of stimuli, any trial counts >= 1, any group size >= 1 (dividing or not) and any request chunking, once the queue '
        'has reported empty the sequence of presented stimuli IS the policy order (FIFO: insertion order with exact counts; interleaved: the round robin, exact counts without '
        'keep / stop at the first moment all satisfied with keep; blocked random: prefix of the concatenated shuffle blocks, stops at first moment; grouped: group index never '
        'decreases, stops at first moment; random: exact counts), nothing remains, requested totals unchanged; the queue does reach empty (explicit bound); afterwards only '
        'zeros and one empty notification per request. Model tied to queue.py by exhaustive small trial vectors x all group sizes + random.',
   ref='DESIGN.md section 6 C03', note=COMMON_NOTE + ' np.random.randint choices and RandomState.shuffle blocks are oracles (membership / permutation assumed, checked by the harness); automatic decrement; no pause.',
   technique='Coq proof (per-policy invariants lifted through the request loop by induction) + vm_compute model outputs compared against queue.py'),
 'C12': dict(
   text='Per stage (blocked, discard, downsample, decimate, rms, derivative, iirfilter, transform, mc_reference, auto_th, event_rate): theorems for EVERY stream and EVERY '
        'chunking into non-empty chunks, plain and annotated, 1-D and 2-D: concatenated output = the whole-signal definition (e.g. decimate = filter whole signal then '
        'every q-th sample, with the filter an abstract mapAccum) and consecutive annotated outputs are contiguous with the right rate, labels and metadata. '
        'Model tied to pipeline.py by exhaustive chunkings of small N + random, bit-exact against one-shot scipy primitives.',
   ref='DESIGN.md section 6 C12', note=COMMON_NOTE + ' lfilter/RMS/threshold kernels are abstract step functions (oracles); derivative is claimed for annotated input; rms: C12_rms_contiguous* assume n divides the first s0, C12_rms_x_* cover every first s0; event_rate: C12_event_rate_causal* cover every stream whose events lie at or after the start of their block (they may lie beyond its end, as edges() emits them), fractional block_step by the scaling theorems.',
   technique='Coq proof (carry-over state invariants by induction over chunk lists) + vm_compute correspondence against pipeline.py'),
 'C11': dict(
   text='Theorem C11_getitem_regular: for EVERY index expression over ints, slices, lists, boolean masks, Ellipsis and newaxis on any well-formed 1-3-D annotated array, '
        'the modelled normalize_index + attribute fix-up equals NumPy\'s per-axis reading; corollaries: time axis of a unit-step slice = slice of the time axis (positive, negative, '
        'out-of-range bounds), stride multiplies the sample period, labels/metadata follow the selection, concat of any time split restores the array, concat accepts only adjacent '
        'pieces with equal rate/labels/metadata. Model tied to pipeline.py by an exhaustive index-expression grammar on small shapes.',
   ref='DESIGN.md section 6 C11', note=COMMON_NOTE + ' The NumPy indexing layer (broadcasting of index arrays, placement of advanced-index axes) is modelled and tied by correspondence only; '
        'two known findings (int on the channel axis of a 3-D array keeping the epoch axis; paired list/mask indices on two axes) excuse only the count deviation; s0 after a strided slice is outside the claim.',
   technique='Coq proof (case analysis over index expressions, list lemmas) + vm_compute correspondence against pipeline.py'),
 'C17': dict(
   text='Theorems for all batches and all sequences of batches: forwarded = exactly the (metadata, epoch) pairs whose criterion (max |x| or max - min) is STRICTLY below the threshold in force, '
        'in original order, masked through the C11 boolean-mask index model; equal-to-threshold rejected; all-rejected forwards nothing; status callback gets the mask; multichannel / un-epoched '
        'input refused. Model tied to pipeline.py by batches at / just below / just above threshold, constant and callable thresholds, plain and annotated.',
   ref='DESIGN.md section 6 C17', note=COMMON_NOTE + ' Sample values are integer-valued so comparisons are exact.',
   technique='Coq proof (list filtering lemmas over the C11 index model) + vm_compute correspondence against pipeline.py'),
 'C02': dict(
   text='Theorems for every queue class, stimulus set and EVERY sequence of buffer requests (no pause): the concatenated output is the rendering of the added notifications '
        '(each stimulus from its notified start for its full length, zero elsewhere), the clock equals the samples emitted, consecutive trials are separated by exactly the earlier '
        'one\'s delay; one request for a+b samples equals a then b (output, added notifications, clock, flags, remaining trials) from any reachable state; the request loop '
        'terminates without raising for the deterministic policies. Model tied to queue.py by all compositions of small totals, boundary-aligned requests and random, '
        'array and generator sources, non-integer rates, on- and off-grid start offsets (t0 compared bit-exactly with start offset + k/fs).',
   ref='DESIGN.md section 6 C02', note=COMMON_NOTE + ' Scalar (cycled) delays and per-trial delay lists (_lists theorems); declared durations arbitrary (_any_duration theorems: the declared duration is carried in the log only); every trial occupies >= 1 sample for the termination theorem; insert() and 2-D sources outside.',
   technique='Coq proof (ghost-state invariant + fuel-free big-step semantics of the request loop) + vm_compute model outputs compared against queue.py'),
 'C06': dict(
   text='Composition theorem over the proved queue (C02-C04) and extractor (C05) models: for every queue class, every timed pause/resume history, any interleaving of generation and '
        'acquisition chunks: the played stream (overwritten per clock position, truncated at each pause) holds each kept trial\'s waveform at its notified start and silence elsewhere; replaying '
        'added/removed notifications yields exactly the live trials; the extractor delivers exactly one epoch per kept trial, equal to waveform ++ zeros, and none for cancelled ones. '
        'Flocq theorems over binary64 for EVERY real rate in [1, 2^40]: round((k/fs)*fs) = k, the queue-published t0 = RN(T0 + RN(k/fs)) is read back by the extractor as the same sample, '
        'off-tie stability for off-grid prestim, pause and trial-end readings. Tied to the code by the real queue -> deque -> extract_epochs loop at six rates.',
   ref='DESIGN.md section 6 C06', note=COMMON_NOTE + ' Real-number axioms of the Coq standard library for the Flocq part only. Hypotheses: timed pauses, prestim 0 in the composition theorem, every stimulus has >= 1 sample, poststim_fits; one known finding (untimed pause inside a waveform).',
   technique='Coq proof (composition of proved component models + Flocq floating-point grid theorems) + vm_compute model outputs compared against the real queue/extractor loop'),
 'C08': dict(
   text='Theorems over R about definitions REGENERATED from stim.py on every run: level linearity (expr(L+d) = 10^(d/20) expr(L)) and polarity (expr(-p) = -expr(p)) for tone, SAM tone, click and the '
        'noise scale factors, incl. through a stateful linear filter of any order; whole-cycle tone RMS = get_sf(f, L) hence reads back L through get_db (C07 laws); SAM component amplitudes; click level. '
        'PARTIAL by nature: the absolute level of noise / chirp / band-limited click / wav stimuli depends on the RNG distribution and on filter design and is judged by a numeric oracle only.',
   ref='DESIGN.md section 6 C08', note='Trusted: Coq kernel; real-number axioms of the standard library; translate/pyexpr2coq(_ext).py with numeric self-test; laws proved over R and observed to 1e-12 / 1e-9 in binary64; '
        'exactness of (-1.0)*x == -x in binary64 is an IEEE fact taken as trusted.',
   technique='Coq proof over R about translator-regenerated definitions + two-run relations on every stimulus type of the implementation'),
 'C13': dict(
   text='Theorem C13_all_chunkings: for every debounce length >= 1, initial state, detect mode, first index, plain or annotated input and EVERY chunking (incl. empty and length-1 chunks) of a stream whose '
        'ended runs are all longer than the debounce length, the events reported after any number of chunks are exactly the transitions due so far, once each, in order, with latency <= m-1 samples; one '
        'block per chunk, blocks tile the timeline; range queries = filter by sample; merging adjacent blocks = append. Model tied to pipeline.py by all chunkings of all clean streams up to length 6-9.',
   ref='DESIGN.md section 6 C13', note=COMMON_NOTE + ' Reuses the proved C18 run-detection model. Where a block\'s events lie is proved exactly (C13_events_not_before_block: rising in (start, end], falling in [start+m, end+m); _in_span_refuted; merged prefixes; whole-span queries partial / refuted): the property does not claim containment, and event_rate was repaired to accept such blocks (C12).',
   technique='Coq proof (window-vs-stream run characterisation, induction over chunk lists) + vm_compute correspondence against pipeline.py'),
 'C16': dict(
   text='Theorems over R about scale expressions REGENERATED from util.py on every run: dB helpers exact inverses (20 log10; 20 uPa), band level = spectrum level + 10 log10 n; for every N and '
        '0 < 2k < N a sinusoid of RMS A and phase p reads A(cos p, sin p) at bin k and exactly 0 at every other bin; DC/Nyquist doubling; the same through any cosine-sum window normalised by its mean '
        '(hann, hamming, blackman, flattop) away from the main lobe; any averaging count; tone_conv; Parseval with DC/Nyquist counted twice; csd_to_signal o csd = id for even N. rfft = DFT sum and '
        'the reshaping/trimming glue are tied by correspondence.',
   ref='DESIGN.md section 6 C16', note='Trusted: Coq kernel; real-number axioms of the standard library; translate/pyexpr2coq(_ext).py with numeric self-test; np.fft.rfft modelled as the DFT sum (1e-9); identities are for detrend=None '
        '(the default linear detrend is a preprocessing step that biases the lowest bins); one known finding (csd_to_signal loses a sample for odd N).',
   technique='Coq proof over R (trigonometric sums, DFT orthogonality) about translator-regenerated definitions + numeric correspondence against util.py'),
}

PENDING = 'not yet built in this round (framework is being extended property by property; see DESIGN.md section 8)'
NOT_APPLICABLE = {p: PENDING for p in ['C%02d' % i for i in range(1, 20)]}

# ---- translator ties for stateful code (third session): the bookkeeping of these components is REGENERATED from the source on
# every run (fail-closed ast translators) and PROVED equal to the hand-written model the property theorems are about
TIES = {
 'C01': ('translate/pystim2coq.py -> coq/gen/StimIdxGen.v: stim.envelope index arithmetic, GateFactory / EnvelopeFactory / FixedWaveform / '
         'SquareWaveFactory next() and queries, _sam_envelope, repeat(), RepeatFactory.reset, Transform.next / reset; tie theorems Stim/ProofsTie.v, ProofsTieRep.v (C01_source_*): generated = model for all inputs'),
 'C09': ('translate/pystim2coq.py -> coq/gen/StimIdxGen.v (as C01); C09_source_* restate totals / bookkeeping / shape / rise rejection over the generated definitions'),
 'C05': ('translate/pycapture2coq.py -> coq/gen/CaptureGen.v: the capture_epoch coroutine as a step function and the WHOLE loop body of extract_epochs (removal '
         'drain, intake, replay, delivery, pruning, all-done callback) as a send function; tie theorems Extract/ProofsTie.v, ProofsTieSend.v (C05_source_*), incl. '
         'C05_source_refines_spec over runs of the generated send'),
 'C12': ('translate/pycoro2coq.py -> coq/gen/StagesStepGen.v: all eleven stages (discard, blocked, downsample, derivative, decimate, rms, event_rate, transform, '
         'mc_reference, iirfilter, auto_th) as step functions; '
         'tie theorems Stages/ProofsTie.v (C12_source_*): generated step = model step for ALL states and chunks'),
 'C14': ('translate/pybuffer2coq.py -> coq/gen/BufferStepGen.v: every SignalBuffer method statement by statement; tie theorems Buffer/ProofsTie.v '
         '(C14_source_*): reads equal for every state, mutators equal under the buffer invariant up to slots below the valid start'),
 'C02': ('translate/pyqueue2coq.py -> coq/gen/QueueStepGen.v: _get_samples_waveform / _get_samples_generator, remove_key, decrement_key and next_key of every queue '
         'class, pop_key, pop_next, next_trial, _pop_buffer and the pop_buffer loop; tie theorems Queue/ProofsTie.v (C02_source_*): same state, value and '
         'notifications as the model for every well-formed queue state'),
 'C04': ('translate/pyqueue2coq.py -> coq/gen/QueueStepGen.v (as C02) plus pause, _ends_after, cancel, requeue (base and interleaved), resume, rewind_samples; tie '
         'theorems Queue/ProofsTieC04.v (C04_source_*): a history run with the generated pop_buffer / pause / resume is the model history; conservation, at-empty, '
         'pause-exact and future-pause rejection restated over it'),
 'C06': ('both generated components (gen/QueueStepGen.v, gen/CaptureGen.v) regenerated for the tree under test; EndToEnd/ProofsTie.v: the combined schedule run with the '
         'generated queue operations and the generated extractor send equals the model run (C06_source_run_steps_is_model), C06_source_end_to_end and '
         'C06_source_trials_in_stream restate the composition over it; the glue between the two generated components is hand-written Gallina'),
 'C03': ('translate/pyqueue2coq.py -> coq/gen/QueueStepGen.v (as C02); C03_source_* restate policy order / after-empty over runs of the generated pop_buffer'),
 'C10': ('translate/pydeterm2coq.py -> coq/gen/DetermGen.v: an ALIASING translator (fresh array / view / in-place write / read-only flag per NumPy operation) of '
         'fast_cache, FixedWaveform.next, GateFactory.next, ToneFactory / SilenceFactory next and the reset methods; tie theorems Determ/ProofsTie.v (C10_source_*)'),
 'C11': ('translate/pypdata2coq.py -> coq/gen/PDataGen.v: normalize_index in full, the annotation fix-up of PipelineData.__getitem__, ensure_dim and concat (annotated pieces); tie theorems '
         'PData/ProofsTie.v, ProofsTieConcat.v (C11_source_*): generated = model for every index value and every array'),
 'C13': ('translate/pyedges2coq.py -> coq/gen/EdgesGen.v (on top of gen/RunsGen.v): the edges coroutine as start / step functions, Events.get_range_samples / '
         'get_latest_samples, combine_events (translate/pycombine2coq.py -> gen/EdgesCombineGen.v); tie theorems Edges/ProofsTie.v, ProofsTieCombine.v (C13_source_*)'),
 'C17': ('translate/pyreject2coq.py -> coq/gen/RejectGen.v: reject_epochs set-up and loop body over a small NumPy vocabulary (coq/Reject/NumpyPrims.v); tie theorems '
         'Reject/ProofsTie.v (C17_source_*)'),
 'C18': ('translate/pyruns2coq.py -> coq/gen/RunsGen.v: util.ts / edge_rising / edge_falling / epochs (pad = 0) / smooth_epochs / debounce_epochs over '
         'a small NumPy vocabulary (coq/Runs/NumpyPrims.v); tie theorems Runs/ProofsTie.v (C18_source_*): generated = model for every input'),
}
for _p, _t in TIES.items():
    CHECKS[_p]['technique'] += ' + bookkeeping regenerated from the source by a fail-closed translator and proved equal to the model'
    CHECKS[_p]['note'] = CHECKS[_p]['note'].replace(
        'the hand-written model is tied to the code only by the correspondence check',
        'the hand-written model is tied to the code by the correspondence check AND by a translator tie (' + _t + '); the translator, what it '
        'pins by exact source text and the NumPy primitives it maps to model functions are trusted (listed in the evidence file)')
    if 'translator tie' not in CHECKS[_p]['note']:
        CHECKS[_p]['note'] += ' Translator tie: ' + _t + '.'

