#!/bin/sh
# MANIFEST.setup_cmd: full offline build of the Coq development (all models, proofs and Props files).
set -e
cd "$(dirname "$0")/.."
/venv/bin/python - <<'PY'
import sys
sys.path.insert(0, 'lib')
import vlib
import importlib, os
os.environ.setdefault('PYTHONHASHSEED', '0')
sys.path.insert(0, '.'); sys.path.insert(0, 'harness')
vlib.use_repo()
# translator-tied properties: regenerate coq/gen/* from the source before building
for f in sorted(os.listdir('harness')):
    if f.startswith('C') and f.endswith('.py'):
        H = importlib.import_module('harness.' + f[:-3])
        if hasattr(H, 'translate'):
            print('translate', f[:-3], H.translate(vlib.REPO) is not None)
vlib.hygiene()
rc, out = vlib.coq_build(None, timeout=3000)
print(out[-3000:])
sys.exit(rc)
PY
