#!/bin/sh
# MANIFEST.setup_cmd: full offline build of the Coq development (all models, proofs and Props files).
set -e
cd "$(dirname "$0")/.."
/venv/bin/python - <<'PY'
import sys
sys.path.insert(0, 'lib')
import vlib
vlib.hygiene()
rc, out = vlib.coq_build(None, timeout=3000)
print(out[-3000:])
sys.exit(rc)
PY
