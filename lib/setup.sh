#!/bin/sh
# MANIFEST.setup_cmd: full offline build (.vo, never -vos) of the Coq development behind every claimed check.
set -e
cd "$(dirname "$0")/.."
/venv/bin/python - <<'PY'
import importlib, json, os, sys
sys.path.insert(0, 'lib'); sys.path.insert(0, '.'); sys.path.insert(0, 'harness')
os.environ.setdefault('PYTHONHASHSEED', '0')
import vlib
vlib.use_repo()
props = [c['property_id'] for c in json.load(open('MANIFEST.json'))['checks']]
rc_all = 0
for p in props:
    H = importlib.import_module('harness.' + p)
    if hasattr(H, 'translate'):
        # translator-tied properties: regenerate coq/gen/* from the source before building
        H.translate(vlib.REPO)
    vlib.hygiene(f'Props/{p}.v')
    rc, out = vlib.coq_build(f'Props/{p}.vo', timeout=3000)
    print(p, 'build', 'ok' if rc == 0 else 'FAILED')
    if rc:
        print(out[-3000:])
        rc_all = 1
sys.exit(rc_all)
PY
