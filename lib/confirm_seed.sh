#!/bin/bash
# usage: lib/confirm_seed.sh <dir with patch.diff demo.py> : confirms (1) demo passes on clean tree, (2) patch applies,
# (3) pinned suite still passes with the patch, (4) demo fails with the patch.  Scratch worktree is removed.
D=$(readlink -f "$1")
WT=/tmp/cs-$$-$RANDOM
git -C /repo worktree add -q --detach "$WT" HEAD || exit 3
trap 'git -C /repo worktree remove --force "$WT" >/dev/null 2>&1; rm -rf "$WT"' EXIT
cd "$WT"
PYTHONPATH="$WT" timeout 600 /venv/bin/python "$D/demo.py" >/tmp/cs_clean.$$ 2>&1; C=$?
git apply "$D/patch.diff" || { echo "PATCH DOES NOT APPLY"; exit 3; }
S=$(/venv/bin/python -m pytest -q -p no:cacheprovider --timeout=900 --continue-on-collection-errors 2>&1 | tail -1)
PYTHONPATH="$WT" timeout 600 /venv/bin/python "$D/demo.py" >/tmp/cs_mut.$$ 2>&1; M=$?
echo "clean_demo_exit=$C mutant_demo_exit=$M suite='$S'"
tail -2 /tmp/cs_mut.$$ | cut -c1-200
rm -f /tmp/cs_clean.$$ /tmp/cs_mut.$$
