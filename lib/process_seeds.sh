#!/bin/bash
# usage: lib/process_seeds.sh <prefix e.g. /tmp/seed2-> <prop> ...   : confirm + run each delivered mutant; one summary line each
PFX=$1; shift
cd /verif
for P in "$@"; do
  for i in 1 2; do
    D=${PFX}${P}-out/$i
    [ -f $D/patch.diff ] || { echo "$P/$i: NOT DELIVERED"; continue; }
    C=$(lib/confirm_seed.sh $D 2>&1 | grep clean_demo_exit)
    R=$(lib/mutant_test.sh $D/patch.diff $P 2>&1)
    if echo "$R" | grep -q "VIOLATION property=$P"; then V=CAUGHT; else V=MISSED; fi
    S=$(echo "$R" | grep -E "quick:" | sed 's/.*quick: //' | cut -c1-150)
    echo "$P/$i: $V | $C | $S"
    python3 -c "import json;m=json.load(open('$D/meta.json'));print('      ', (m.get('summary') or '')[:300])"
  done
done
