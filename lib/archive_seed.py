#!/venv/bin/python
"""usage: archive_seed.py <prop> <n> <srcdir> <caught_by> <ran...>  -> /verif/seeded/<prop>-<n>/"""
import json, os, shutil, sys
prop, n, src, caught = sys.argv[1:5]
ran = ' '.join(sys.argv[5:])
dst = f'/verif/seeded/{prop}-{n}'
os.makedirs(dst, exist_ok=True)
for f in ('patch.diff', 'demo.py'):
    shutil.copy(os.path.join(src, f), os.path.join(dst, f))
m = json.load(open(os.path.join(src, 'meta.json')))
m['property'] = prop
m['confirmed_by_coordinator'] = ('lib/confirm_seed.sh: demo.py exits 0 on the unchanged tree, patch applies, pinned suite still 192 passed with the patch, '
                                 'demo.py exits 1 with the patch (scratch worktree, removed afterwards)')
m['check_result'] = caught
m['ran'] = ran
json.dump(m, open(os.path.join(dst, 'meta.json'), 'w'), indent=1)
print('archived', dst)
