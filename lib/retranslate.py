#!/venv/bin/python
"""Regenerates coq/gen/* from /repo (what every ./check run does first for its own property); used after a run
against a scratch tree so that the generated files left behind describe /repo again."""
import importlib, json, os, sys
os.chdir(os.path.dirname(os.path.abspath(__file__)) + '/..')
sys.path.insert(0, 'lib'); sys.path.insert(0, '.'); sys.path.insert(0, 'harness')
os.environ.setdefault('PYTHONHASHSEED', '0')
os.environ.pop('PSIAUDIO_REPO', None)
import vlib
vlib.use_repo()
import fcntl
_lock = open('work/translator.lock', 'w')
fcntl.flock(_lock, fcntl.LOCK_EX)      # never rewrite coq/gen under a running translator-tied check
for c in json.load(open('MANIFEST.json'))['checks']:
    H = importlib.import_module('harness.' + c['property_id'])
    if hasattr(H, 'translate'):
        H.translate(vlib.REPO)
