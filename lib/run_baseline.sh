#!/bin/sh
# Runs the pinned baseline suite (command of /root/.vp/BASELINE.json) on $1 (default /repo), guard off.
R=${1:-/repo}
cd "$R" && env -u PSIAUDIO_VERIF /venv/bin/python -m pytest -ra -q -p no:cacheprovider --timeout=900 --continue-on-collection-errors 2>&1 | tail -8
