#!/bin/bash
# usage: lib/process_seeds_by_file.sh <outdir> ...   each <outdir>/<i>/ holds patch.diff demo.py meta.json (meta.property names the
# property its demo checks, meta.also_breaks others): confirm + run the named checks on each mutant; one summary line per check
cd /verif
for OUT in "$@"; do
  for D in $OUT/*/; do
    D=${D%/}
    [ -f $D/patch.diff ] || { echo "$D: NOT DELIVERED"; continue; }
    PROPS=$(python3 -c "
import json;m=json.load(open('$D/meta.json'));ps=[m.get('property')]+[p for p in (m.get('also_breaks') or []) if p!=m.get('property')]
print(' '.join(p for p in ps[:3] if isinstance(p,str) and len(p)==3 and p[0]=='C'))")
    C=$(lib/confirm_seed.sh $D 2>&1 | grep clean_demo_exit)
    echo "$D [$PROPS] | $C"
    for P in $PROPS; do
      R=$(lib/mutant_test.sh $D/patch.diff $P 2>&1)
      if echo "$R" | grep -q "VIOLATION property=$P"; then V=CAUGHT; else V=MISSED; fi
      S=$(echo "$R" | grep -E "quick:" | sed 's/.*quick: //' | cut -c1-150)
      echo "    $P: $V | $S"
    done
    python3 -c "import json;m=json.load(open('$D/meta.json'));print('      ', (m.get('summary') or '')[:260])"
  done
done
