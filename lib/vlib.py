"""Shared machinery for /verif/check: Coq build, Props obligations, generated
correspondence files evaluated by vm_compute inside coqc, evidence, known
findings, violation reports.  See DESIGN.md sections 2-5."""
import concurrent.futures as cf
import fcntl
import hashlib
import json
import os
import re
import subprocess
import sys
import time

VERIF = os.path.dirname(os.path.dirname(os.path.abspath(__file__)))
COQ = os.path.join(VERIF, 'coq')
WORK = os.path.join(VERIF, 'work')
REPO = os.environ.get('PSIAUDIO_REPO', '/repo')
NCPU = int(os.environ.get('VERIF_JOBS', '16'))
COQ_ARGS = ['-Q', COQ, 'PV', '-w',
            '-notation-overridden,-deprecated-hint-without-locality,-deprecated-instance-without-locality']


class MachineryError(Exception):
    """The framework itself is broken (not a statement about psiaudio)."""


def use_repo():
    """Make `import psiaudio` resolve to the tree under test."""
    if REPO not in sys.path:
        sys.path.insert(0, REPO)
    os.environ.setdefault('PYTHONHASHSEED', '0')
    import psiaudio  # noqa
    got = os.path.dirname(os.path.dirname(os.path.abspath(psiaudio.__file__)))
    if os.path.realpath(got) != os.path.realpath(REPO):
        raise MachineryError(f'psiaudio imported from {got}, expected {REPO}')


# --------------------------------------------------------------------------
# hygiene: nothing in the development may declare an axiom or switch a check off
FORBIDDEN = re.compile(
    r'\b(Admitted|admit|Axiom|Axioms|Parameter|Parameters|Conjecture|Conjectures|'
    r'Admit\s+Obligations|Unset\s+Guard\s+Checking|Unset\s+Positivity\s+Checking|'
    r'Unset\s+Universe\s+Checking|bypass_check|type-in-type|impredicative-set|'
    r'native_compute)\b')
SECTIONLESS = re.compile(r'^\s*(Variable|Variables|Hypothesis|Hypotheses|Context)\b')


def strip_comments(src):
    out, depth, i = [], 0, 0
    while i < len(src):
        if src.startswith('(*', i):
            depth += 1
            i += 2
        elif src.startswith('*)', i) and depth:
            depth -= 1
            i += 2
        else:
            if depth == 0:
                out.append(src[i])
            elif src[i] == '\n':
                out.append('\n')
            i += 1
    return ''.join(out)


def dep_closure(relpath):
    """.v files (relative to coq/) that relpath transitively requires from this development (PV.*)"""
    seen, todo = set(), [relpath]
    while todo:
        f = todo.pop()
        if f in seen or not os.path.exists(os.path.join(COQ, f)):
            continue
        seen.add(f)
        src = strip_comments(open(os.path.join(COQ, f)).read())
        for m in re.finditer(r'Require\s+(?:Import\s+|Export\s+)?(.+?)\.(?=\s|$)', src, re.S):
            for mod in m.group(1).split():
                mod = mod[3:] if mod.startswith('PV.') else mod
                cand = mod.replace('.', '/') + '.v'
                if os.path.exists(os.path.join(COQ, cand)):
                    todo.append(cand)
    return seen


def hygiene(scope=None):
    """scope=None: the whole development must be clean (setup).  scope='Props/Cxx.v': everything that file
    depends on must be clean; problems elsewhere (another property's work in progress) are only reported."""
    bad, elsewhere = [], []
    closure = None if scope is None else dep_closure(scope)
    for root, _, files in os.walk(COQ):
        for f in files:
            if not f.endswith('.v'):
                continue
            p = os.path.join(root, f)
            rel = os.path.relpath(p, COQ)
            sink = bad if (closure is None or rel in closure) else elsewhere
            src = strip_comments(open(p).read())
            src = re.sub(r'"(?:[^"]|"")*"', '""', src)      # Coq string literals cannot declare anything
            depth = 0
            for n, line in enumerate(src.split('\n'), 1):
                if FORBIDDEN.search(line):
                    sink.append(f'{p}:{n}: {line.strip()}')
                if re.match(r'^\s*Section\b', line):
                    depth += 1
                elif re.match(r'^\s*End\b', line) and depth:
                    depth -= 1
                elif depth == 0 and SECTIONLESS.match(line):
                    sink.append(f'{p}:{n}: {line.strip()} (outside a Section)')
    if elsewhere:
        sys.stderr.write('hygiene: forbidden constructs outside the files this property depends on:\n  '
                         + '\n  '.join(elsewhere[:10]) + '\n')
    if bad:
        raise MachineryError('forbidden constructs in the Coq development:\n' + '\n'.join(bad))


# --------------------------------------------------------------------------
def sh(cmd, timeout, cwd=None):
    try:
        r = subprocess.run(cmd, cwd=cwd, stdout=subprocess.PIPE, stderr=subprocess.STDOUT,
                           timeout=timeout, text=True)
        return r.returncode, r.stdout
    except subprocess.TimeoutExpired as e:
        out = e.stdout if isinstance(e.stdout, str) else (e.stdout or b'').decode('utf8', 'replace')
        return 124, out + f'\n[timeout after {timeout}s]'


def gen_coqproject():
    """_CoqProject lists every .v under coq/ (sorted); rewritten only when the set changes."""
    files = []
    for root, dirs, fs in os.walk(COQ):
        dirs.sort()
        for f in sorted(fs):
            if f.endswith('.v'):
                files.append(os.path.relpath(os.path.join(root, f), COQ))
    text = ('-Q . PV\n-arg -w -arg -notation-overridden,-deprecated-hint-without-locality,'
            '-deprecated-instance-without-locality\n' + '\n'.join(sorted(files)) + '\n')
    cp = os.path.join(COQ, '_CoqProject')
    if not os.path.exists(cp) or open(cp).read() != text:
        with open(cp, 'w') as f:
            f.write(text)
        return True
    return False


def coq_build(target=None, timeout=2400):
    """Full .vo build (never -vos) of `target` (e.g. Props/C14.vo) and everything it depends on,
    or of the whole development when target is None.  Serialised by a lock file."""
    os.makedirs(WORK, exist_ok=True)
    with open(os.path.join(WORK, '.build.lock'), 'w') as lk:
        fcntl.flock(lk, fcntl.LOCK_EX)
        changed = gen_coqproject()
        mk = os.path.join(COQ, 'Makefile')
        if changed or not os.path.exists(mk):
            rc, out = sh(['coq_makefile', '-f', '_CoqProject', '-o', 'Makefile'], 60, cwd=COQ)
            if rc:
                raise MachineryError('coq_makefile failed:\n' + out)
        cmd = ['make', f'-j{NCPU}'] + ([target] if target else [])
        rc, out = sh(cmd, timeout, cwd=COQ)
        return rc, out


ASSUME_RE = re.compile(r'^(Closed under the global context|Axioms:)', re.M)


def run_props(prop, relpath=None, timeout=600):
    """Compile coq/Props/<prop>.v afresh; count Theorem statements (obligations)
    and Print Assumptions answers (discharged); collect the axioms printed."""
    relpath = relpath or f'Props/{prop}.v'
    src = os.path.join(COQ, relpath)
    wd = os.path.join(WORK, prop)
    os.makedirs(wd, exist_ok=True)
    text = strip_comments(open(src).read())
    theorems = re.findall(r'^\s*(?:Theorem|Corollary)\s+(\w+)', text, re.M)
    printed = re.findall(r'^\s*Print\s+Assumptions\s+(\w+)', text, re.M)
    missing = [t for t in theorems if t not in printed]
    if missing:
        raise MachineryError(f'{relpath}: no Print Assumptions for {missing}')
    t0 = time.time()
    rc, out = sh(['coqc'] + COQ_ARGS + ['-o', os.path.join(wd, prop + '.vo'), src], timeout)
    res = {'file': relpath, 'theorems': theorems, 'obligations': len(theorems), 'rc': rc,
           'output': out, 'wall_s': round(time.time() - t0, 2),
           'checker_cmd': 'coqc -Q coq PV coq/' + relpath}
    if rc != 0:
        res.update(discharged=0, axioms=[])
        return res
    blocks = ASSUME_RE.split(out)
    # blocks = [pre, tag1, body1, tag2, body2, ...]
    answers = []
    for i in range(1, len(blocks), 2):
        tag, body = blocks[i], blocks[i + 1]
        ax = []
        if tag.startswith('Axioms'):
            ax = re.findall(r'^([A-Za-z_][\w.\']*)\s*:', body, re.M)
        answers.append(ax)
    res['discharged'] = min(len(answers), len(theorems))
    axioms = sorted({a for ax in answers for a in ax})
    res['axioms'] = axioms
    res['per_theorem'] = dict(zip(printed, answers))
    return res


def run_coqchk(prop, timeout=3000):
    """Independent re-check of the compiled Props file and everything it depends on (thorough tier)."""
    t0 = time.time()
    rc, out = sh(['coqchk', '-silent', '-o', '-Q', COQ, 'PV', f'PV.Props.{prop}'], timeout)
    summary = out[out.find('CONTEXT SUMMARY'):] if 'CONTEXT SUMMARY' in out else out[-1500:]
    axioms = []
    m = re.search(r'\* Axioms:(.*?)\n\s*\n\* Constants', summary, re.S)
    if m:
        axioms = [a.strip() for a in m.group(1).split('\n') if a.strip() and a.strip() != '<none>']
    bad = [k for k in ('type-in-type', 'unsafe (co)fixpoints', 'positivity is assumed')
           if re.search(re.escape(k) + r':\s*(?!<none>)\S', summary)]
    return {'rc': rc, 'wall_s': round(time.time() - t0, 1), 'axioms': axioms, 'unsafe': bad,
            'ok': rc == 0 and not bad, 'cmd': f'coqchk -silent -o -Q coq PV PV.Props.{prop}'}


# --------------------------------------------------------------------------
def zlit(z):
    z = int(z)
    return f'({z})' if z < 0 else str(z)


def blit(b):
    return 'true' if b else 'false'


def listlit(items):
    return '[' + '; '.join(items) + ']'


def zlist(zs):
    return listlit([zlit(z) for z in zs])


def blist(bs):
    return listlit([blit(b) for b in bs])


def pairlist(ps):
    return listlit([f'({zlit(a)}, {zlit(b)})' for a, b in ps])


def optlit(x, f):
    return 'None' if x is None else f'(Some {f(x)})'


RES_RE = re.compile(r'=\s*(\[[^\]]*\])\s*:\s*list Z', re.S)


def _run_shard(args):
    path, timeout = args
    rc, out = sh(['coqc'] + COQ_ARGS + [path], timeout)
    return path, rc, out


def run_cases(prop, requires, terms, shard=300, timeout=900, tag='cases'):
    """terms: list of Coq boolean terms.  Evaluates them with vm_compute inside
    coqc (sharded, parallel) and returns the sorted indices that are false."""
    wd = os.path.join(WORK, prop)
    os.makedirs(wd, exist_ok=True)
    for f in os.listdir(wd):
        if f.startswith(tag + '_'):
            os.unlink(os.path.join(wd, f))
    jobs = []
    for k in range(0, len(terms), shard):
        name = f'{tag}_{k // shard}'
        path = os.path.join(wd, name + '.v')
        with open(path, 'w') as f:
            f.write('From PV Require Import ' + ' '.join(requires) + '.\n')
            f.write('Open Scope Z_scope.\n')
            f.write('Definition cs : list bool := [\n')
            f.write(';\n'.join(terms[k:k + shard]))
            f.write('\n].\nEval vm_compute in (failing cs).\n')
        jobs.append((k, path))
    failing = []
    with cf.ThreadPoolExecutor(NCPU) as ex:
        for (k, path), (_, rc, out) in zip(jobs, ex.map(_run_shard, [(p, timeout) for _, p in jobs])):
            if rc != 0:
                raise MachineryError(f'coqc failed on generated {path}:\n{out[-3000:]}')
            m = RES_RE.search(out)
            if not m:
                raise MachineryError(f'cannot parse coqc output for {path}:\n{out[-2000:]}')
            body = m.group(1).strip()[1:-1]
            for tok in re.findall(r'-?\d+', body):
                failing.append(k + int(tok))
    return sorted(failing)


def parse_nested(txt):
    """Parse Coq's printing of a `list (list Z)` value: ` = [[1; -2]; []] : list (list Z)`."""
    m = re.search(r'=\s*(\[.*\])\s*:\s*list \(list Z\)', txt, re.S)
    if not m:
        return None
    body = m.group(1)
    out, cur, depth = [], None, 0
    for tok in re.findall(r'\[|\]|-?\d+', body):
        if tok == '[':
            depth += 1
            if depth == 2:
                cur = []
        elif tok == ']':
            if depth == 2:
                out.append(cur)
                cur = None
            depth -= 1
        else:
            cur.append(int(tok))
    return out


def run_exprs(prop, requires, exprs, shard=150, timeout=900, tag='outs'):
    """exprs: Coq expressions of type `list Z`.  Evaluates them with vm_compute inside coqc and
    returns the list of integer lists (the model's outputs), in order."""
    wd = os.path.join(WORK, prop)
    os.makedirs(wd, exist_ok=True)
    for f in os.listdir(wd):
        if f.startswith(tag + '_'):
            os.unlink(os.path.join(wd, f))
    jobs = []
    for k in range(0, len(exprs), shard):
        path = os.path.join(wd, f'{tag}_{k // shard}.v')
        with open(path, 'w') as f:
            f.write('From PV Require Import ' + ' '.join(requires) + '.\n')
            f.write('Open Scope Z_scope.\n')
            f.write('Definition es : list (list Z) := [\n')
            f.write(';\n'.join(f'({e})' for e in exprs[k:k + shard]))
            f.write('\n].\nSet Printing Width 1000000.\nSet Printing Depth 100000000.\nEval vm_compute in es.\n')
        jobs.append((k, path))
    res = []
    with cf.ThreadPoolExecutor(NCPU) as ex:
        for (k, path), (_, rc, out) in zip(jobs, ex.map(_run_shard, [(p, timeout) for _, p in jobs])):
            if rc != 0:
                raise MachineryError(f'coqc failed on generated {path}:\n{out[-3000:]}')
            vals = parse_nested(out)
            n = min(shard, len(exprs) - k)
            if vals is None or len(vals) != n:
                raise MachineryError(f'cannot parse coqc output for {path} (got {None if vals is None else len(vals)} of {n})')
            res.extend(vals)
    return res


def coq_eval(prop, requires, expr, timeout=300):
    """Evaluate one expression with vm_compute and return coqc's raw answer (for reports)."""
    wd = os.path.join(WORK, prop)
    os.makedirs(wd, exist_ok=True)
    path = os.path.join(wd, 'eval_one.v')
    with open(path, 'w') as f:
        f.write('From PV Require Import ' + ' '.join(requires) + '.\nOpen Scope Z_scope.\n')
        f.write(f'Eval vm_compute in ({expr}).\n')
    rc, out = sh(['coqc'] + COQ_ARGS + [path], timeout)
    return ' '.join(out.split())


# --------------------------------------------------------------------------
def load_known():
    known, fixed = [], []
    p = os.path.join(VERIF, 'known_findings.txt')
    if os.path.exists(p):
        for line in open(p):
            line = line.strip()
            if not line or line.startswith('#'):
                continue
            m = re.match(r'known:\s+property=(\w+)\s+key=(\S+)\s*(.*)', line)
            if m:
                known.append({'property': m.group(1), 'key': m.group(2), 'what': m.group(3)})
                continue
            m = re.match(r'fixed:\s+property=(\w+)\s+(\S+)\s*(.*)', line)
            if m:
                fixed.append({'property': m.group(1), 'commit': m.group(2), 'what': m.group(3)})
    return known, fixed


def write_replay(prop, payload):
    d = os.path.join(VERIF, 'replay')
    os.makedirs(d, exist_ok=True)
    blob = json.dumps(payload, sort_keys=True, default=str)
    h = hashlib.sha1(blob.encode()).hexdigest()[:12]
    path = os.path.join(d, f'{prop}-{h}.json')
    with open(path, 'w') as f:
        json.dump(payload, f, indent=1, sort_keys=True, default=str)
    return path


def write_evidence(prop, ev):
    # evidence/ describes /repo itself; runs against a scratch copy (mutant self-tests) are kept apart
    d = os.path.join(VERIF, 'evidence') if os.path.realpath(REPO) == '/repo' else os.path.join(WORK, 'evidence_scratch')
    os.makedirs(d, exist_ok=True)
    with open(os.path.join(d, f'{prop}.json'), 'w') as f:
        json.dump(ev, f, indent=1, default=str)
        f.write('\n')
