"""C06 - end to end, every presented trial is recovered sample-exactly from the stream.
Drives the REAL loop of tests/test_queue.py: signal queue -> 'added'/'removed' deques -> pipeline.extract_epochs,
the extractor being fed the queue's own output as a playback device would hold it (truncated at each pause time)
and re-chunked independently of the generation chunking.
Model: coq/EndToEnd/Model.v (composition of coq/Queue/Model.v and coq/Extract/Model.v); theorems: coq/Props/C06.v."""
import numpy as np
import queuecore as qc
from vlib import zlit, zlist, listlit

PROP = 'C06'
REQUIRES = ['EndToEnd.Model', 'EndToEnd.Spec']
KNOWN_KEY = 'queue:untimed-pause-splits-waveform'
FS = [25e3, 44.1e3, 48828.125, 97656.25, 195312.5, 1000 / 7.0]
OFFS = [0.0, 0.3, -0.4, 0.12, -0.27, 0.45, -0.08, 0.499]      # fractions of a sample; never a half-sample tie
RULE = ('the real queue -> deque -> extract_epochs loop. All seven queue classes; array, FixedWaveform and Cos2-gated-tone '
        'sources; rates {25e3, 44.1e3, 48828.125, 97656.25, 195312.5, 1000/7}; acquisition started D in {0, ~1e5..2e6} samples '
        'before the queue (T0 = (D+j)/fs, j in 0..40), so notified times reach 10 s; stimulus durations, inter-trial delays, '
        'epoch_size, poststim_time and pause / resume times off the sample grid by {0, .3, -.4, .12, -.27, .45, -.08, .499} of a '
        'sample (never a half-sample tie). (1) no pause: every policy x generation chunkings (1-sample, ragged, one block) x '
        'acquisition chunkings (1-sample, ragged incl. chunks ending exactly at epoch ends, one block); (2) one timed pause at '
        'EVERY sample position of a window covering two trials (inside a waveform, exactly at its start / end, inside the delay), '
        'acquisition up to the pause point or lagging, paused generation, resume at the pause time (re-presenting a cancelled '
        'trial with the same (key, t0)) / later / far enough for the post-stimulus window; (3) seeded random schedules with 0-3 '
        'pause/resume pairs anywhere, random interleaving of generation and acquisition, look-back buffer 0 or 7 samples. '
        'Compared per case: the played stream (exact), the kept trials (key, start sample), and per send the epochs delivered '
        '(exact arrays), against the model; the oracle judges the implementation alone. Non-trivial: a trial was cancelled, or an '
        'epoch spans two acquisition chunks.')
TRUSTED = ['harness/C06.py (the playback device: writes each pop_buffer result at the queue clock, truncates at round(t*fs) on pause; '
           'computes the sample numbers handed to the model with the float expressions of the code: round((t-T0)*fs) for pause/resume, '
           'round(delay*fs), round(duration*fs), round((epoch_size+poststim+prestim)*fs), round(buffer_size*fs)); harness/queuecore.py',
           'the model is handed acquisition-relative samples shifted by D (the D samples acquired before the queue starts are sent '
           'to the real extractor as one chunk of zeros)']
ASSUMPTIONS = ['every interruption of a waveform is a timed pause(t) with t not after the queue clock and not before what has been acquired; '
               'resume(t) is not before the pause time (theorem precondition timed_hist / wf_steps); an un-timed pause() while a '
               'waveform is in progress followed by paused generation splits the trial: recorded finding ' + KNOWN_KEY,
               'one epoch length per extractor (epoch_size given), every waveform non-empty and not longer than the epoch, prestim_time = 0',
               'the post-stimulus part of an epoch is silence only if no other notified trial lies in the window [t0, t0+n) '
               '(poststim_fits; after a pause the queue forgets the pending inter-trial delay, so the resume time decides): cases '
               'violating it are judged on the waveform part and on counts',
               'a chunk is acquired only after it was generated']


# ---------------------------------------------------------------------------------------------------
def _dur(st, fs):
    return (st['len'] + st.get('off', 0.0)) / fs


def _delay(st, fs):
    return (st['delay'] + st.get('doff', 0.0)) / fs


def _source(st, k, fs):
    from psiaudio import stim
    n = st['len']
    if st['kind'] == 'array':
        return qc.wave_array(k, n)
    if st['kind'] == 'gen':
        return stim.FixedWaveform(fs, qc.wave_array(k, n))
    tone = stim.ToneFactory(fs, fs / 7.0, 1.0 + k)
    return stim.Cos2EnvelopeFactory(fs, _dur(st, fs), (n // 4) / fs, tone)


def _wave(st, k, fs):
    src = _source(st, k, fs)
    if isinstance(src, np.ndarray):
        return src
    return np.asarray(src.next(st['len']), dtype=float)


def _queue(case):
    from psiaudio import queue as Q
    fs, p = case['fs'], case['pol']
    if p == 'fifo':
        q = Q.FIFOSignalQueue(fs=fs)
    elif p == 'inter_keep':
        q = Q.InterleavedFIFOSignalQueue(fs=fs, keep_complete_waveforms=True)
    elif p == 'inter_nokeep':
        q = Q.InterleavedFIFOSignalQueue(fs=fs, keep_complete_waveforms=False)
    elif p == 'random':
        q = Q.RandomSignalQueue(fs=fs)
    elif p == 'blocked_random':
        q = Q.BlockedRandomSignalQueue(seed=case.get('seed', 0), fs=fs)
    elif p == 'grouped':
        q = Q.GroupedFIFOSignalQueue(group_size=case['gs'], fs=fs)
    else:
        q = Q.BlockedFIFOSignalQueue(fs=fs)
    q.set_t0((case['D'] + case['j']) / fs)
    keys = []
    for k, st in enumerate(case['stims']):
        kw = {}
        if st['kind'] == 'array' and st.get('explicit'):
            kw['duration'] = _dur(st, fs)
        keys.append(q.append(_source(st, k, fs), st['trials'], _delay(st, fs), **kw))
    return q, keys


def _t(case, x):
    """the time in seconds handed to pause()/resume() for the step argument x = [samples after queue start, offset]"""
    fs = case['fs']
    return (case['D'] + case['j']) / fs + (x[0] + x[1]) / fs


def _eff(case, x):
    """acquisition-relative sample (minus D) the queue derives from that time: j + round((t - T0)*fs)"""
    fs = case['fs']
    T0 = (case['D'] + case['j']) / fs
    return case['j'] + int(round((_t(case, x) - T0) * fs))


def _times(case):
    fs = case['fs']
    esize = (case['esize'][0] + case['esize'][1]) / fs
    post = (case['post'][0] + case['post'][1]) / fs
    n = round((esize + post + 0) * fs)          # pipeline.py: round(total_epoch_size * fs)
    B = round((case['B'] / fs) * fs)            # pipeline.py: round(buffer_size * fs)
    return esize, post, int(n), int(B)


def impl(case):
    from collections import deque
    from psiaudio.pipeline import extract_epochs
    fs, D, j = case['fs'], case['D'], case['j']
    if case['pol'] == 'random':
        np.random.seed(case.get('seed', 0))
    q, keys = _queue(case)
    kidx = {k: i for i, k in enumerate(keys)}
    added, removed, notes = deque(), deque(), []

    def clock():
        return j + int(round(q.get_ts() * fs))

    def on_added(info):
        added.append(info)
        notes.append(['added', kidx[info['key']], info['t0'], clock()])

    def on_removed(info):
        removed.append(info)
        notes.append(['removed', kidx[info['key']], info['t0']])
    q.connect(on_added, 'added')
    q.connect(on_removed, 'removed')
    esize, post, n, B = _times(case)
    got = []
    ex = extract_epochs(fs=fs, queue=added, removed_queue=removed, epoch_size=esize, poststim_time=post,
                        buffer_size=case['B'] / fs, target=got.append)
    if D:
        ex.send(np.zeros(D))                    # the acquisition ran for D samples before the queue was started
    P = np.zeros(0)                             # the device buffer, position 0 = acquisition sample D
    acq = 0
    sends, conv, marks = [], [], []
    for s in case['steps']:
        if s[0] == 'pop':
            c = clock()
            w = np.asarray(q.pop_buffer(s[1]), dtype=float)
            if c > len(P):
                P = np.concatenate([P, np.zeros(c - len(P))])
            P = np.concatenate([P[:c], w, P[c + len(w):]])
        elif s[0] == 'pause':
            if s[1] is None:
                q.pause()
            else:
                t = _t(case, s[1])
                q.pause(t)
                cut = int(round(t * fs)) - D
                conv.append(['pause', cut, clock()])
                P = P[:max(cut, 0)]
        elif s[0] == 'resume':
            if s[1] is None:
                q.resume()
            else:
                t = _t(case, s[1])
                q.resume(t)
                conv.append(['resume', int(round(t * fs)) - D, clock()])
        else:
            m = s[1]
            chunk = P[acq:acq + m]
            if len(chunk) != m:
                return {'bad_schedule': f'acquisition of [{acq},{acq + m}) but only {len(P)} samples were generated'}
            del got[:]
            notes.append(['send', len(sends)])
            try:
                ex.send(chunk.copy())
                sends.append([[float(v) for v in e] for blk in got for e in np.asarray(blk)])
            except ValueError as e:
                sends.append({'raised': 'ValueError', 'message': str(e)[:120]})
                break
            acq += m
    return {'P': [float(v) for v in P], 'notes': notes, 'sends': sends, 'conv': conv, 'acq': acq}


# ---------------------------------------------------------------------------------------------------
def _pol(case):
    n = len(case['stims'])
    return {'fifo': 'PFifo', 'inter_keep': '(PInter true)', 'inter_nokeep': '(PInter false)', 'random': 'PRandom',
            'blocked_random': 'PBlockedRandom', 'grouped': f"(PGrouped {zlit(case.get('gs', 0))})",
            'blocked_fifo': f'(PGrouped {n})'}[case['pol']]


def expr(case, res):
    if 'bad_schedule' in res:
        raise RuntimeError(res['bad_schedule'])
    fs = case['fs']
    es = []
    for st in case['stims']:
        ln = st['len'] if st['kind'] != 'cos2' else int(round(_dur(st, fs) * fs))
        d = int(round(_delay(st, fs) * fs))
        es.append(f"(mk_entry {zlit(st['trials'])} {zlit(ln)} {'KArray' if st['kind'] == 'array' else 'KGen'} {zlist([d])} true)")
    choices = [e[1] for e in res['notes'] if e[0] == 'added'] if case['pol'] == 'random' else []
    perms = qc.blocked_perms(case.get('seed', 0), len(case['stims'])) if case['pol'] == 'blocked_random' else []
    steps = [f"SQ (Resume (Some {zlit(case['j'])}))"]
    for s in case['steps']:
        if s[0] == 'pop':
            steps.append(f'SQ (Pop {zlit(s[1])})')
        elif s[0] == 'acq':
            steps.append(f'SA {zlit(s[1])}')
        else:
            a = 'None' if s[1] is None else f'(Some {zlit(_eff(case, s[1]))})'
            steps.append(f"SQ ({'Pause' if s[0] == 'pause' else 'Resume'} {a})")
    _, _, n, B = _times(case)
    return (f"c06_run {_pol(case)} {listlit(es)} {zlist(choices)} {listlit([zlist(p) for p in perms])} "
            f"{zlit(B)} {zlit(n)} 0 {listlit(steps)}")


def _decode(mo):
    pos = 0

    def take(k=None):
        nonlocal pos
        if k is None:
            v = mo[pos]
            pos += 1
            return v
        v = mo[pos:pos + k]
        pos += k
        return v
    if take() == 0:
        return {'raised': True}
    out = {'wf': take(), 'fits': take()}
    out['P'] = take(take())
    out['live'] = [tuple(take(2)) for _ in range(take())]
    sends = []
    for _ in range(take()):
        code = take()
        if code:
            sends.append({'raised': code})
            continue
        items = []
        for _ in range(take()):
            rid, s0, missed, ln = take(4)
            items.append({'k': rid, 's0': s0, 'missed': missed, 'data': take(ln)})
        sends.append(items)
    out['sends'] = sends
    return out


def _waves(case):
    return [_wave(st, k, case['fs']) for k, st in enumerate(case['stims'])]


def _sample(waves, code):
    if code == 0:
        return 0.0
    k, i = (code - 1) % 64, (code - 1) // 64
    return float(waves[k][i])


def _live(res):
    live = []
    for e in res['notes']:
        if e[0] == 'added':
            live.append((e[1], e[2]))
        elif e[0] == 'removed':
            if (e[1], e[2]) not in live:
                return None
            live.remove((e[1], e[2]))
    return live


def agree(case, res, mo):
    try:
        d = _decode(mo)
    except Exception as e:
        return f'cannot decode model output ({e})'
    if d.get('raised'):
        return 'model: the queue raises on this history'
    if not d['wf']:
        return 'the schedule is outside the ones the theorem covers (wf_steps false): generator bug'
    waves = _waves(case)
    fs = case['fs']
    want = [_sample(waves, c) for c in d['P']]
    if len(want) != len(res['P']):
        return f'played stream has {len(res["P"])} samples, model {len(want)}'
    for i, (a, b) in enumerate(zip(res['P'], want)):
        if a != b:
            return f'played stream sample {i} is {a!r}, model {b!r}'
    live = _live(res)
    if live is None:
        return 'a removed notification names a trial that is not outstanding'
    got_live = [(k, int(round(t0 * fs)) - case['D']) for k, t0 in live]
    if got_live != d['live']:
        return f'kept trials {got_live} vs model {d["live"]}'
    if len(res['sends']) != len(d['sends']):
        return f'{len(res["sends"])} sends vs model {len(d["sends"])}'
    for i, (a, b) in enumerate(zip(res['sends'], d['sends'])):
        if isinstance(a, dict) or isinstance(b, dict):
            if isinstance(a, dict) != isinstance(b, dict):
                return f'send {i}: implementation {a if isinstance(a, dict) else "ok"}, model {b if isinstance(b, dict) else "ok"}'
            continue
        if len(a) != len(b):
            return f'send {i}: {len(a)} epochs delivered, model {len(b)}'
        for e, it in zip(a, b):
            if it['missed']:
                return f'send {i}: model delivers a missed (empty) epoch'
            w = [_sample(waves, c) for c in it['data']]
            if e != w:
                return f'send {i}: epoch of stimulus {it["k"]} at sample {it["s0"]} is {e[:8]}..., model {w[:8]}...'
    case['_fits'] = bool(d['fits'])
    return None


def _untimed(case):
    return any(s[0] == 'pause' and s[1] is None for s in case['steps'])


def key(case, res):
    return KNOWN_KEY if _untimed(case) else None


def oracle(case, res):
    """C06 on the implementation alone."""
    if 'bad_schedule' in res:
        return None
    fs, D = case['fs'], case['D']
    waves = _waves(case)
    _, _, n, _ = _times(case)
    # the two sides convert seconds <-> samples identically
    for e in res['notes']:
        if e[0] == 'added' and int(round(e[2] * fs)) - D != e[3]:
            return (f'trial of stimulus {e[1]} set up at queue sample {e[3] + D} is notified as t0={e[2]!r}, which the extractor '
                    f'reads as sample {int(round(e[2] * fs))}')
    for kind, dev, qclk in res['conv']:
        if dev != qclk:
            return f'{kind} time: the device reads sample {dev + D}, the queue clock is {qclk + D}'
    if any(isinstance(s, dict) for s in res['sends']):
        bad = [s for s in res['sends'] if isinstance(s, dict)][0]
        return f'extractor.send raised {bad["raised"]}: {bad["message"]}'
    # which trials were kept, in order; which notifications each send had seen
    live, seen = [], 0
    per_send = []
    allnotes = res['notes']
    for e in allnotes:
        if e[0] == 'added':
            live.append((e[1], e[2]))
        elif e[0] == 'removed':
            if (e[1], e[2]) not in live:
                return f'removed notification for a trial that is not outstanding: stimulus {e[1]} t0={e[2]!r}'
            live.remove((e[1], e[2]))
        else:
            per_send.append(list(live))
    delivered = [e for s in res['sends'] for e in s]
    # expected: one epoch per trial outstanding at the last send whose window was acquired, in order
    last = per_send[-1] if per_send else []
    exp = []
    for k, t0 in last:
        lo = int(round(t0 * fs)) - D
        if lo + n <= res['acq']:
            exp.append((k, lo))
    if len(delivered) != len(exp):
        return f'{len(delivered)} epochs delivered, but {len(exp)} kept trials have their window inside the acquired stream'
    added = [(e[1], int(round(e[2] * fs)) - D) for e in allnotes if e[0] == 'added']
    for ep, (k, lo) in zip(delivered, exp):
        w = waves[k]
        if len(ep) != n:
            return f'epoch of {len(ep)} samples, expected {n}'
        if ep[:len(w)] != [float(v) for v in w]:
            i = next(i for i, (a, b) in enumerate(zip(ep, w)) if a != b)
            return f'epoch for stimulus {k} at sample {lo + D}: sample {i} is {ep[i]!r}, the waveform has {float(w[i])!r}'
        fits = all((t + len(waves[kk]) <= lo + len(w)) or (lo + n <= t) for kk, t in added)
        if fits and any(v != 0.0 for v in ep[len(w):]):
            return f'epoch for stimulus {k} at sample {lo + D}: post-stimulus part is not silent'
    return None


def nontrivial(case, res):
    if 'notes' not in res:
        return False
    if any(e[0] == 'removed' for e in res['notes']):
        return True
    return sum(1 for s in res['sends'] if not isinstance(s, dict) and s) >= 2


def distribution(cases, results):
    d = {}
    for c, r in zip(cases, results):
        k = f"{c['pol']}@{c['fs']:.6g}"
        e = d.setdefault(k, {'cases': 0, 'with_cancellation': 0, 'readd_same_t0': 0, 'epochs': 0})
        e['cases'] += 1
        if 'notes' in r:
            e['with_cancellation'] += int(any(x[0] == 'removed' for x in r['notes']))
            ad = [(x[1], x[2]) for x in r['notes'] if x[0] == 'added']
            e['readd_same_t0'] += int(len(ad) != len(set(ad)))
            e['epochs'] += sum(len(s) for s in r['sends'] if not isinstance(s, dict))
    return d


# the recorded finding, replayed every run once it is listed in known_findings.txt
KNOWN_WITNESSES = {
    KNOWN_KEY: {'pol': 'fifo', 'fs': 1000.0, 'D': 0, 'j': 0, 'seed': 0, 'gs': 1, 'B': 0,
                'stims': [{'kind': 'array', 'len': 4, 'trials': 1, 'delay': 3}],
                'esize': [4, 0.0], 'post': [2, 0.0],
                'steps': [['pop', 2], ['pause', None], ['pop', 2], ['resume', None], ['pop', 10], ['acq', 14]]}}


# ---------------------------------------------------------------------------------------------------
def _chunks(total, mode, rng, marks=()):
    """split `total` into chunk sizes"""
    out = []
    if mode == 'one':
        out = [total] if total else []
    elif mode == 'ones':
        out = [1] * total
    elif mode == 'marks':          # chunks ending exactly at the given positions
        pos = 0
        for m in sorted(set(x for x in marks if 0 < x < total)) + [total]:
            out.append(m - pos)
            pos = m
    else:
        left = total
        while left > 0:
            c = min(left, rng.choice([1, 2, 3, 5, 8, 13, 40]))
            out.append(c)
            left -= c
    return [c for c in out if c > 0]


def _finish(steps, clock, plen, acq, total, rng, mode='ragged'):
    """generate the rest of the queue and acquire everything"""
    steps.append(['pop', total])
    end = clock + total                      # only what lies below the queue clock may be acquired
    for c in _chunks(max(end - acq, 0), mode, rng):
        steps.append(['acq', c])
    return steps


def _stims(rng, fs, nst, kinds=('array', 'gen', 'cos2'), maxlen=9):
    st = []
    for _ in range(nst):
        k = rng.choice(kinds)
        ln = rng.randint(1 if k != 'cos2' else 4, maxlen)
        st.append({'kind': k, 'len': ln, 'off': rng.choice(OFFS) if k == 'cos2' or rng.random() < 0.4 else 0.0,
                   'explicit': k == 'array' and rng.random() < 0.4, 'trials': rng.randint(1, 3),
                   'delay': 0, 'doff': rng.choice(OFFS)})
    return st


def _fit_delays(st, n, rng, slack=(0, 1, 4)):
    for s in st:
        s['delay'] = max(n - s['len'], 0) + rng.choice(slack)
        if s['delay'] == 0 and s['doff'] < 0:
            s['doff'] = -s['doff']


def _base(rng, pol, fs, st, n_extra, quick):
    maxlen = max(s['len'] for s in st)
    n = maxlen + n_extra
    esz = rng.randint(maxlen, n)
    return {'pol': pol, 'gs': rng.randint(1, len(st) + 1), 'seed': rng.randint(0, 40), 'fs': fs,
            'D': rng.choice([0, 0, rng.randint(100000, 400000 if quick else 2000000)]), 'j': rng.choice([0, 0, 3, 17, 40]),
            'B': rng.choice([0, 0, 7]), 'stims': st,
            'esize': [esz, rng.choice(OFFS) if esz > maxlen else abs(rng.choice(OFFS))],
            'post': [n - esz, 0.0] if n == esz else [n - esz, rng.choice(OFFS)], '_n': n}


def _total(st, n):
    return sum(s['trials'] * (s['len'] + s['delay'] + 1) for s in st) * len(st) + n + 6


def _fix_n(c):
    """make round((esize + post)*fs) equal to the intended n whatever the offsets do"""
    n = c.pop('_n')
    for _ in range(8):
        got = _times(c)[2]
        if got == n:
            return c
        c['post'] = [c['post'][0] + (n - got), 0.0]
    c['esize'], c['post'] = [c['esize'][0], 0.0], [n - c['esize'][0], 0.0]
    return c


def cases(tier, rng):
    quick = tier == 'quick'
    # (1) no pause: policy x rate x generation chunking x acquisition chunking
    for pol in qc.POLICIES:
        for fs in (FS if not quick else [rng.choice(FS), rng.choice(FS)]):
            for gmode in ('one', 'ones', 'ragged'):
                for amode in ('one', 'ones', 'ragged', 'marks'):
                    if quick and rng.random() < 0.5:
                        continue
                    st = _stims(rng, fs, rng.randint(1, 3))
                    c = _fix_n(_base(rng, pol, fs, st, rng.randint(0, 5), quick))
                    n = _times(c)[2]
                    _fit_delays(st, n, rng)
                    total = _total(st, n)
                    steps = [['pop', k] for k in _chunks(total, gmode, rng)]
                    marks = [c['j'] + i * 3 for i in range(total)]
                    for k in _chunks(c['j'] + total, amode, rng, marks):
                        steps.append(['acq', k])
                    if gmode == 'ragged' and amode == 'ragged':      # interleave generation and acquisition
                        steps, clock, acq = [], c['j'], 0
                        while clock < c['j'] + total:
                            k = min(rng.choice([1, 4, 9, 30]), c['j'] + total - clock)
                            steps.append(['pop', k])
                            clock += k
                            if rng.random() < 0.7:
                                m = rng.randint(0, clock - acq)
                                if m:
                                    steps.append(['acq', m])
                                    acq += m
                        if clock > acq:
                            steps.append(['acq', clock - acq])
                    yield dict(c, steps=steps)
    # (2) one timed pause at every position of a window covering two trials
    for fs in (FS if not quick else FS[2:5]):
        for pol in (qc.POLICIES if not quick else ['fifo', 'inter_nokeep', 'grouped']):
            st = [{'kind': 'array', 'len': 3, 'off': 0.0, 'trials': 2, 'delay': 0, 'doff': 0.3},
                  {'kind': 'cos2', 'len': 5, 'off': -0.27, 'trials': 1, 'delay': 0, 'doff': -0.08}]
            base = {'pol': pol, 'gs': 2, 'seed': 5, 'fs': fs, 'D': 0 if pol != 'fifo' else 123457, 'j': 3 if pol == 'fifo' else 0,
                    'B': 0, 'stims': st, 'esize': [5, 0.12], 'post': [2, -0.08]}
            n = _times(base)[2]
            _fit_delays(st, n, rng, slack=(1,))
            total = _total(st, n)
            a = 2 * n + 3                                   # generated before the pause
            for t in range(0, a + 1):
                for off in ([0.0, 0.3, -0.4] if not quick else [rng.choice([0.0, 0.3, -0.4])]):
                    if t == 0 and off < 0:
                        continue
                    for lag in (0, 4):                      # acquisition up to the pause point, or lagging behind
                        for gap in (0, 2, n + 2):           # resume at the pause time / a little later / after the window
                            if quick and rng.random() < 0.45:
                                continue
                            j = base['j']
                            acq = max(0, j + t - lag)
                            steps = [['pop', a]]
                            if acq:
                                steps.append(['acq', acq])
                            steps += [['pause', [t, off]], ['pop', 2], ['resume', [t + gap, off if gap else off]]]
                            clock, plen = j + t + gap, max(j + t + 2, 0)
                            yield dict(base, steps=_finish(steps, clock, plen, acq, total, rng))
    # (3) seeded random schedules
    for _ in range(260 if quick else 6000):
        fs = rng.choice(FS)
        st = _stims(rng, fs, rng.randint(1, 3))
        c = _fix_n(_base(rng, rng.choice(qc.POLICIES), fs, st, rng.randint(0, 6), quick))
        n = _times(c)[2]
        _fit_delays(st, n, rng, slack=(0, 0, 2, 7))
        total = _total(st, n)
        j = c['j']
        steps, clock, plen, acq, paused = [], j, 0, 0, None
        for _ in range(rng.randint(2, 14)):
            u = rng.random()
            if u < 0.45:
                k = rng.randint(1, 25)
                steps.append(['pop', k])
                plen = max(plen, clock + k)
                clock += k
            elif u < 0.75:
                room = min(clock, plen) - acq
                if room > 0:
                    m = rng.randint(1, room)
                    steps.append(['acq', m])
                    acq += m
            elif paused is None:
                if clock - j < 1:
                    continue
                t = rng.randint(max(acq, j, clock - 20), clock) - j
                off = rng.choice(OFFS[:5])
                if t == 0 and off < 0 or (t + j == clock and off > 0) or (t + j == acq and off < 0):
                    off = 0.0
                steps.append(['pause', [t, off]])
                clock = j + t
                plen = min(plen, clock)
                paused = t
            else:
                x = rng.choice([paused, paused, paused + 1, clock - j, clock - j + 3, paused + n + 1])
                x = max(x, acq - j)
                steps.append(['resume', [x, 0.0]] if rng.random() < 0.8 or x != clock - j else ['resume', None])
                if steps[-1][1] is not None:
                    clock = j + x
                paused = None
        if paused is not None:
            steps.append(['resume', [max(paused, clock - j), 0.0]])
            clock = j + max(paused, clock - j)
        yield dict(c, steps=_finish(steps, clock, plen, acq, total, rng, mode=rng.choice(['ragged', 'one', 'ones'])))
