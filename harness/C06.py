"""C06 - end to end, every presented trial is recovered sample-exactly from the stream.
Drives the REAL loop of tests/test_queue.py: signal queue -> 'added'/'removed' deques -> pipeline.extract_epochs,
the extractor being fed the queue's own output as a playback device would hold it (truncated at each pause time)
and re-chunked independently of the generation chunking.
Model: coq/EndToEnd/Model.v (composition of coq/Queue/Model.v and coq/Extract/Model.v); theorems: coq/Props/C06.v."""
import numpy as np
import queuecore as qc
from vlib import zlit, zlist, listlit

PROP = 'C06'
REQUIRES = ['EndToEnd.Model', 'EndToEnd.Spec']
KNOWN_KEY = 'queue:untimed-pause-splits-waveform'
REUSE_KEY = 'extract:keeps-views-of-sent-chunks'
FS = [25e3, 44.1e3, 48828.125, 97656.25, 195312.5, 1000 / 7.0]
OFFS = [0.0, 0.3, -0.4, 0.12, -0.27, 0.45, -0.08, 0.499]      # fractions of a sample; never a half-sample tie
RULE = ('the real queue -> deque -> extract_epochs loop. All seven queue classes; array, FixedWaveform and Cos2-gated-tone '
        'sources; rates {25e3, 44.1e3, 48828.125, 97656.25, 195312.5, 1000/7}; acquisition started D in {0, ~1e5..2e6} samples '
        'before the queue (T0 = (D+j)/fs, j in 0..40), so notified times reach 10 s; stimulus durations, inter-trial delays, '
        'epoch_size, poststim_time and pause / resume times off the sample grid by {0, .3, -.4, .12, -.27, .45, -.08, .499} of a '
        'sample (never a half-sample tie). (1) no pause: every policy x generation chunkings (1-sample, ragged, one block) x '
        'acquisition chunkings (1-sample, ragged incl. chunks ending exactly at epoch ends, one block); (2) one timed pause at '
        'EVERY sample position of a window covering two trials (inside a waveform, exactly at its start / end, inside the delay), '
        'acquisition up to the pause point or lagging, paused generation, resume at the pause time (re-presenting a cancelled '
        'trial with the same (key, t0)) / later / far enough for the post-stimulus window; (3) seeded random schedules with 0-3 '
        'pause/resume pairs anywhere, random interleaving of generation and acquisition, look-back buffer 0 or 7 samples. '
        'Compared per case: the played stream (exact), the kept trials (key, start sample), and per send the epochs delivered '
        '(exact arrays), against the model; the oracle judges the implementation alone. Non-trivial: a trial was cancelled, or an '
        'epoch spans two acquisition chunks. (4) coverage audit: queues filled by extend() (scalar and list options) as well as append(); '
        'set_t0 / set_fs after construction resp. after the sources; queue start off the sample grid; per-trial delay lists, delays=None; '
        'epoch_size=None (info["duration"]), prestim_time on/off grid (lagging acquisition, look-back buffer, with pauses), poststim_time '
        'omitted, off-grid buffer_size, removed_queue omitted, source_complete Event (set / set only before the last send) with '
        'empty_queue_cb; PipelineData / 2-channel / PipelineData 2-channel / int64 acquisition chunks (s0, metadata, dtype, channel '
        'equality checked); zero-length chunks; chunk boundaries exactly at trial starts, ends and epoch ends; NumPy-int trial counts and '
        'request sizes, integer-typed fs; the caller overwriting every array pop_buffer returned; FIFO queue running dry inside a request '
        'and stimuli appended afterwards; pause exactly at / below the acquisition position, paused silence acquired and resume exactly '
        'at / after it, a second earlier pause while paused, three pause/resume pairs between two sends; acquisition sample and queue '
        'clock beyond 2^24 and 2^25. (5) long logs: 300-600 trials of 1-3 samples (delay 0-2) generated ahead of the acquisition in one or '
        'a few requests, pause at an early time (several hundred logged trials cancelled at once), resume, everything acquired; five queue classes. (6) Cos2 stimuli with an envelope start_time: start_time and duration both off the grid (fraction pairs whose sum carries '
        'up, carries down, or does not), waveform length and declared duration taken from the real factory, one-shot reference, generation '
        'chunkings one / 1-sample / ragged (requests starting inside the falling ramp) at all six rates; plus 0.1 ms + 5 ms tone pips at 195312.5 and 97656.25 Hz.')
TRUSTED = ['harness/C06.py (the playback device: writes each pop_buffer result at the queue clock, truncates at round(t*fs) on pause; '
           'computes the sample numbers handed to the model with the float expressions of the code: round((t-T0)*fs) for pause/resume, '
           'round(delay*fs), round(duration*fs), round((epoch_size+poststim+prestim)*fs), round(buffer_size*fs)); harness/queuecore.py',
           'the model is handed acquisition-relative samples shifted by D (the D samples acquired before the queue starts are sent '
           'to the real extractor as one chunk of zeros)']
ASSUMPTIONS = ['every interruption of a waveform is a timed pause(t) with t not after the queue clock and not before what has been acquired; '
               'resume(t) is not before the pause time (theorem precondition timed_hist / wf_steps); an un-timed pause() while a '
               'waveform is in progress followed by paused generation splits the trial: recorded finding ' + KNOWN_KEY,
               'one epoch length per extractor (epoch_size given), every waveform non-empty and not longer than the epoch, prestim_time = 0',
               'the post-stimulus part of an epoch is silence only if no other notified trial lies in the window [t0, t0+n) '
               '(poststim_fits; after a pause the queue forgets the pending inter-trial delay, so the resume time decides): cases '
               'violating it are judged on the waveform part and on counts',
               'a chunk is acquired only after it was generated']


# ---------------------------------------------------------------------------------------------------
# Optional case keys (defaults reproduce the plain loop):
#   fill 'append'|'extend'   t0_late / fs_late (set_t0 / set_fs after construction resp. after the sources)
#   toff  fraction of a sample by which the queue start T0 is off the grid      S  queue clock at start (resume(T0+S/fs))
#   stims[k]['delays'] = [[d, off], ...]  per-trial delay list (finite iterator)   stims[k]['nodelay'] delays=None
#   esize None -> epoch_size=None (info['duration'])   pre [m, off]   post_omit   boff   rq False (removed_queue omitted)
#   sc 0 none / 1 Event set / 2 Event set only before the last send (+ empty_queue_cb)
#   chunk 'plain'|'pdata'|'2ch'|'pdata2ch'|'int'   intwave   scribble   npint   fsint   late k (stimuli k.. appended at ['append'])
def _fs(case):
    return int(case['fs']) if case.get('fsint') else case['fs']


def _dur(st, fs):
    # st['len'] is the length of the whole waveform; a cos2 stimulus with st['start'] = [samples, fraction] spends the first
    # `samples` of it before the envelope starts (Cos2EnvelopeFactory(..., start_time=(samples+fraction)/fs))
    a = st['start'][0] if st.get('start') else 0
    return (st['len'] - a + st.get('off', 0.0)) / fs


def _start(st, fs):
    return (st['start'][0] + st['start'][1]) / fs if st.get('start') else 0


def _delay(st, fs):
    if st.get('nodelay'):
        return None
    if 'delays' in st:
        return [(d + o) / fs for d, o in st['delays']]
    return (st['delay'] + st.get('doff', 0.0)) / fs


def _warr(case, k, n):
    w = qc.wave_array(k, n)
    return np.floor(w) if case.get('intwave') else w


def _source(case, st, k):
    from psiaudio import stim
    fs = _fs(case)
    n = st['len']
    if st['kind'] == 'array':
        return _warr(case, k, n)
    if st['kind'] == 'gen':
        return stim.FixedWaveform(fs, _warr(case, k, n))
    tone = stim.ToneFactory(fs, fs / 7.0, 1.0 + k)
    if st.get('start'):
        return stim.Cos2EnvelopeFactory(fs, _dur(st, fs), ((n - st['start'][0]) // 4) / fs, tone, start_time=_start(st, fs))
    return stim.Cos2EnvelopeFactory(fs, _dur(st, fs), (n // 4) / fs, tone)


def _slen(case, st, k=0):
    """number of samples of the stimulus, as the real object reports it"""
    if st['kind'] != 'cos2':
        return st['len']
    return int(_source(case, st, k).n_samples())


def _wave(case, st, k):
    src = _source(case, st, k)
    if isinstance(src, np.ndarray):
        return src
    return np.asarray(src.next(int(src.n_samples())), dtype=float)      # the reference: one-shot generation, fresh factory


def _T0(case):
    return (case['D'] + case['j'] + case.get('toff', 0.0)) / case['fs']


def _shift(case):
    return case['D'] + case.get('S', 0)


def _fill(case, q, stims, k0):
    fs = _fs(case)
    keys = []
    tr = (lambda t: np.int64(t)) if case.get('npint') else (lambda t: t)
    if case.get('fill') == 'extend' and k0 == 0:
        srcs = [_source(case, st, k) for k, st in enumerate(stims)]
        durs = [_dur(st, fs) if (st['kind'] == 'array' and st.get('explicit')) else None for st in stims]
        mds = [{'stim': k} for k in range(len(stims))]
        trials = [tr(st['trials']) for st in stims]
        delays = [_delay(st, fs) for st in stims]
        if len(set(map(int, trials))) == 1:
            trials = trials[0]                      # scalar form of the option
        if all(d is None for d in delays):
            delays = None
        keys = list(q.extend(srcs, trials, delays, durs if any(d is not None for d in durs) else None, mds))
        _reuse(srcs)
        return keys
    srcs = []
    for k, st in enumerate(stims):
        kw = {'metadata': {'stim': k0 + k}}
        if st['kind'] == 'array' and st.get('explicit'):
            kw['duration'] = _dur(st, fs)
        d = _delay(st, fs)
        srcs.append(_source(case, st, k0 + k))
        if d is None:
            keys.append(q.append(srcs[-1], tr(st['trials']), **kw))
        else:
            keys.append(q.append(srcs[-1], tr(st['trials']), d, **kw))
    _reuse(srcs)
    return keys


def _reuse(srcs):
    """the caller reuses its token arrays once they are queued (one scratch buffer per token, refilled afterwards): what the
    queue plays is the waveform that was appended"""
    for a in srcs:
        if isinstance(a, np.ndarray) and a.flags.writeable:
            a[...] = -555.0


def _queue(case):
    from psiaudio import queue as Q
    fs, p = _fs(case), case['pol']
    kw = {} if case.get('fs_late') else {'fs': fs}
    if p == 'fifo':
        q = Q.FIFOSignalQueue(**kw)
    elif p == 'inter_keep':
        q = Q.InterleavedFIFOSignalQueue(**kw)          # keep_complete_waveforms defaults to True
    elif p == 'inter_nokeep':
        q = Q.InterleavedFIFOSignalQueue(keep_complete_waveforms=False, **kw)
    elif p == 'random':
        q = Q.RandomSignalQueue(**kw)
    elif p == 'blocked_random':
        q = Q.BlockedRandomSignalQueue(seed=case.get('seed', 0), **kw)
    elif p == 'grouped':
        q = Q.GroupedFIFOSignalQueue(group_size=case['gs'], **kw)
    else:
        q = Q.BlockedFIFOSignalQueue(**kw)
    if case.get('fs_late'):
        q.set_fs(fs)
    if not case.get('t0_late'):
        q.set_t0(_T0(case))
    late = case.get('late')
    keys = _fill(case, q, case['stims'][:late] if late else case['stims'], 0)
    if case.get('t0_late'):
        q.set_t0(_T0(case))
    if case.get('S'):
        q.resume(_T0(case) + case['S'] / case['fs'])
    return q, keys


def _t(case, x):
    """the time in seconds handed to pause()/resume() for the step argument x = [samples after queue start, offset]"""
    return _T0(case) + (case.get('S', 0) + x[0] + x[1]) / case['fs']


def _eff(case, x):
    """device-relative sample the queue derives from that time: j + round((t - T0)*fs) - S"""
    fs = case['fs']
    return case['j'] + int(round((_t(case, x) - _T0(case)) * fs)) - case.get('S', 0)


def _times(case):
    fs = case['fs']
    if case['esize'] is None:
        st = case['stims'][0]
        if st['kind'] == 'cos2':
            esize = _source(case, st, 0).get_duration()
        else:
            esize = _dur(st, fs) if st.get('explicit') else st['len'] / fs
    else:
        esize = (case['esize'][0] + case['esize'][1]) / fs
    post = 0 if case.get('post_omit') else (case['post'][0] + case['post'][1]) / fs
    pre = (case['pre'][0] + case['pre'][1]) / fs if case.get('pre') else 0
    n = round((esize + post + pre) * fs)                            # pipeline.py: round(total_epoch_size * fs)
    B = round(((case['B'] + case.get('boff', 0.0)) / fs) * fs)      # pipeline.py: round(buffer_size * fs)
    return esize, post, int(n), int(B)


def _pre(case):
    """(prestim_time in seconds, the whole samples it amounts to in round((t0 - prestim)*fs))"""
    if not case.get('pre'):
        return 0, 0
    fs = case['fs']
    pre = (case['pre'][0] + case['pre'][1]) / fs
    t0 = (_shift(case) + case['j'] + 50) / fs
    return pre, int(round(t0 * fs)) - int(round((t0 - pre) * fs))


def _mkchunk(case, data, s0):
    from psiaudio.pipeline import PipelineData
    kind = case.get('chunk', 'plain')
    if kind == 'int':
        data = data.astype(np.int64)
    if kind in ('2ch', 'pdata2ch'):
        data = np.stack([data, data])
    if kind.startswith('pdata'):
        data = PipelineData(data, fs=case['fs'], s0=s0, channel=(['a', 'b'] if kind == 'pdata2ch' else None),
                            metadata={'src': 'acq'})
    return data


def impl(case):
    import logging
    from collections import deque
    from threading import Event
    from psiaudio.pipeline import extract_epochs, PipelineData
    logging.getLogger('psiaudio.pipeline').setLevel(logging.ERROR)
    fs, j, SH, S = case['fs'], case['j'], _shift(case), case.get('S', 0)
    if case['pol'] == 'random':
        np.random.seed(case.get('seed', 0))
    q, keys = _queue(case)
    kidx = {k: i for i, k in enumerate(keys)}
    added, removed, notes, fired = deque(), deque(), [], []

    def clock():
        return j + int(round(q.get_ts() * fs)) - S

    def on_added(info):
        added.append(info)
        notes.append(['added', kidx.get(info['key'], -1), info['t0'], clock()])

    def on_removed(info):
        removed.append(info)
        notes.append(['removed', kidx.get(info['key'], -1), info['t0']])
    q.connect(on_added, 'added')
    q.connect(on_removed, 'removed')
    esize, post, n, B = _times(case)
    pre, _ = _pre(case)
    got, sends = [], []
    kw = {}
    if case.get('rq', True):
        kw['removed_queue'] = removed
    if not case.get('post_omit'):
        kw['poststim_time'] = post
    if case.get('pre'):
        kw['prestim_time'] = pre
    ev = None
    if case.get('sc'):
        ev = Event()
        if case['sc'] == 1:
            ev.set()
        kw['source_complete'] = ev
        kw['empty_queue_cb'] = lambda: fired.append(len(sends))
    ex = extract_epochs(fs=_fs(case), queue=added, epoch_size=(None if case['esize'] is None else esize),
                        buffer_size=(case['B'] + case.get('boff', 0.0)) / fs, target=got.append, **kw)
    pos = 0
    while pos < SH:                             # the acquisition ran for D (+S) samples before the queue got here
        m = min(1 << 20, SH - pos)
        ex.send(_mkchunk(case, np.zeros(m), pos))
        pos += m
    del got[:]
    P = np.zeros(0)                             # the device buffer, position 0 = acquisition sample D (+S)
    acq = 0
    conv, extra = [], []
    last_acq = max([i for i, s in enumerate(case['steps']) if s[0] == 'acq'], default=-1)
    for si, s in enumerate(case['steps']):
        if s[0] in ('pop', 'popdry'):
            c = clock()
            k = s[1] + (s[2] if s[0] == 'popdry' else 0)
            w = q.pop_buffer(np.int64(k) if case.get('npint') else k)
            wf = np.asarray(w, dtype=float)
            if c > len(P):
                P = np.concatenate([P, np.zeros(c - len(P))])
            P = np.concatenate([P[:c], wf, P[c + len(wf):]])
            if case.get('scribble', len(case['steps']) % 2 == 0):
                w[...] = -777.0                 # the caller owns what pop_buffer returned
        elif s[0] == 'append':
            new = _fill(case, q, case['stims'][case['late']:], case['late'])
            for k in new:
                kidx[k] = len(kidx)
        elif s[0] == 'pause':
            if s[1] is None:
                q.pause()
            else:
                t = _t(case, s[1])
                q.pause(t)
                cut = (int(round(t * fs)) - SH) if not case.get('toff') else clock()
                conv.append(['pause', cut, clock()])
                P = P[:max(cut, 0)]
        elif s[0] == 'resume':
            if s[1] is None:
                q.resume()
            else:
                t = _t(case, s[1])
                q.resume(t)
                if not case.get('toff'):
                    conv.append(['resume', int(round(t * fs)) - SH, clock()])
        else:
            m = s[1]
            chunk = P[acq:acq + m]
            if len(chunk) != m:
                return {'bad_schedule': f'acquisition of [{acq},{acq + m}) but only {len(P)} samples were generated'}
            del got[:]
            notes.append(['send', len(sends)])
            if ev is not None and case['sc'] == 2 and si == last_acq:
                ev.set()
            data = _mkchunk(case, chunk.copy(), SH + acq)
            try:
                ex.send(data)
            except ValueError as e:
                sends.append({'raised': 'ValueError', 'message': str(e)[:120]})
                break
            if case.get('reuse'):
                # a driver that overwrites its buffer after the send (extract_epochs keeps views of the chunks it was
                # sent: candidate finding REUSE_KEY, not generated by cases())
                np.asarray(data)[...] = -555
            rows = []
            for blk in got:
                a = np.asarray(blk)
                for r in range(a.shape[0]):
                    row = a[r] if a.ndim == 2 else a[r, 0]
                    rows.append([float(v) for v in row])
                    if a.ndim == 3 and a.shape[1] == 2 and not np.array_equal(a[r, 0], a[r, 1]):
                        extra.append('channel 1 of a delivered epoch differs from channel 0')
                    if a.ndim == 3 and a.shape[1] != (2 if '2ch' in case.get('chunk', '') else 1):
                        extra.append(f'epoch with {a.shape[1]} channels')
                if case.get('chunk') == 'int' and not np.issubdtype(a.dtype, np.integer):
                    extra.append(f'integer acquisition delivered as {a.dtype}')
                if isinstance(blk, PipelineData):
                    extra.append(['pd', len(sends), int(blk.s0) - SH, [m.get('stim') for m in blk.metadata],
                                  float(blk.fs)])
                elif case.get('chunk', 'plain').startswith('pdata'):
                    extra.append('PipelineData acquisition delivered as a plain array')
            if len(got) > 1:
                extra.append('target called more than once in one send')
            sends.append(rows)
            acq += m
    return {'P': [float(v) for v in P], 'notes': notes, 'sends': sends, 'conv': conv, 'acq': acq, 'extra': extra,
            'fired': fired, 'empty': bool(q.is_empty()), 'ts': clock()}


# ---------------------------------------------------------------------------------------------------
def _pol(case):
    n = len(case['stims'])
    return {'fifo': 'PFifo', 'inter_keep': '(PInter true)', 'inter_nokeep': '(PInter false)', 'random': 'PRandom',
            'blocked_random': 'PBlockedRandom', 'grouped': f"(PGrouped {zlit(case.get('gs', 0))})",
            'blocked_fifo': f'(PGrouped {n})'}[case['pol']]


def _theorem_case(case):
    """is the case inside what C06_end_to_end quantifies over (else only the correspondence and the oracle speak)"""
    return not (case.get('pre') or any('delays' in st for st in case['stims']))


def expr(case, res):
    if 'bad_schedule' in res:
        raise RuntimeError(res['bad_schedule'])
    fs = case['fs']
    es = []
    for st in case['stims']:
        ln = _slen(case, st)
        if st.get('nodelay'):
            d, cyc = [0], True
        elif 'delays' in st:
            d, cyc = [int(round(((a + o) / fs) * fs)) for a, o in st['delays']], False
        else:
            d, cyc = [int(round(_delay(st, fs) * fs))], True
        es.append(f"(mk_entry {zlit(st['trials'])} {zlit(ln)} {'KArray' if st['kind'] == 'array' else 'KGen'} {zlist(d)} "
                  f"{'true' if cyc else 'false'})")
    choices = [e[1] for e in res['notes'] if e[0] == 'added'] if case['pol'] == 'random' else []
    nblocks = max(120, 2 * sum(st['trials'] for st in case['stims']) // len(case['stims']) + 20)
    perms = qc.blocked_perms(case.get('seed', 0), len(case['stims']), nblocks) if case['pol'] == 'blocked_random' else []
    steps = [f"SQ (Resume (Some {zlit(case['j'])}))"]
    for s in case['steps']:
        if s[0] == 'pop':
            steps.append(f'SQ (Pop {zlit(s[1])})')
        elif s[0] == 'popdry':
            # the early stimuli are exhausted after s[1] samples; the rest of the request is the silence of an empty
            # queue, which the model (all stimuli present from the start) generates as a pause without a time
            steps += [f'SQ (Pop {zlit(s[1])})', 'SQ (Pause None)', f'SQ (Pop {zlit(s[2])})', 'SQ (Resume None)']
        elif s[0] == 'append':
            pass
        elif s[0] == 'acq':
            steps.append(f'SA {zlit(s[1])}')
        else:
            a = 'None' if s[1] is None else f'(Some {zlit(_eff(case, s[1]))})'
            steps.append(f"SQ ({'Pause' if s[0] == 'pause' else 'Resume'} {a})")
    _, _, n, B = _times(case)
    kind = case.get('chunk', 'plain')
    return (f"c06_runk {'true' if kind.startswith('pdata') else 'false'} {'true' if '2ch' in kind else 'false'} "
            f"{_pol(case)} {listlit(es)} {zlist(choices)} {listlit([zlist(p) for p in perms])} "
            f"{zlit(B)} {zlit(n)} {zlit(_pre(case)[1])} {listlit(steps)}")


def _decode(mo):
    pos = 0

    def take(k=None):
        nonlocal pos
        if k is None:
            v = mo[pos]
            pos += 1
            return v
        v = mo[pos:pos + k]
        pos += k
        return v
    if take() == 0:
        return {'raised': True}
    out = {'wf': take(), 'fits': take()}
    out['P'] = take(take())
    out['live'] = [tuple(take(2)) for _ in range(take())]
    sends = []
    for _ in range(take()):
        code = take()
        if code:
            sends.append({'raised': code})
            continue
        items = []
        for _ in range(take()):
            rid, s0, missed, ln = take(4)
            items.append({'k': rid, 's0': s0, 'missed': missed, 'data': take(ln)})
        sends.append(items)
    out['sends'] = sends
    return out


def _waves(case):
    return [_wave(case, st, k) for k, st in enumerate(case['stims'])]


def _sample(waves, code):
    if code == 0:
        return 0.0
    k, i = (code - 1) % 64, (code - 1) // 64
    return float(waves[k][i])


def _live(res):
    live = []
    for e in res['notes']:
        if e[0] == 'added':
            live.append((e[1], e[2]))
        elif e[0] == 'removed':
            if (e[1], e[2]) not in live:
                return None
            live.remove((e[1], e[2]))
    return live


def agree(case, res, mo):
    try:
        d = _decode(mo)
    except Exception as e:
        return f'cannot decode model output ({e})'
    if d.get('raised'):
        return 'model: the queue raises on this history'
    if not d['wf'] and _theorem_case(case):
        return 'the schedule is outside the ones the theorem covers (wf_steps false): generator bug'
    waves = _waves(case)
    fs = case['fs']
    want = [_sample(waves, c) for c in d['P']]
    if len(want) != len(res['P']):
        return f'played stream has {len(res["P"])} samples, model {len(want)}'
    for i, (a, b) in enumerate(zip(res['P'], want)):
        if a != b:
            return f'played stream sample {i} is {a!r}, model {b!r}'
    live = _live(res)
    if live is None:
        return 'a removed notification names a trial that is not outstanding'
    got_live = [(k, int(round(t0 * fs)) - _shift(case)) for k, t0 in live]
    if got_live != d['live']:
        return f'kept trials {got_live} vs model {d["live"]}'
    if len(res['sends']) != len(d['sends']):
        return f'{len(res["sends"])} sends vs model {len(d["sends"])}'
    pds = {x[1]: x for x in res['extra'] if isinstance(x, list)}
    for i, (a, b) in enumerate(zip(res['sends'], d['sends'])):
        if isinstance(a, dict) or isinstance(b, dict):
            if isinstance(a, dict) != isinstance(b, dict):
                return f'send {i}: implementation {a if isinstance(a, dict) else "ok"}, model {b if isinstance(b, dict) else "ok"}'
            continue
        if len(a) != len(b):
            return f'send {i}: {len(a)} epochs delivered, model {len(b)}'
        for e, it in zip(a, b):
            if it['missed']:
                return f'send {i}: model delivers a missed (empty) epoch'
            w = [_sample(waves, c) for c in it['data']]
            if e != w:
                return f'send {i}: epoch of stimulus {it["k"]} at sample {it["s0"]} is {e[:8]}..., model {w[:8]}...'
        if b and i in pds:
            if pds[i][2] != b[0]['s0']:
                return f'send {i}: delivered PipelineData has s0 {pds[i][2]}, model {b[0]["s0"]}'
            if pds[i][3] != [it['k'] for it in b]:
                return f'send {i}: epochs carry the metadata of stimuli {pds[i][3]}, model {[it["k"] for it in b]}'
    return None


def _untimed(case):
    return any(s[0] == 'pause' and s[1] is None for s in case['steps'])


def key(case, res):
    if case.get('reuse'):
        return REUSE_KEY
    return KNOWN_KEY if _untimed(case) else None


def oracle(case, res):
    """C06 on the implementation alone."""
    if 'bad_schedule' in res:
        return None
    fs, D = case['fs'], _shift(case)
    waves = _waves(case)
    _, _, n, _ = _times(case)
    _, pre_n = _pre(case)
    # the two sides convert seconds <-> samples identically
    for e in res['notes']:
        if e[0] == 'added' and int(round(e[2] * fs)) - D != e[3]:
            return (f'trial of stimulus {e[1]} set up at queue sample {e[3] + D} is notified as t0={e[2]!r}, which the extractor '
                    f'reads as sample {int(round(e[2] * fs))}')
    for kind, dev, qclk in res['conv']:
        if dev != qclk:
            return f'{kind} time: the device reads sample {dev + D}, the queue clock is {qclk + D}'
    if any(isinstance(s, dict) for s in res['sends']):
        bad = [s for s in res['sends'] if isinstance(s, dict)][0]
        return f'extractor.send raised {bad["raised"]}: {bad["message"]}'
    for x in res.get('extra', []):
        if isinstance(x, str):
            return x
        if x[4] != fs:
            return f'delivered epochs have fs {x[4]}'
    # which trials were kept, in order; which notifications each send had seen
    live = []
    per_send = []
    allnotes = res['notes']
    for e in allnotes:
        if e[0] == 'added':
            live.append((e[1], e[2]))
        elif e[0] == 'removed':
            if (e[1], e[2]) not in live:
                return f'removed notification for a trial that is not outstanding: stimulus {e[1]} t0={e[2]!r}'
            live.remove((e[1], e[2]))
        else:
            per_send.append(list(live))
    delivered = [e for s in res['sends'] for e in s]
    # expected: one epoch per trial outstanding at the last send whose window was acquired, in order
    last = per_send[-1] if per_send else []
    exp = []
    for k, t0 in last:
        lo = int(round((t0 - _pre(case)[0]) * fs)) - D
        if lo + n <= res['acq']:
            exp.append((k, lo, int(round(t0 * fs)) - D))
    if len(delivered) != len(exp):
        return f'{len(delivered)} epochs delivered, but {len(exp)} kept trials have their window inside the acquired stream'
    added = [(e[1], int(round(e[2] * fs)) - D) for e in allnotes if e[0] == 'added']
    for ep, (k, lo, ts) in zip(delivered, exp):
        w = waves[k]
        if len(ep) != n:
            return f'epoch of {len(ep)} samples, expected {n}'
        if ts - lo != pre_n:
            return f'epoch for stimulus {k} starts {ts - lo} samples before the trial, prestim_time is {pre_n} samples'
        if pre_n and ep[:pre_n] != res['P'][lo:lo + pre_n]:
            return f'epoch for stimulus {k} at sample {ts + D}: pre-stimulus part is not what was played before the trial'
        body = ep[pre_n:pre_n + len(w)]
        if body != [float(v) for v in w]:
            i = next(i for i, (a, b) in enumerate(zip(body, w)) if a != b)
            return f'epoch for stimulus {k} at sample {ts + D}: sample {i} is {body[i]!r}, the waveform has {float(w[i])!r}'
        fits = all((t + len(waves[kk]) <= ts + len(w)) or (lo + n <= t) for kk, t in added)
        if fits and any(v != 0.0 for v in ep[pre_n + len(w):]):
            return f'epoch for stimulus {k} at sample {ts + D}: post-stimulus part is not silent'
    pds = [x for x in res.get('extra', []) if isinstance(x, list)]
    flat = [k for x in pds for k in x[3]]
    if pds and flat != [k for k, _, _ in exp]:
        return f'epochs carry the metadata of stimuli {flat}, the kept trials are {[k for k, _, _ in exp]}'
    if case.get('sc'):
        if len(res['fired']) > 1:
            return 'empty_queue_cb called more than once'
        nsend = len(res['sends'])
        if case['sc'] == 2 and res['fired'] and res['fired'][0] < nsend - 1:
            return 'empty_queue_cb called before source_complete was set'
    return None


def nontrivial(case, res):
    if 'notes' not in res:
        return False
    if any(e[0] == 'removed' for e in res['notes']):
        return True
    return sum(1 for s in res['sends'] if not isinstance(s, dict) and s) >= 2


def distribution(cases, results):
    d = {}
    for c, r in zip(cases, results):
        k = f"{c['pol']}@{c['fs']:.6g}"
        e = d.setdefault(k, {'cases': 0, 'with_cancellation': 0, 'readd_same_t0': 0, 'epochs': 0})
        e['cases'] += 1
        if 'notes' in r:
            e['with_cancellation'] += int(any(x[0] == 'removed' for x in r['notes']))
            ad = [(x[1], x[2]) for x in r['notes'] if x[0] == 'added']
            e['readd_same_t0'] += int(len(ad) != len(set(ad)))
            e['epochs'] += sum(len(s) for s in r['sends'] if not isinstance(s, dict))
    return d


# the recorded finding, replayed every run once it is listed in known_findings.txt
KNOWN_WITNESSES = {
    KNOWN_KEY: {'pol': 'fifo', 'fs': 1000.0, 'D': 0, 'j': 0, 'seed': 0, 'gs': 1, 'B': 0,
                'stims': [{'kind': 'array', 'len': 4, 'trials': 1, 'delay': 3}],
                'esize': [4, 0.0], 'post': [2, 0.0],
                'steps': [['pop', 2], ['pause', None], ['pop', 2], ['resume', None], ['pop', 10], ['acq', 14]]},
    REUSE_KEY: {'pol': 'fifo', 'fs': 1000.0, 'D': 0, 'j': 0, 'seed': 0, 'gs': 1, 'B': 0, 'reuse': True,
                'stims': [{'kind': 'array', 'len': 4, 'trials': 1, 'delay': 3}],
                'esize': [4, 0.0], 'post': [2, 0.0],
                'steps': [['pop', 14], ['acq', 2], ['acq', 12]]}}


# ---------------------------------------------------------------------------------------------------
def _chunks(total, mode, rng, marks=()):
    """split `total` into chunk sizes"""
    out = []
    if mode == 'one':
        out = [total] if total else []
    elif mode == 'ones':
        out = [1] * total
    elif mode == 'marks':          # chunks ending exactly at the given positions
        pos = 0
        for m in sorted(set(x for x in marks if 0 < x < total)) + [total]:
            out.append(m - pos)
            pos = m
    elif mode == 'few':
        left = total
        while left > 0:
            c = min(left, rng.choice([150, 400, 1000]))
            out.append(c)
            left -= c
    else:
        left = total
        while left > 0:
            c = min(left, rng.choice([1, 2, 3, 5, 8, 13, 40]))
            out.append(c)
            left -= c
    return [c for c in out if c > 0]


def _finish(steps, clock, plen, acq, total, rng, mode='ragged'):
    """generate the rest of the queue and acquire everything"""
    steps.append(['pop', total])
    end = clock + total                      # only what lies below the queue clock may be acquired
    for c in _chunks(max(end - acq, 0), mode, rng):
        steps.append(['acq', c])
    return steps


def _stims(rng, fs, nst, kinds=('array', 'gen', 'cos2'), maxlen=9):
    st = []
    for _ in range(nst):
        k = rng.choice(kinds)
        ln = rng.randint(1 if k != 'cos2' else 4, maxlen)
        st.append({'kind': k, 'len': ln, 'off': rng.choice(OFFS) if k == 'cos2' or rng.random() < 0.4 else 0.0,
                   'explicit': k == 'array' and rng.random() < 0.4, 'trials': rng.randint(1, 3),
                   'delay': 0, 'doff': rng.choice(OFFS)})
    return st


def _fit_delays(st, n, rng, slack=(0, 1, 4)):
    for s in st:
        s['delay'] = max(n - s['len'], 0) + rng.choice(slack)
        if s['delay'] == 0 and s['doff'] < 0:
            s['doff'] = -s['doff']


def _base(rng, pol, fs, st, n_extra, quick):
    maxlen = max(s['len'] for s in st)
    n = maxlen + n_extra
    esz = rng.randint(maxlen, n)
    return {'pol': pol, 'gs': rng.randint(1, len(st) + 1), 'seed': rng.randint(0, 40), 'fs': fs,
            'D': rng.choice([0, 0, rng.randint(100000, 400000 if quick else 2000000)]), 'j': rng.choice([0, 0, 3, 17, 40]),
            'B': rng.choice([0, 0, 7]), 'stims': st,
            'esize': [esz, rng.choice(OFFS) if esz > maxlen else abs(rng.choice(OFFS))],
            'post': [n - esz, 0.0] if n == esz else [n - esz, rng.choice(OFFS)], '_n': n}


def _total(st, n):
    return sum(s['trials'] * (s['len'] + s['delay'] + 1) for s in st) * len(st) + n + 6


def _fix_n(c):
    """make round((esize + post)*fs) equal to the intended n whatever the offsets do"""
    n = c.pop('_n')
    for _ in range(8):
        got = _times(c)[2]
        if got == n:
            return c
        c['post'] = [c['post'][0] + (n - got), 0.0]
    c['esize'], c['post'] = [c['esize'][0], 0.0], [n - c['esize'][0], 0.0]
    return c


def cases(tier, rng):
    quick = tier == 'quick'
    # (1) no pause: policy x rate x generation chunking x acquisition chunking
    for pol in qc.POLICIES:
        for fs in (FS if not quick else [rng.choice(FS), rng.choice(FS)]):
            for gmode in ('one', 'ones', 'ragged'):
                for amode in ('one', 'ones', 'ragged', 'marks'):
                    if quick and rng.random() < 0.5:
                        continue
                    st = _stims(rng, fs, rng.randint(1, 3))
                    c = _fix_n(_base(rng, pol, fs, st, rng.randint(0, 5), quick))
                    n = _times(c)[2]
                    _fit_delays(st, n, rng)
                    total = _total(st, n)
                    steps = [['pop', k] for k in _chunks(total, gmode, rng)]
                    marks = [c['j'] + i * 3 for i in range(total)]
                    for k in _chunks(c['j'] + total, amode, rng, marks):
                        steps.append(['acq', k])
                    if gmode == 'ragged' and amode == 'ragged':      # interleave generation and acquisition
                        steps, clock, acq = [], c['j'], 0
                        while clock < c['j'] + total:
                            k = min(rng.choice([1, 4, 9, 30]), c['j'] + total - clock)
                            steps.append(['pop', k])
                            clock += k
                            if rng.random() < 0.7:
                                m = rng.randint(0, clock - acq)
                                if m:
                                    steps.append(['acq', m])
                                    acq += m
                        if clock > acq:
                            steps.append(['acq', clock - acq])
                    yield dict(c, steps=steps)
    # (2) one timed pause at every position of a window covering two trials
    for fs in (FS if not quick else FS[2:5]):
        for pol in (qc.POLICIES if not quick else ['fifo', 'inter_nokeep', 'grouped']):
            st = [{'kind': 'array', 'len': 3, 'off': 0.0, 'trials': 2, 'delay': 0, 'doff': 0.3},
                  {'kind': 'cos2', 'len': 5, 'off': -0.27, 'trials': 1, 'delay': 0, 'doff': -0.08}]
            base = {'pol': pol, 'gs': 2, 'seed': 5, 'fs': fs, 'D': 0 if pol != 'fifo' else 123457, 'j': 3 if pol == 'fifo' else 0,
                    'B': 0, 'stims': st, 'esize': [5, 0.12], 'post': [2, -0.08]}
            n = _times(base)[2]
            _fit_delays(st, n, rng, slack=(1,))
            total = _total(st, n)
            a = 2 * n + 3                                   # generated before the pause
            for t in range(0, a + 1):
                for off in ([0.0, 0.3, -0.4] if not quick else [rng.choice([0.0, 0.3, -0.4])]):
                    if t == 0 and off < 0:
                        continue
                    for lag in (0, 4):                      # acquisition up to the pause point, or lagging behind
                        for gap in (0, 2, n + 2):           # resume at the pause time / a little later / after the window
                            if quick and rng.random() < 0.45:
                                continue
                            j = base['j']
                            acq = max(0, j + t - lag)
                            steps = [['pop', a]]
                            if acq:
                                steps.append(['acq', acq])
                            steps += [['pause', [t, off]], ['pop', 2], ['resume', [t + gap, off if gap else off]]]
                            clock, plen = j + t + gap, max(j + t + 2, 0)
                            yield dict(base, steps=_finish(steps, clock, plen, acq, total, rng))
    # (3) seeded random schedules
    for _ in range(260 if quick else 6000):
        fs = rng.choice(FS)
        st = _stims(rng, fs, rng.randint(1, 3))
        c = _fix_n(_base(rng, rng.choice(qc.POLICIES), fs, st, rng.randint(0, 6), quick))
        n = _times(c)[2]
        _fit_delays(st, n, rng, slack=(0, 0, 2, 7))
        total = _total(st, n)
        j = c['j']
        steps, clock, plen, acq, paused = [], j, 0, 0, None
        for _ in range(rng.randint(2, 14)):
            u = rng.random()
            if u < 0.45:
                k = rng.randint(1, 25)
                steps.append(['pop', k])
                plen = max(plen, clock + k)
                clock += k
            elif u < 0.75:
                room = min(clock, plen) - acq
                if room > 0:
                    m = rng.randint(1, room)
                    steps.append(['acq', m])
                    acq += m
            elif paused is None:
                if clock - j < 1:
                    continue
                t = rng.randint(max(acq, j, clock - 20), clock) - j
                off = rng.choice(OFFS[:5])
                if t == 0 and off < 0 or (t + j == clock and off > 0) or (t + j == acq and off < 0):
                    off = 0.0
                steps.append(['pause', [t, off]])
                clock = j + t
                plen = min(plen, clock)
                paused = t
            else:
                x = rng.choice([paused, paused, paused + 1, clock - j, clock - j + 3, paused + n + 1])
                x = max(x, acq - j)
                steps.append(['resume', [x, 0.0]] if rng.random() < 0.8 or x != clock - j else ['resume', None])
                if steps[-1][1] is not None:
                    clock = j + x
                paused = None
        if paused is not None:
            steps.append(['resume', [max(paused, clock - j), 0.0]])
            clock = j + max(paused, clock - j)
        yield dict(c, steps=_finish(steps, clock, plen, acq, total, rng, mode=rng.choice(['ragged', 'one', 'ones'])))

    # (4) coverage audit: options of the queue, of the extractor and of the acquisition driver
    yield from _audit_cases(quick, rng)
    yield from _start_cases(quick, rng)
    # (5) long logs: hundreds of very short trials generated far ahead of the acquisition, then an early pause
    for pol in (['fifo', 'inter_keep', 'inter_nokeep', 'blocked_random', 'grouped'] if quick else qc.POLICIES + qc.POLICIES):
        fs = rng.choice(FS)
        nst = rng.randint(1, 2)
        per = rng.randint(300, 600) // nst
        st = [{'kind': rng.choice(['array', 'gen']), 'len': rng.randint(1, 3), 'off': 0.0, 'explicit': False, 'trials': per,
               'delay': rng.randint(0, 2), 'doff': rng.choice(OFFS[:3])} for _ in range(nst)]
        for x in st:
            if x['delay'] == 0:
                x['doff'] = abs(x['doff'])
        n = max(x['len'] for x in st)
        c = {'pol': pol, 'gs': rng.randint(1, nst), 'seed': rng.randint(0, 40), 'fs': fs, 'D': rng.choice([0, 70000]),
             'j': rng.choice([0, 3]), 'B': 0, 'stims': st, 'esize': [n, 0.0], 'post': [0, 0.0]}
        span = sum(x['trials'] * (x['len'] + x['delay']) for x in st)
        ahead = span - rng.randint(0, 20)                       # (almost) everything generated before the pause
        t = rng.randint(4, 40)                                  # early pause: > 256 logged trials end after it
        acq = c['j'] + rng.randint(0, t)
        steps = [['pop', k] for k in _chunks(ahead, rng.choice(['one', 'few']), rng)]
        steps += [['acq', acq], ['pause', [t, rng.choice([0.0, 0.3])]], ['pop', 2], ['resume', [t + rng.choice([0, 2, n + 1]), 0.0]]]
        clock = c['j'] + steps[-1][1][0]
        steps.append(['pop', span + 10])
        left = clock + span + 10 - acq
        for k in _chunks(left, rng.choice(['one', 'few']), rng):
            steps.append(['acq', k])
        yield dict(c, steps=steps)


def _start_cases(quick, rng):
    """(6) Cos2 stimuli whose envelope starts late, start_time and duration both off the grid (fractions that carry and that
    do not), every generation chunking so that requests begin inside the falling ramp; no pause (the declared duration
    start_time + duration may round to one sample more or less than the waveform has)"""
    pairs = [(0.45, 0.3), (0.3, 0.45), (-0.4, -0.27), (-0.27, -0.4), (0.499, 0.12), (0.3, -0.4), (0.12, 0.12), (0.0, 0.45),
             (0.45, 0.0), (-0.08, -0.45)]
    for fs in FS:
        for gm in ('one', 'ones', 'ragged'):
            for rep_ in range(2 if quick else 8):
                nst = rng.randint(1, 2)
                st = []
                for _ in range(nst):
                    a = rng.randint(0, 6)
                    fr, off = rng.choice(pairs)
                    if a == 0 and fr < 0:
                        fr, off = -fr, -off
                    st.append({'kind': 'cos2', 'len': a + rng.randint(4, 9), 'start': [a, fr], 'off': off, 'explicit': False,
                               'trials': 2, 'delay': 0, 'doff': rng.choice(OFFS)})
                c = _fix_n(_base(rng, rng.choice(['fifo', 'inter_nokeep', 'grouped']), fs, st, rng.randint(0, 3), quick))
                c['D'] = 0
                n = _times(c)[2]
                _fit_delays(st, n, rng)
                total = _total(st, n)
                steps = [['pop', k] for k in _chunks(total, gm, rng)]
                for k in _chunks(c['j'] + total, rng.choice(['ragged', 'one']), rng):
                    steps.append(['acq', k])
                yield dict(c, steps=steps)
    # realistic size: 0.1 ms start, 5 ms tone pip (19.53 + 976.56 samples at 195312.5 Hz: 20 + 977, the sum rounds to 996)
    for fs in [195312.5, 97656.25] + ([] if quick else [48828.125, 44.1e3]):
        for gm in ('ragged', 'few'):
            a, fr = int(round(1e-4 * fs)), 1e-4 * fs - int(round(1e-4 * fs))
            d, off = int(round(5e-3 * fs)), 5e-3 * fs - int(round(5e-3 * fs))
            st = [{'kind': 'cos2', 'len': a + d, 'start': [a, fr], 'off': off, 'explicit': False, 'trials': 2, 'delay': 3,
                   'doff': 0.3}]
            c = {'pol': 'fifo', 'gs': 1, 'seed': 0, 'fs': fs, 'D': 0, 'j': 3, 'B': 0, 'stims': st, 'esize': [a + d, 0.0],
                 'post': [2, 0.3]}
            total = 2 * (a + d + 3) + 10
            steps = [['pop', k] for k in _chunks(total, gm, rng)] + [['acq', k] for k in _chunks(3 + total, 'few', rng)]
            yield dict(c, steps=steps)


def _fifo_timeline(case):
    """(stimulus, start, len, delay) of every trial of a FIFO queue that is never paused; device samples"""
    fs, out, c = case['fs'], [], case['j']
    for k, st in enumerate(case['stims']):
        for i in range(st['trials']):
            if st.get('nodelay'):
                d = 0
            elif 'delays' in st:
                d = int(round(((st['delays'][i][0] + st['delays'][i][1]) / fs) * fs))
            else:
                d = int(round(_delay(st, fs) * fs))
            out.append((k, c, st['len'], d))
            c += st['len'] + d
    return out, c


def _opt_case(rng, quick, pol, fs, same=False, kinds=('array', 'gen', 'cos2'), pre=None, nst=None):
    nst = nst or rng.randint(1, 3)
    st = _stims(rng, fs, nst, kinds=kinds)
    if same:                                    # one epoch length when epoch_size=None: same duration everywhere
        for x in st[1:]:
            x.update(len=st[0]['len'], off=st[0]['off'] if st[0]['kind'] == 'cos2' or st[0].get('explicit') else 0.0)
            if x['kind'] == 'cos2' and x['len'] < 4:
                x['kind'] = 'gen'
            if st[0]['kind'] == 'cos2' or st[0].get('explicit'):
                x['off'] = st[0]['off']
                if x['kind'] == 'array':
                    x['explicit'] = True
                elif x['kind'] == 'gen':
                    x['kind'], x['explicit'] = 'array', True
            else:
                if x['kind'] == 'cos2':
                    x['kind'] = 'gen'
                x['explicit'], x['off'] = False, 0.0
        if st[0]['kind'] == 'gen' or (st[0]['kind'] == 'array' and not st[0].get('explicit')):
            st[0]['off'] = 0.0
    c = _base(rng, pol, fs, st, rng.randint(0, 5), quick)
    if pre is not None:
        c['pre'] = pre
        c['_n'] += pre[0]
        c['j'] = pre[0] + rng.choice([0, 1, 5])
    if same:
        c['esize'] = None
        c['post'] = [c['_n'] - st[0]['len'] - (pre[0] if pre else 0), rng.choice(OFFS[:5])]
    c = _fix_n(c)
    n = _times(c)[2] - (pre[0] if pre else 0)
    _fit_delays(st, n, rng)
    return c, st, n


def _fix_n(c):          # (redefined: also for epoch_size=None and prestim)
    n = c.pop('_n')
    for _ in range(8):
        got = _times(c)[2]
        if got == n:
            return c
        c['post'] = [c['post'][0] + (n - got), 0.0]
    if c['esize'] is not None:
        c['esize'] = [c['esize'][0], 0.0]
    c['post'] = [c['post'][0], 0.0]
    return c


def _audit_cases(quick, rng):
    INT_FS = [25e3, 44.1e3]
    # (4a) option matrix on runs without pause
    flags = [dict(fill='extend'), dict(t0_late=True), dict(fs_late=True), dict(toff=0.3), dict(toff=-0.4),
             dict(post_omit=True), dict(boff=0.45, B=3), dict(rq=False), dict(sc=1), dict(sc=2), dict(chunk='pdata'),
             dict(chunk='2ch'), dict(chunk='pdata2ch'), dict(chunk='int', intwave=True), dict(scribble=True),
             dict(npint=True), dict(fsint=True), dict(dlist=True), dict(nodelay=True), dict(esnone=True),
             dict(fill='extend', dlist=True, chunk='pdata', t0_late=True, toff=0.12),
             dict(fill='extend', esnone=True, chunk='pdata2ch', sc=2, npint=True),
             dict(fs_late=True, fsint=True, chunk='int', intwave=True, rq=False, post_omit=True)]
    for fl in flags:
        for pol in (qc.POLICIES if not quick else rng.sample(qc.POLICIES, 4)):
            f2 = dict(fl)
            fs = rng.choice(INT_FS) if f2.get('fsint') else rng.choice(FS)
            kinds = ('array', 'gen') if f2.get('intwave') else ('array', 'gen', 'cos2')
            c, st, n = _opt_case(rng, quick, pol, fs, same=bool(f2.pop('esnone', False)), kinds=kinds)
            if f2.pop('dlist', False):
                # one delay per presentation: the keep-completed policies present EVERY stimulus until the one with
                # the most trials is done, so the finite lists are as long as the largest trial count (+1 look-ahead);
                # a list that runs out is a caller error (StopIteration), not an input of the property
                most = max(y['trials'] for y in st)
                for x in st:
                    x['delays'] = [[x['delay'] + rng.choice([0, 1, 3]), rng.choice(OFFS)] for _ in range(most + 1)]
                    if x['delays'][0][0] == 0:
                        x['delays'][0][1] = abs(x['delays'][0][1])
            if f2.pop('nodelay', False):
                for x in st:
                    x['nodelay'] = True
            if 'B' in f2:
                c['B'] = f2.pop('B')
            if f2.get('post_omit'):
                c['post'] = [0, 0.0]
                if c['esize'] is not None:
                    c['esize'] = [n, c['esize'][1] if abs(c['esize'][1]) < 0.45 else 0.0]
            c.update(f2)
            n = _times(c)[2]
            if any(x['len'] > n for x in st):
                continue
            total = sum(x['trials'] * (x['len'] + max([x.get('delay', 0)] + [d for d, _ in x.get('delays', [])]) + 1)
                        for x in st) * len(st) + n + 6
            gm, am = rng.choice(['one', 'ones', 'ragged']), rng.choice(['one', 'ones', 'ragged', 'marks', 'zeros'])
            steps = [['pop', k] for k in _chunks(total, gm, rng)]
            tl, _ = _fifo_timeline(c)
            marks = sorted(set([a for _, a, _, _ in tl] + [a + ln for _, a, ln, _ in tl] + [a + n for _, a, _, _ in tl]))
            end = c['j'] + total
            if am == 'zeros':
                for k in _chunks(end, 'ragged', rng):
                    steps += [['acq', 0], ['acq', k]]
                steps.append(['acq', 0])
            else:
                for k in _chunks(end, am, rng, marks):
                    steps.append(['acq', k])
            yield dict(c, steps=steps)
    # (4b) prestim_time != 0, on and off the grid; with and without pauses; with and without look-back
    for pre in ([2, 0.0], [3, 0.3], [1, -0.4], [4, 0.45]):
        for pol in (qc.POLICIES if not quick else rng.sample(qc.POLICIES, 3)):
            for mode in ('lag', 'buffered', 'pause'):
                fs = rng.choice(FS)
                c, st, n = _opt_case(rng, quick, pol, fs, pre=pre, same=rng.random() < 0.25)
                c['chunk'] = rng.choice(['plain', 'plain', 'pdata', '2ch'])
                for x in st:                      # keep the pre-stimulus window of the next trial out of this one's epoch
                    x['delay'] += pre[0]
                total = _total(st, n + pre[0]) + 4
                j = c['j']
                if mode == 'lag':
                    c['B'] = 0
                    steps = [['pop', k] for k in _chunks(total, 'ragged', rng)] + \
                            [['acq', k] for k in _chunks(j + total, rng.choice(['ragged', 'ones', 'one']), rng)]
                elif mode == 'buffered':
                    c['B'], c['boff'] = pre[0] + 1, rng.choice([0.0, 0.3])
                    steps, clock, acq = [], j, 0
                    while clock < j + total:
                        k = min(rng.choice([1, 4, 9, 30]), j + total - clock)
                        steps.append(['pop', k])
                        clock += k
                        m = rng.randint(0, clock - acq)
                        steps.append(['acq', m])
                        acq += m
                    steps.append(['acq', clock - acq])
                else:
                    c['B'] = rng.choice([0, pre[0] + 2])
                    a = 2 * (n + pre[0]) + 3
                    t = rng.randint(1, a)
                    acq = j + t - rng.choice([0, 3]) if c['B'] else max(0, j + min(t, 1) - 1)
                    acq = max(0, min(acq, j + t))
                    steps = [['pop', a]] + ([['acq', acq]] if acq else []) + \
                            [['pause', [t, rng.choice([0.0, 0.3, -0.27])]], ['pop', 2],
                             ['resume', [t + rng.choice([0, n + pre[0] + 2]), 0.0]]]
                    if steps[-3][1][0] == a and steps[-3][1][1] > 0:
                        steps[-3][1][1] = 0.0
                    clock = j + steps[-1][1][0]
                    steps = _finish(steps, clock, j + t + 2, acq, total, rng)
                yield dict(c, steps=steps)
    # (4c) FIFO: the queue runs dry (inside one request), more stimuli are appended later
    for _ in range(14 if quick else 120):
        fs = rng.choice(FS)
        c, st, n = _opt_case(rng, quick, 'fifo', fs, nst=rng.randint(2, 3))
        c['late'] = rng.randint(1, len(st) - 1)
        c['chunk'] = rng.choice(['plain', 'pdata'])
        early = dict(c, stims=st[:c['late']])
        _, X = _fifo_timeline(early)
        X -= c['j']
        a = rng.randint(0, X - 1)
        e1, e2 = rng.randint(1, 9), rng.randint(0, 6)
        steps = ([['pop', a]] if a else []) + [['popdry', X - a, e1]]
        acq = rng.randint(0, c['j'] + X + e1)
        steps += [['acq', acq]] + ([['popdry', 0, e2]] if e2 else []) + [['append']]
        clock = c['j'] + X + e1 + e2
        yield dict(c, steps=_finish(steps, clock, clock, acq, _total(st[c['late']:], n), rng))
    # (4d) pause / resume against the acquisition position; several pauses between two sends
    for _ in range(60 if quick else 600):
        fs = rng.choice(FS)
        c, st, n = _opt_case(rng, quick, rng.choice(qc.POLICIES), fs)
        c['chunk'] = rng.choice(['plain', 'plain', 'pdata', 'int']) if all(x['kind'] != 'cos2' for x in st) else 'plain'
        c['intwave'] = c['chunk'] == 'int'
        j, total = c['j'], _total(st, n)
        a = rng.randint(n + 2, 3 * n + 6)
        t = rng.randint(1, a)
        acq = j + t - rng.choice([0, 0, 1, 5])          # acquisition exactly at / just below the pause point
        acq = max(acq, 0)
        steps = [['pop', a], ['acq', acq], ['pause', [t, 0.3 if t < a else 0.0]]]
        var = rng.choice(['zeros_eq', 'zeros_gt', 'repause', 'three', 'acq0'])
        clock, plen = j + t, j + t
        if var in ('zeros_eq', 'zeros_gt'):             # the paused silence is played; resume at / after what was acquired
            z = rng.randint(1, 7)
            steps += [['pop', z], ['acq', j + t + z - acq]]
            acq = j + t + z
            x = t + z + (0 if var == 'zeros_eq' else rng.randint(1, n + 3))
            steps.append(['resume', [x, 0.0]])
            clock, plen = j + x, acq
        elif var == 'repause':                          # a second, earlier pause while paused
            t2 = rng.randint(max(acq - j, 0), t)
            steps += [['pause', [t2, 0.0]], ['acq', 0], ['resume', [t2 + rng.choice([0, 2]), 0.0]]]
            clock, plen = j + steps[-1][1][0], j + t2
        elif var == 'three':                            # three pause/resume pairs before the next send
            for _ in range(3):
                steps.append(['resume', [clock - j, 0.0]])
                k = rng.randint(1, n + 4)
                steps.append(['pop', k])
                clock += k
                t2 = rng.randint(max(acq, clock - k - 2, j), clock) - j
                steps.append(['pause', [t2, 0.0]])
                clock = plen = j + t2
            steps.append(['resume', [clock - j + rng.choice([0, 1]), 0.0]])
            clock = j + steps[-1][1][0]
        else:
            steps += [['acq', 0], ['resume', None]]
        yield dict(c, steps=_finish(steps, clock, plen, acq, total, rng))
    # (4e) long runs: acquisition sample and queue clock beyond 2^24 (and 2^25)
    for fs in [195312.5, 1000 / 7.0, 97656.25, 44.1e3]:
        for D, S in ([(1 << 24) + 12345, 0], [5, (1 << 24) + 77], [(1 << 24) + 3, (1 << 24) + 4321]):
            for _ in range(1 if quick else 4):
                c, st, n = _opt_case(rng, quick, rng.choice(qc.POLICIES), fs)
                c['D'], c['S'] = D, S
                j, total = c['j'], _total(st, n)
                a = rng.randint(n + 2, 3 * n + 6)
                t = rng.randint(1, a)
                steps = [['pop', a], ['acq', j + t], ['pause', [t, rng.choice([0.0, 0.3, -0.4]) if 0 < t < a else 0.0]],
                         ['pop', 3], ['resume', [t + rng.choice([0, n + 2]), 0.0]]]
                if steps[2][1][1] < 0:
                    steps[1] = ['acq', j + t - 1]
                acq = steps[1][1]
                yield dict(c, steps=_finish(steps, j + steps[-1][1][0], j + t + 3, acq, total, rng))


# ====================================================================================================================
# Translator tie of the COMPOSITION (appended; nothing above is changed).  Both components of the loop have generated
# counterparts: coq/gen/QueueStepGen.v (psiaudio/queue.py, harness/C02.py translate) and coq/gen/CaptureGen.v
# (psiaudio/pipeline.py, harness/C05.py translate).  Both are regenerated here for the tree under test, so that the theorems
# C06_source_* of coq/Props/C06.v (coq/EndToEnd/ProofsTie.v: the schedule run with the generated queue operations and the
# generated extract_epochs send is the hand-written composition, hence C06_end_to_end / C06_trials_in_stream hold of it)
# are re-checked against what the source says now.
import C02 as _C02
import C05 as _C05

TRUSTED = list(TRUSTED) + [
    'coq/EndToEnd/ProofsTie.v source_run_steps: the glue between the two generated components is hand-written Gallina (as the '
    'loop of harness/C06.py is hand-written Python): a queue step calls the generated method on the queue object with an emptied '
    'recorder and appends what it notified to the deques, the device buffer is spliced / truncated as in EndToEnd/Model.v, an '
    'acquisition step builds the feed with feed_of and calls the generated send; a send that raised leaves the generator dead. '
    'The trusted parts of the two translators are those listed by harness/C02.py, C04.py (translate/pyqueue2coq.py) and '
    'harness/C05.py (translate/pycapture2coq.py)']


def translate(repo):
    """regenerate coq/gen/QueueStepGen.v and coq/gen/CaptureGen.v from the source under test"""
    info = {'queue': _C02.translate(repo), 'extract': _C05.translate(repo)}
    info['gen_files'] = info['queue'].get('gen_files', []) + info['extract'].get('gen_files', [])
    return info
