"""C12 - streaming pipeline stages are chunk-invariant and keep a contiguous time base.
Model: coq/Stages/Model.v (proofs coq/Stages/Proofs*.v, theorems coq/Props/C12.v).

Every case drives the REAL coroutine of psiaudio.pipeline with one chunking of one stream and records every
object passed to the target: values, .s0, .fs, .channel, .metadata.  Sample values are turned into *recipes*
(position in the stage's one-shot whole-signal result, computed here with ONE call of the same numpy/scipy
primitive and compared bit-exactly), so that the integer model of Stages/Model.v can be compared with `==`."""
import copy
import functools
import itertools
import os
import numpy as np
from fractions import Fraction
from vlib import zlit, zlist, listlit

PROP = 'C12'
REQUIRES = ['Stages.Model']
RULE = ('per stage (blocked, discard, downsample, decimate, rms, derivative, iirfilter, transform, mc_reference, auto_th): '
        'ALL compositions (chunkings) of a stream of N samples (quick: N=7 for 1-D/2-channel x plain/annotated, N=10 for 1-D annotated; '
        'thorough: N=9 resp. 12) with a parameter that does not divide N, then seeded random chunkings of streams up to 400 samples with '
        'random parameters (q 1..5, block sizes 1..50, discard counts 0..N+2, rms block 1..50, filter orders 1..3, baseline 2..N+2), '
        '1-D and 2-channel, plain ndarray and PipelineData; annotated streams start at 0, at positive and at NEGATIVE s0 (pre-stimulus), half of them chosen so that a counter of the stage (output-sample counter, s0 of the held block, discard/block counter) is exactly 0, +-1 or its initial value at a chunk boundary of the chunking, plus dedicated chunkings cut exactly at / next to that point; fs in {1000, 44100, 195312.5}; '
        'event_rate: all compositions of spans of 9 (thorough 11) samples and random spans up to 300 with random events, window 1..40, step 1..40; '
        'CAUSAL Events streams (events at or after the end of the block that carries them, never before its start): one event multiset on one timeline fed under 3 '
        'different chunkings / assignments of the events to blocks (edges-like lag 0..m, arbitrarily early blocks, block ends exactly at event positions, zero-span blocks, '
        'events beyond the end of the stream), each judged against the model and the window counts of the whole stream; '
        'rms on uint8 / int16 / int32 streams whose squares overflow the dtype (reference: RMS of the exact integers in float64); after EVERY run of every array '
        'stage the metadata / channel / s0 / fs of the chunks that were sent are compared with a deep copy taken before (stages do not annotate their input); '
        'broadcast(auto_th, blocked | rms | downsample) on the same annotated chunks, baseline spanning one or several chunks: no exception, both outputs equal '
        'their stand-alone runs, the sibling is judged like a stand-alone case (model + oracle); COMPOSITION boolean stream meeting the C13 '
        'run-length precondition -> real pipeline.edges (debounce 1..6, all detect modes, both initial states, plain and PipelineData input) -> real pipeline.event_rate under '
        'chunkings cut exactly min_samples before / after an edge and at every offset in between, one sample per chunk, random: the Events blocks edges emitted go to the '
        'model, the rates must equal the single-chunk run and the counts of the TRUE edge positions per window. '
        'Variant cases (per stage ~90 quick / 1500 thorough; event_rate 120 / 2000): float64/float32/int64/int32/int16 data, read-only chunks, '
        'ZERO-LENGTH chunks (every stage; in front, in the middle, in a row, at the end), 1/2/3 channels, string / falsy / mixed-type / tuple / default labels, '
        'scalar labels on 1-D, {} / nested / falsy-valued metadata, int / NumPy scalars for q, block size, discard count, fs, s0, off-grid seconds '
        'arguments incl. exact .5 ties (rms duration, auto_th baseline), derivative initial state int / float / non-integer / NumPy, every iirfilter '
        'btype x ftype, every auto_th keyword (n float, fs auto/None/number, mode, auto_th_cb None/callable/positional, current_th_cb), transform with '
        'lambda / ufunc / partial / callable object / bound method, mc_reference with float / int / float32 / nested-list matrices of size 1-3, '
        'event_rate with int / float / NumPy block_size and block_step, FRACTIONAL block_step, s0_mode values, int fs, a target that overwrites what it '
        'received, the Ellipsis reset message of blocked / discard after an unrelated stream; emitted dtype compared with the one-shot dtype. '
        'Non-trivial: at least two chunks and at least one chunk boundary that is not a multiple of the stage period '
        '(or, for stateful filters/derivative/auto_th, any interior boundary). Distinct = distinct case dictionaries.')
TRUSTED = ['harness/C12.py (stream/chunking generator; recipe evaluation: one one-shot call of lfilter / np.diff / np.mean / std / matmul '
           'on the whole signal and bit-exact lookup of every emitted value in it; canonicalisation of .s0/.fs/.channel/.metadata to integers)',
           'NumPy basic slicing as modelled in coq/Common/PySlice.v; generators resuming where they yielded']
ASSUMPTIONS = ['zero-length chunks are sent to every stage; the C12_*_values / _contiguous theorems assume chunks of >= 1 sample, the C12_*_any theorems (all eleven stages) cover chunkings with zero-length chunks / zero-span Events chunks; all chunks of a stream carry the same fs, channel labels and metadata and are contiguous in s0',
               'the caller does not overwrite a chunk after sending it (blocked, downsample, rms, auto_th keep references / views of their input until enough samples arrived; not demanded by the property text); the target MAY overwrite what it receives',
               'event_rate s0_mode is accepted but ignored by the code (always centre): only contiguity and rate are judged for left / right',
               'parameters: q >= 1, block size >= 1, discard count >= 0, rms block n >= 1 (the C12_rms_contiguous theorems take n | s0 of the first chunk, where the '
               'output s0 = s0 / n is an integer; C12_rms_x_* and the off-grid family cover EVERY first s0: there the code emits a float s0 = s0_in / n + windows so far, '
               'read as the rational s0_in/n + k when within 16 ulp of it; contiguity and the first s0 are judged exactly on the floats), '
               'auto_th baseline >= 2 samples (std of 0 or 1 samples is NaN / 0)',
               'scipy.signal.lfilter is the sample-sequential recurrence whose final state zf, passed as zi, continues it exactly '
               '(abstract mapAccum in the proofs; exercised bit-exactly here); lfilter is never called on an empty array by the repaired code',
               'transform is claimed for elementwise functions, mc_reference for square matrices; derivative for annotated input only '
               '(it reads .fs; plain input raises AttributeError in code and model)',
               'event_rate: every event of an Events chunk lies at or after the START of the span of that chunk (it may lie at or beyond its end, as in the blocks '
               'pipeline.edges emits); spans tile the timeline; block_size, block_step >= 1 integers (or block_step = odd/2)',
               'the first output s0 of downsample/decimate is the input s0 itself (input-rate units); only contiguity is claimed for it']

FSS = [1000.0, 44100.0, 195312.5]
MD = {'k': 1}
LABELS = {None: 0, 'a': 1, 'b': 2}
BAD = -7
ARRAY_STAGES = ['blocked', 'discard', 'downsample', 'decimate', 'rms', 'derivative', 'iirfilter', 'transform',
                'mc_reference', 'auto_th']

KNOWN_KEYS = {
    'downsample': 'downsample:annotated-output-s0-in-input-samples',
    'decimate': 'decimate:remainder-filtered-twice',
    'iirfilter': 'iirfilter:drops-channel-metadata',
    'rms': 'rms:1d-annotated-channel-list-per-block',
    'auto_th': 'auto_th:fs-auto-TypeError',
    'event_rate': 'event_rate:first-chunk-not-processed',
    'event_rate_ahead': 'event_rate:drops-events-ahead-of-span',
}


# the failing inputs of the six defects repaired by the fix-C12 commits (always run first; also the witnesses
# replayed for a `known:` line should one of the repairs not be taken)
KNOWN_WITNESSES = {
    KNOWN_KEYS['downsample']: {'stage': 'downsample', 'p': {'q': 2}, 'two': False, 'ann': True, 's0': 0, 'fs': 1000.0,
                               'sizes': [3, 3, 4], 'seed': 1},
    KNOWN_KEYS['decimate']: {'stage': 'decimate', 'p': {'q': 3}, 'two': False, 'ann': False, 's0': 0, 'fs': 1000.0,
                             'sizes': [5, 5], 'seed': 1},
    KNOWN_KEYS['iirfilter']: {'stage': 'iirfilter', 'p': {'order': 1}, 'two': True, 'ann': True, 's0': 0, 'fs': 1000.0,
                              'sizes': [2, 3], 'seed': 1},
    KNOWN_KEYS['rms']: {'stage': 'rms', 'p': {'n': 2}, 'two': False, 'ann': True, 's0': 0, 'fs': 1000.0,
                        'sizes': [1, 4, 1, 5], 'seed': 1},
    KNOWN_KEYS['auto_th']: {'stage': 'auto_th', 'p': {'B': 4, 'nsd': 1, 'mode': 'positive', 'fsarg': 'auto'}, 'two': False,
                            'ann': True, 's0': 0, 'fs': 1000.0, 'sizes': [3, 3, 4], 'seed': 1},
    KNOWN_KEYS['event_rate']: {'stage': 'event_rate', 'p': {'bsz': 50, 'stp': 25}, 'lo': 0, 'fs': 1000.0, 'sizes': [200],
                               'events': [10, 30, 80, 190]},
    # repaired by fix-C12-er: edges(3, detect='rising') -> event_rate(10, 10) on ([0]*5+[1]*5)*6 in chunks of 8, 10, 42:
    # the rising edge at 15 is reported with sample == end of its block and was dropped from the left-over
    KNOWN_KEYS['event_rate_ahead']: {'stage': 'edges_rate', 'p': {'bsz': 10, 'stp': 10}, 'm': 3, 'init': 0, 'detect': 'rising',
                                     'bits': ([0] * 5 + [1] * 5) * 6, 'sizes': [8, 10, 42], 'form': 'plain', 'first': 0,
                                     'fs': 1000.0},
}


def corpus():
    return [dict(c) for c in KNOWN_WITNESSES.values()] + [
        # zero-length chunks inside a filtered stream (scipy's lfilter returns an undefined state for empty input;
        # repaired: iirfilter / decimate skip them, iirfilter waits for the first non-empty chunk)
        {'stage': 'iirfilter', 'p': {'order': 2}, 'two': False, 'ann': False, 's0': 0, 'fs': 1000.0,
         'sizes': [5, 0, 7], 'seed': 1},
        {'stage': 'iirfilter', 'p': {'order': 1}, 'two': True, 'ann': True, 's0': -3, 'fs': 1000.0,
         'sizes': [0, 0, 5, 7], 'seed': 1},
        {'stage': 'decimate', 'p': {'q': 3}, 'two': False, 'ann': True, 's0': -36, 'fs': 44100.0,
         'sizes': [0, 0, 0, 1, 1, 1, 0], 'seed': 961268}]


# ------------------------------------------------------------------ data
def _gen(case, seed):
    N = sum(case['sizes'])
    st = case['stage']
    rs = np.random.RandomState(seed % (2 ** 31))
    rows = _rows(case)
    if st == 'rms' and case.get('big'):
        # distinct integers of the stream's dtype whose SQUARES do not fit that dtype (rms must not square in it)
        lo, hi = {'u1': (16, 255), 'i2': (182, 32767), 'i4': (46341, 2 ** 31 - 1)}[_v(case, 'dtype')]
        X = np.stack([lo + rs.permutation(min(hi - lo + 1, 4000))[:N].astype(float) * ((hi - lo) // min(hi - lo, 3999))
                      for r in range(rows)])
        if _v(case, 'dtype') != 'u1':
            X = X * rs.choice([1, -1], size=X.shape)
    elif st in ('blocked', 'discard', 'downsample', 'transform', 'mc_reference', 'rms'):
        X = np.stack([np.arange(N, dtype=float) + 1000 * r + 1 for r in range(rows)])
    elif st == 'derivative':
        # distinct adjacent differences; the first sample is far enough from the initial state that x[0] - init is
        # distinct from all of them (also for a non-integer initial state)
        i0 = int(np.floor(case['p']['init']))
        X = np.stack([np.cumsum(np.r_[i0 + N + 5 + r, rs.permutation(N)[:max(N - 1, 0)] + 1 + r]).astype(float)
                      for r in range(rows)])[:, :N]
    elif st == 'auto_th':
        X = rs.randint(-20, 21, size=(rows, N)).astype(float)
    else:
        X = rs.randint(-50, 51, size=(rows, N)).astype(float)
    X = X.astype(_v(case, 'dtype', 'f8'))       # integer-valued, so every dtype holds the same numbers
    if st == 'auto_th' and _v(case, 'rail') and X.dtype.kind == 'i':
        # raw converter counts sitting on the rails after the baseline: the most negative value of the dtype has no
        # positive counterpart in that dtype, the whole-signal computation (x >= th) | (x <= -th) still flags it
        B, info = _ath_B(case), np.iinfo(X.dtype)
        for k, val in enumerate((info.min, info.max, info.min)):
            pos = B + 1 + 2 * k
            if pos < N:
                X[..., pos] = val
    return X if case['two'] else X[0]


def _data(case):
    """integer-valued input stream (N,) or (2, N), deterministic in the case; re-drawn (deterministically) until the
    one-shot reference identifies every output sample uniquely and no sample sits on the auto_th threshold"""
    for k in range(50):
        X = _gen(case, case.get('seed', 0) + 7919 * k)
        ref = _reference(case, X)
        if not _unique(case, ref):
            continue
        if case['stage'] == 'auto_th' and X.shape[-1] >= _ath_B(case) and X.size:
            th = _ref_threshold(case, X) if case['p'].get('cur') is None else float(case['p']['cur'])
            if not (np.min(np.abs(np.abs(X) - th)) >= 1e-9):
                if np.isnan(th):
                    return X
                continue
        return X
    raise RuntimeError('harness: could not draw a stream with a unique reference')


# ---- variants: unusual-but-legal argument kinds (case['v'] = {...}; absent = the plain kinds)
LABEL_KINDS_2D = [['a', 'b', 'c'], [0, '', False], [('x', 1), 2.5, None], None]      # strings / falsy / mixed+tuple / default
LABEL_KINDS_1D = [None, 'mic', 0, '']
MD_KINDS = [{'k': 1}, {}, {'a': {'b': [1, 2]}, 'z': None}, {'k': 0, '': False}]


def _v(case, key, default=None):
    return (case.get('v') or {}).get(key, default)


def _rows(case):
    return _v(case, 'nch', 2) if case['two'] else 1


def _in_channel(case):
    k = _v(case, 'lab', 0)
    if case['two']:
        lab = LABEL_KINDS_2D[k]
        return None if lab is None else list(lab[:_rows(case)])
    return LABEL_KINDS_1D[k]


def _eff_channel(case):
    """the .channel attribute the input chunks actually have"""
    ch = _in_channel(case)
    return [None] * _rows(case) if (ch is None and case['two']) else ch


def _in_md(case):
    return copy.deepcopy(MD_KINDS[_v(case, 'md', 0)])


def _fs_obj(case):
    """the object passed as sampling rate: float, int (when integral) or NumPy scalar"""
    k = _v(case, 'fsk', 'float')
    fs = case['fs']
    if k == 'int' and fs == int(fs):
        return int(fs)
    if k == 'np':
        return np.float64(fs)
    return fs


def _num(case, x):
    """integer stage parameter as int / NumPy integer"""
    k = _v(case, 'pk', 'int')
    return np.int64(x) if k == 'np' else np.int32(x) if k == 'np32' else x


def _wrap(case, x, lo):
    if _v(case, 'ro'):
        x.flags.writeable = False
    if not case['ann']:
        return x
    from psiaudio.pipeline import PipelineData
    s0 = case['s0'] + lo
    if _v(case, 's0k') == 'np':
        s0 = np.int64(s0)
    return PipelineData(x, fs=_fs_obj(case), s0=s0, channel=copy.deepcopy(_in_channel(case)), metadata=_in_md(case))


def _chunks(case, X, sizes):
    out, lo = [], 0
    for n in sizes:
        out.append(_wrap(case, X[..., lo:lo + n].copy(), lo))
        lo += n
    return out


def _rms_args(case):
    fs = _fs_obj(case)
    return fs, (case['p']['n'] + case['p'].get('off', 0)) / case['fs']


def _rms_n(case):
    fs, duration = _rms_args(case)
    return int(round(fs * duration))               # the code's own expression


def _ath_args(case):
    p = case['p']
    fsarg = {'auto': 'auto', 'none': None, 'value': _fs_obj(case)}[p['fsarg']]
    nsd = np.float64(p['nsd']) if p.get('nsdk') == 'np' else p['nsd']
    return nsd, (p['B'] + p.get('off', 0)) / case['fs'], fsarg


def _ath_B(case):
    nsd, baseline, fsarg = _ath_args(case)
    fs = _fs_obj(case) if fsarg in (None, 'auto') else fsarg     # data.fs is the object the chunks carry
    return int(np.round(baseline * fs))            # the code's own expression


def _iir_args(case):
    p, fs = case['p'], _fs_obj(case)
    btype, ftype = p.get('btype', 'lowpass'), p.get('ftype', 'butter')
    Wn = (case['fs'] / 10, case['fs'] / 4) if btype in ('bandpass', 'bandstop') else case['fs'] / 5
    rp = 1 if ftype in ('cheby1', 'ellip') else None
    rs = 40 if ftype in ('cheby2', 'ellip') else None
    return fs, p['order'], Wn, rp, rs, btype, ftype


def _init_obj(case):
    i = case['p']['init']
    return np.float64(i) if _v(case, 'pk') == 'np' else i


def _matrix(case):
    m, k = case['p']['matrix'], case['p'].get('mk', 'f8')
    return m if k == 'list' else np.array(m, dtype=k)


def _make(case, target, cb=None):
    from psiaudio import pipeline as P
    st, p = case['stage'], case['p']
    if st == 'blocked':
        return P.blocked(_num(case, p['bs']), target)
    if st == 'discard':
        return P.discard(_num(case, p['d']), target)
    if st == 'downsample':
        return P.downsample(_num(case, p['q']), target)
    if st == 'decimate':
        return P.decimate(_num(case, p['q']), target)
    if st == 'rms':
        fs, duration = _rms_args(case)
        return P.rms(fs, duration, target)
    if st == 'derivative':
        return P.derivative(_init_obj(case), target)
    if st == 'iirfilter':
        return P.iirfilter(*_iir_args(case), target)
    if st == 'transform':
        return P.transform(_FUNCS[p['fn']], target)
    if st == 'mc_reference':
        return P.mc_reference(_matrix(case), target)
    if st == 'auto_th':
        nsd, baseline, fsarg = _ath_args(case)
        kw = {}
        if p.get('cur') is not None:
            kw['current_th_cb'] = lambda c=float(p['cur']): c
        if _v(case, 'cb') != 'none':
            kw['auto_th_cb'] = cb
        if _v(case, 'wired') and _v(case, 'cb') != 'none' and p.get('cur') is None:
            # the two callbacks wired together as an application does: auto_th_cb stores the reported threshold,
            # current_th_cb reads the stored value (+inf until something was reported) - the result must be the
            # automatic threshold applied to EVERY sample, whatever the chunking
            box = [float('inf')]

            def store(value, cb=cb, box=box):
                box[0] = value
                cb(value)
            cb = store
            kw['auto_th_cb'] = store
            kw['current_th_cb'] = lambda box=box: box[0]
        if _v(case, 'cb') == 'positional':      # every keyword given positionally
            return P.auto_th(nsd, baseline, target, fsarg, p['mode'], cb, kw.get('current_th_cb'))
        return P.auto_th(nsd, baseline, target, fs=fsarg, mode=p['mode'], **kw)
    raise KeyError(st)


class _Sqrt:
    """a callable object (not a function)"""
    def __call__(self, d):
        return np.sqrt(d)

    def method(self, d):
        return d * 4 - 3


_FUNCS = {'affine': lambda d: d * 2 + 1, 'neg': lambda d: -d, 'sqrt': lambda d: np.sqrt(d),
          'ufunc': np.negative, 'partial': functools.partial(np.multiply, 3.0), 'object': _Sqrt(),
          'method': _Sqrt().method}


def _reference(case, X):
    """the stage's whole-signal definition, ONE call of the same primitive; rows x M array (or None)"""
    from scipy import signal
    st, p = case['stage'], case['p']
    N = X.shape[-1]
    X2 = np.atleast_2d(X)
    if st in ('blocked', 'discard', 'downsample'):
        return X2
    if st == 'decimate':
        b, a = signal.cheby1(4, 0.05, 0.8 / p['q'])
        zi = signal.lfilter_zi(b, a)
        return signal.lfilter(b, a, X2, zi=zi[np.newaxis] * np.ones((X2.shape[0], 1)), axis=-1)[0]
    if st == 'iirfilter':
        fs, order, Wn, rp, rs, btype, ftype = _iir_args(case)
        b, a = signal.iirfilter(order, Wn, rp, rs, btype, ftype=ftype, fs=fs)
        zi = signal.lfilter_zi(b, a)
        return signal.lfilter(b, a, X2, zi=zi * X2[..., :1], axis=-1)[0]
    if st == 'rms':
        n = _rms_n(case)
        nb = N // n
        d = X2[..., :nb * n].reshape(X2.shape[0], nb, n)
        if d.dtype.kind in 'biu':
            d = d.astype(np.float64)        # the whole-signal RMS of the exact integers (float dtypes: as they are)
        return np.mean(d ** 2, axis=-1) ** 0.5
    if st == 'derivative':
        pad = np.full((X2.shape[0], 1), fill_value=_init_obj(case))
        return np.diff(np.concatenate([pad, X2], axis=-1)) * _fs_obj(case)
    if st == 'transform':
        return _FUNCS[p['fn']](X2)
    if st == 'mc_reference':
        return _matrix(case) @ X2
    if st == 'auto_th':
        B = _ath_B(case)
        if N < B:
            return np.zeros((X2.shape[0], 0))
        th = X[..., :B].std() * _ath_args(case)[0]
        if p.get('cur') is not None:
            th = float(p['cur'])                   # current_th_cb overrides the automatic threshold
        m = p['mode']
        r = (X2 >= th) if m == 'positive' else (X2 <= -th) if m == 'negative' else ((X2 >= th) | (X2 <= -th))
        return r.astype(float)
    raise KeyError(st)


def _ref_threshold(case, X):
    return float(X[..., :_ath_B(case)].std() * _ath_args(case)[0])


def _lookups(case, ref):
    st = case['stage']
    if st == 'auto_th':
        return None
    if st == 'mc_reference':
        return [{tuple(ref[:, i].tolist()): i for i in range(ref.shape[1])}]
    return [{float(v): i for i, v in enumerate(row)} for row in ref]


def _unique(case, ref):
    st = case['stage']
    if st == 'auto_th':
        return True
    if st == 'mc_reference':
        return len({tuple(ref[:, i].tolist()) for i in range(ref.shape[1])}) == ref.shape[1]
    return all(len(set(row.tolist())) == len(row) for row in ref)


# ------------------------------------------------------------------ canonicalisation of emitted objects
def _fsd(fs_in, fs):
    if fs is None or not fs:
        return -1
    d = int(round(fs_in / fs))
    return d if d >= 1 and fs_in / d == fs else -1


def _s0(v):
    try:
        f = float(v)
    except Exception:
        return -99999
    return int(f) if f == int(f) else -99999


def _same(a, b):
    """equal AND of the same type, recursively (0, 0.0, False and '' are different labels)"""
    if type(a) is not type(b):
        return False
    if isinstance(a, (list, tuple)):
        return len(a) == len(b) and all(_same(x, y) for x, y in zip(a, b))
    if isinstance(a, dict):
        return list(a.keys()) == list(b.keys()) and all(_same(a[k], b[k]) for k in a)
    return a == b


def _md(md, case):
    if isinstance(md, dict):
        md = {k: v for k, v in md.items() if k != 'auto_th'}
    return 7 if _same(md, _in_md(case)) else 0 if md == {} else -1


def _ch(ch, case):
    """labels -> ids: position (from 1) of the identical label among the input's labels; a None that is not an
    input label -> 0; anything else -> 99; a scalar (1-D) label identical to the input's -> [50]"""
    inp = _eff_channel(case)
    if ch is None:
        return None
    if isinstance(ch, list):
        labs = inp if isinstance(inp, list) else []
        out = []
        for c in ch:
            j = next((j for j, x in enumerate(labs) if _same(c, x)), None)
            out.append(j + 1 if j is not None else 0 if c is None else 99)
        return out
    return [50] if (inp is not None and not isinstance(inp, list) and _same(ch, inp)) else [98]


def _encode(case, o, lookups):
    from psiaudio.pipeline import PipelineData
    a = np.asarray(o)
    st = case['stage']
    two = a.ndim == 2
    a2 = np.atleast_2d(a)
    if st == 'auto_th':
        rows = [[int(bool(v)) for v in row] for row in a2]
    elif st == 'mc_reference':
        rows = [[lookups[0].get(tuple(a2[:, i].tolist()), BAD) for i in range(a2.shape[1])]]
    else:
        rows = [[lookups[r].get(float(v), BAD) for v in row] for r, row in enumerate(a2)]
    ann = None
    if isinstance(o, PipelineData):
        ann = [_s0(o.s0), _fsd(case['fs'], o.fs), _ch(o.channel, case), _md(o.metadata, case)]
    enc = {'rows': rows, 'two': bool(two), 'ann': ann, 'n': int(a2.shape[-1])}
    if ann is not None and case.get('offgrid'):
        try:
            f = Fraction(float(o.s0))               # the float s0 as the exact rational it is
            enc['s0f'] = [f.numerator, f.denominator]
        except (TypeError, ValueError, OverflowError):
            enc['s0f'] = None
    return enc


def _snapshot(c):
    from psiaudio.pipeline import PipelineData
    if not isinstance(c, PipelineData):
        return None
    return copy.deepcopy((c.metadata, c.channel, c.s0, c.fs))


def _input_change(chunks, snaps):
    """what a stage did to the annotations of the chunks it was SENT (None: nothing)"""
    for k, (c, snap) in enumerate(zip(chunks, snaps)):
        if snap is None:
            continue
        now = (c.metadata, c.channel, c.s0, c.fs)
        for name, a, b in zip(('metadata', 'channel', 's0', 'fs'), now, snap):
            if not _same(a, b):
                return f'{name} of input chunk {k} changed from {b!r} to {str(a)[:120]}'
    return None


def _drive(case, chunks, cb=None, prefix=None, watch=None):
    """send the chunks; v.clobber: the target keeps a copy and then OVERWRITES the array it was given (a downstream
    stage working in place must not disturb later output); prefix: chunks of another stream, then the Ellipsis
    reset message, are sent first - returns only what is emitted after the forwarded Ellipsis plus the count of
    Ellipsis objects seen"""
    outs = []

    def target(o):
        if o is Ellipsis or not _v(case, 'clobber') or not isinstance(o, np.ndarray):
            outs.append(o)
            return
        outs.append(o.copy())
        if o.flags.writeable and o.size:
            o[...] = True if o.dtype == bool else -77
        md = getattr(o, 'metadata', None)
        if isinstance(md, dict):
            md['_annotated_by_target'] = len(outs)      # ... and annotates it in place, as add_metadata / auto_th do
    cr = _make(case, target, cb)
    for c in (prefix or []):
        cr.send(c)
    if prefix is not None:
        cr.send(Ellipsis)
    snaps = [_snapshot(c) for c in chunks]
    for c in chunks:
        cr.send(c)
    if watch is not None and not _v(case, 'clobber'):
        # (with v.clobber the harness's own target annotates what it receives, which may be the input object itself)
        ch = _input_change(chunks, snaps)
        if ch:
            watch.append(ch)
    n_reset = sum(1 for o in outs if o is Ellipsis)
    if prefix is not None and n_reset:
        k = max(i for i, o in enumerate(outs) if o is Ellipsis)
        outs = outs[k + 1:]
    return [o for o in outs if o is not Ellipsis], n_reset


def _impl_array(case):
    from psiaudio import pipeline as P
    X = _data(case)
    ref = _reference(case, X)
    lookups = _lookups(case, ref)
    ths, ths1 = [], []
    allowed = None
    prefix = None
    if _v(case, 'reset') is not None:
        # an unrelated stream (values the lookups do not know), then Ellipsis, then the stream under test
        pre = dict(case, sizes=_v(case, 'reset'), s0=case['s0'] + 100000)
        prefix = _chunks(pre, _gen(pre, 1) + 20000, pre['sizes'])
    try:
        watch = []
        outs, n_reset = _drive(case, _chunks(case, X, case['sizes']), ths.append, prefix, watch=watch)
        one, _ = _drive(case, _chunks(case, X, [X.shape[-1]]), ths1.append, watch=watch)
    except AttributeError as e:
        if case['stage'] == 'derivative' and not case['ann']:
            return {'raised_allowed': 'AttributeError'}      # plain arrays have no .fs (documented scope)
        raise
    except TypeError as e:
        if case['stage'] == 'auto_th' and case['p'].get('fsarg') == 'auto':
            # NOT allowed by the property: recorded as a value so that the failing input gets its key
            return {'crash': f'TypeError: {e}'[:200]}
        raise
    res = {'outs': [_encode(case, o, lookups) for o in outs],
           'one': [_encode(case, o, lookups) for o in one]}
    if prefix is not None:
        res['n_reset'] = n_reset
    if watch:
        res['input_changed'] = watch[0]
    # the dtype of what is emitted is the dtype of the one-shot whole-signal computation (bool for auto_th)
    want_dt = np.dtype(bool) if case['stage'] == 'auto_th' else ref.dtype
    bad_dt = sorted({str(np.asarray(o).dtype) for o in outs + one if np.asarray(o).dtype != want_dt})
    if bad_dt:
        res['dtype'] = f'{bad_dt} instead of {want_dt}'
    if case['ann'] and outs:
        try:
            c = P.concat(outs, axis=-1)
            ok = np.array_equal(np.asarray(c), np.concatenate([np.asarray(o) for o in outs], axis=-1))
            res['concat'] = 'ok' if ok and _s0(c.s0) == _s0(outs[0].s0) else 'concat returned other values or s0'
        except ValueError as e:
            res['concat'] = 'ValueError: ' + str(e)[:200]
    if case['stage'] == 'auto_th':
        N = X.shape[-1]
        B = _ath_B(case)
        want = [_ref_threshold(case, X)] if (N >= B and _v(case, 'cb') != 'none') else []
        res['th_ok'] = bool(ths == want and ths1 == want)
        res['table'] = [[int(v) for v in row] for row in ref] if N >= B else [[] for _ in ref]
        th_objs = {id(o.metadata.get('auto_th')) for o in outs if isinstance(o, P.PipelineData)}
        res['th_meta_ok'] = len(th_objs) <= 1
    return res


# ------------------------------------------------------------------ event_rate
def _er_args(case):
    """block_size, block_step, Events fs as the objects handed to the code (int / float / NumPy scalar)"""
    p = case['p']
    k = _v(case, 'bk', 'int')
    conv = {'int': lambda x: x, 'float': float, 'np': np.int64, 'npf': np.float64}[k]
    bsz = conv(p['bsz'])
    stp = conv(p['stp']) if p.get('den', 1) == 1 else p['stp'] / p['den']       # documented: block_step may be a float
    fs = int(case['fs']) if _v(case, 'fsk') == 'int' else case['fs']
    return bsz, stp, fs


def _er_blocks(case):
    """the event positions each Events chunk carries: by default those inside its span; 'blocks' assigns them
    explicitly (causal streams: an event may sit in a chunk whose span ends at or before it)"""
    if 'blocks' in case:
        return [list(b) for b in case['blocks']]
    out, lo = [], case['lo']
    for n in case['sizes']:
        out.append([e for e in case['events'] if lo <= e < lo + n])
        lo += n
    return out


def _er_one(case):
    """the same stream delivered as a single chunk"""
    one = dict(case, sizes=[sum(case['sizes'])])
    if 'blocks' in case:
        one['blocks'] = [sorted(case['events'])]
    return one


def _events(case):
    from psiaudio.pipeline import Events
    lo = case['lo']
    fs = _er_args(case)[2]
    out = []
    for n, evs in zip(case['sizes'], _er_blocks(case)):
        ev = [(('rising', 'falling')[i % 2] if 'blocks' in case else 'rising', e) for i, e in enumerate(evs)]
        if _v(case, 'evk') == 'np':
            ev = [(k, np.int64(e)) for k, e in ev]
        out.append(Events(ev, lo, lo + n, fs))
        lo += n
    return out


def _enc_rate(case, o):
    bsz, stp, fs = _er_args(case)
    a = np.asarray(o)
    counts = []
    for v in a.reshape(-1):
        c = int(round(float(v) * float(bsz) / fs))
        counts.append(c if c / bsz * fs == float(v) else -1)
    s2 = 2 * float(o.s0)
    return {'counts': counts, 's0x2': int(s2) if s2 == int(s2) else -99999,
            'fsd': case['p']['stp'] if fs / stp == o.fs else -1, 'shape_ok': a.ndim == 2 and a.shape[0] == 1,
            'ann_ok': o.channel == [None] and o.metadata == {}}


def _impl_events(case):
    from psiaudio import pipeline as P

    def drive(chs):
        outs = []

        def target(o):
            outs.append(o.copy() if _v(case, 'clobber') else o)
            if _v(case, 'clobber'):
                o[...] = -77
        bsz, stp, _ = _er_args(case)
        mode = _v(case, 'mode')
        if mode is None:
            cr = P.event_rate(bsz, stp, target)
        elif _v(case, 'positional'):
            cr = P.event_rate(bsz, stp, target, mode)
        else:
            cr = P.event_rate(block_size=bsz, block_step=stp, target=target, s0_mode=mode)
        for c in chs:
            cr.send(c)
        return outs
    outs = drive(_events(case))
    one = drive(_events(_er_one(case)))
    res = {'outs': [_enc_rate(case, o) for o in outs], 'one': [_enc_rate(case, o) for o in one]}
    if outs:
        try:
            P.concat(outs, axis=-1)
            res['concat'] = 'ok'
        except ValueError as e:
            res['concat'] = 'ValueError: ' + str(e)[:200]
    return res


# ------------------------------------------------------------------ edges -> event_rate (composition)
def _edges_lo(case):
    """edges starts its Events spans min_samples before the first sample (plain input: sample 0)"""
    return (case['first'] if case['form'] == 'pd' else 0) - case['m']


def _true_edges(case):
    """positions of the transitions of the boolean stream itself (first high sample / first low sample of every run,
    the initial state being a settled run), restricted to the detect mode"""
    first = case['first'] if case['form'] == 'pd' else 0
    out, prev = [], bool(case['init'])
    for i, b in enumerate(case['bits']):
        b = bool(b)
        if b != prev and case['detect'] in ('both', 'rising' if b else 'falling'):
            out.append(first + i)
        prev = b
    return out


def _impl_edges_rate(case):
    from psiaudio import pipeline as P

    def drive(sizes):
        outs, blocks = [], []
        bsz, stp, _ = _er_args(case)
        er = P.event_rate(bsz, stp, outs.append)

        def tap(ev):
            blocks.append([[int(x) for x in ev.events['sample']], int(ev.start), int(ev.end)])
            er.send(ev)
        kw = {'initial_state': case['init'], 'detect': case['detect']}
        if case['form'] != 'pd':
            kw['fs'] = case['fs']
        cr = P.edges(case['m'], tap, **kw)
        x = np.array(case['bits'], dtype=bool)
        lo = 0
        for n in sizes:
            a = x[lo:lo + n]
            if case['form'] == 'pd':
                a = P.PipelineData(a[np.newaxis, :], fs=case['fs'], s0=case['first'] + lo, channel=['ch'], metadata={'tag': 1})
            cr.send(a)
            lo += n
        return outs, blocks
    outs, blocks = drive(case['sizes'])
    one, _ = drive([len(case['bits'])])
    res = {'outs': [_enc_rate(case, o) for o in outs], 'one': [_enc_rate(case, o) for o in one], 'blocks': blocks}
    if outs:
        try:
            P.concat(outs, axis=-1)
            res['concat'] = 'ok'
        except ValueError as e:
            res['concat'] = 'ValueError: ' + str(e)[:200]
    return res


# ------------------------------------------------------------------ broadcast(auto_th, sibling)
def _bc_sub(case):
    """the sibling stage and auto_th as stand-alone cases on the same stream / chunking"""
    sib = {k: v for k, v in case.items() if k not in ('sib', 'p')}
    sib.update(stage=case['sib'], p=case['p']['sib'])
    ath = dict(sib, stage='auto_th', p=case['p']['ath'])
    return sib, ath


def _impl_bcast(case):
    from psiaudio import pipeline as P
    sib, ath = _bc_sub(case)
    X = _data(sib)
    lookups = _lookups(sib, _reference(sib, X))

    def run(which, sizes):
        out_t, out_s = [], []
        t = _make(ath, out_t.append, [].append)
        s = _make(sib, out_s.append)
        send = {'both': P.broadcast(t.send, s.send).send, 'ath': t.send, 'sib': s.send}[which]
        chunks = _chunks(sib, X, sizes)
        snaps = [_snapshot(c) for c in chunks]
        for c in chunks:
            send(c)
        return out_t, out_s, _input_change(chunks, snaps)

    def enc_t(outs):
        return [{'vals': np.asarray(o).astype(int).tolist(), 's0': _s0(o.s0), 'fsd': _fsd(case['fs'], o.fs),
                 'ch': _ch(o.channel, sib), 'md': _md(o.metadata, sib), 'th': 'auto_th' in o.metadata} for o in outs]
    try:
        both_t, both_s, changed = run('both', case['sizes'])
    except ValueError as e:
        return {'crash': f'ValueError: {e}'[:200]}
    solo_t = run('ath', case['sizes'])[0]
    solo_s = run('sib', case['sizes'])[1]
    one_s = run('sib', [X.shape[-1]])[1]
    res = {'outs': [_encode(sib, o, lookups) for o in both_s], 'one': [_encode(sib, o, lookups) for o in one_s],
           'solo': [_encode(sib, o, lookups) for o in solo_s], 'ath': enc_t(both_t), 'ath_solo': enc_t(solo_t)}
    if changed:
        res['input_changed'] = changed
    if both_s:
        try:
            P.concat(both_s, axis=-1)
            res['concat'] = 'ok'
        except ValueError as e:
            res['concat'] = 'ValueError: ' + str(e)[:200]
    return res


class StageHung(Exception):
    pass


def impl(case):
    """runs the real coroutine; a stage that does not return within 30 s (e.g. a window loop that stopped advancing)
    is reported as an unexpected exception instead of hanging the check"""
    import signal

    def on_alarm(signum, frame):
        raise StageHung('the stage did not return within 30 s (non-terminating loop?)')
    try:
        old = signal.signal(signal.SIGALRM, on_alarm)
        signal.setitimer(signal.ITIMER_REAL, 30)
        armed = True
    except ValueError:          # not in the main thread: no watchdog
        armed = False
    try:
        if case['stage'] == 'event_rate':
            return _impl_events(case)
        if case['stage'] == 'edges_rate':
            return _impl_edges_rate(case)
        if case['stage'] == 'bcast':
            return _impl_bcast(case)
        return _impl_array(case)
    finally:
        if armed:
            signal.setitimer(signal.ITIMER_REAL, 0)
            signal.signal(signal.SIGALRM, old)


# ------------------------------------------------------------------ model terms
def _hdr(case):
    two = 'true' if case['two'] else 'false'
    if not case['ann']:
        return f'(Hdr {two} None)'
    ids = _ch(_eff_channel(case), case)
    ch = 'None' if ids is None else f'Some {zlist(ids)}'
    return f'(Hdr {two} (Some (1, {ch}, 7)))'


def _blk(o, r):
    two = 'true' if o['two'] else 'false'
    if o['ann'] is None:
        an = 'None'
    else:
        s0, fsd, ch, md = o['ann']
        chs = 'None' if ch is None else f'(Some {zlist(ch)})'
        an = f'(Some (An {zlit(s0)} {zlit(fsd)} {chs} {zlit(md)}))'
    return f'Blk {zlist(o["rows"][r])} {two} {an}'


def _got(res, r):
    if 'raised_allowed' in res:
        return 'None'
    return '(Some ' + listlit([_blk(o, r) for o in res['outs']]) + ')'


def term(case, res):
    st, p = case['stage'], case['p']
    if 'crash' in res:
        return 'false'
    if st == 'bcast':
        return term(_bc_sub(case)[0], res)      # what the sibling emitted next to auto_th, against the sibling's model
    # C12_MODEL_UNREPAIRED=1 compares with the `rep = false` variants of the model instead (used once, by hand, to
    # validate the `_unrepaired` model functions against the tree before the fix-C12 commits)
    rep = 'false' if os.environ.get('C12_MODEL_UNREPAIRED') else 'true'
    # C12_MODEL_ER_UNREPAIRED=1: event_rate is compared with [er_step_unrepaired] (the code before the repair
    # fix-C12-er; used by hand to tie that variant of the model to the old tree)
    un = '_unrepaired' if (os.environ.get('C12_MODEL_UNREPAIRED') or os.environ.get('C12_MODEL_ER_UNREPAIRED')) else ''
    if st == 'edges_rate':
        # the Events blocks that the real edges handed to event_rate (events may lie at or after a block's end)
        cs = [f'Ev {zlist(ev)} {zlit(a)} {zlit(b)}' for ev, a, b in res['blocks']]
        got = listlit([f'Rb {zlist(o["counts"])} {zlit(o["s0x2"])} {zlit(o["fsd"])}' for o in res['outs']])
        return f'check_event_rate{un} {rep} {zlit(p["bsz"])} {zlit(p["stp"])} {listlit(cs)} (Some {got})'
    if st == 'event_rate':
        den = p.get('den', 1)          # block_step = stp / den; the model runs on positions multiplied by den
        cs, lo = [], case['lo']
        for n, evs in zip(case['sizes'], _er_blocks(case)):
            cs.append(f'Ev {zlist([den * e for e in evs])} {zlit(den * lo)} {zlit(den * (lo + n))}')
            lo += n
        if den != 1:
            # fractional block_step: window arithmetic compared on the scaled integers (counts per emitted block);
            # s0 / fs of the blocks are judged by the oracle only
            got = listlit([zlist(o['counts']) for o in res['outs']])
            return f'check_event_rate_counts{un} {rep} {zlit(den * p["bsz"])} {zlit(p["stp"])} {listlit(cs)} (Some {got})'
        got = listlit([f'Rb {zlist(o["counts"])} {zlit(o["s0x2"])} {zlit(o["fsd"])}' for o in res['outs']])
        return f'check_event_rate{un} {rep} {zlit(p["bsz"])} {zlit(p["stp"])} {listlit(cs)} (Some {got})'
    h, s0, sizes = _hdr(case), zlit(case['s0'] if case['ann'] else 0), zlist(case['sizes'])
    nrows = 1 if 'raised_allowed' in res else (len(res['outs'][0]['rows']) if res['outs'] else 1)
    ts = []
    for r in range(nrows):
        got = _got(res, r)
        if st == 'blocked':
            t = f'check_blocked {zlit(p["bs"])} {h} {s0} {sizes} {got}'
        elif st == 'discard':
            t = f'check_discard {zlit(p["d"])} {h} {s0} {sizes} {got}'
        elif st == 'downsample':
            t = f'check_downsample {rep} {zlit(p["q"])} {h} {s0} {sizes} {got}'
        elif st == 'decimate':
            t = f'check_decimate_e {rep} {zlit(p["q"])} {h} {s0} {sizes} {got}'
        elif st == 'rms' and case.get('offgrid'):
            # output s0 in INPUT samples: n times the exact value of the float s0 (check_rms_x)
            n = _rms_n(case)
            scaled = copy.deepcopy(res)
            for o in scaled['outs']:
                f = _s0_times_n(o.get('s0f'), n, scale=abs(case['s0']) / n + sum(case['sizes']) / n)
                o['ann'][0] = int(f) if f is not None and f.denominator == 1 else -99999
            t = f'check_rms_x {rep} {zlit(n)} {h} {s0} {sizes} {_got(scaled, r)}'
        elif st == 'rms':
            t = f'check_rms {rep} {zlit(_rms_n(case))} {h} {s0} {sizes} {got}'
        elif st == 'derivative':
            t = f'check_derivative {h} {s0} {sizes} {got}'
        elif st == 'iirfilter':
            t = f'check_iir_e {rep} {h} {s0} {sizes} {got}'
        elif st in ('transform', 'mc_reference'):
            t = f'check_map {h} {s0} {sizes} {got}'
        elif st == 'auto_th':
            t = f'check_autoth {zlit(_ath_B(case))} {zlist(res["table"][r])} {h} {s0} {sizes} {got}'
        else:
            raise KeyError(st)
        if t not in ts:
            ts.append(t)
    return ' && '.join(f'({t})' for t in ts)


# ------------------------------------------------------------------ the property on the implementation
def _period(case):
    st, p = case['stage'], case['p']
    return {'blocked': p.get('bs'), 'downsample': p.get('q'), 'decimate': p.get('q'),
            'rms': p.get('n')}.get(st, 0) or 0


def _want_ids(case):
    st, p = case['stage'], case['p']
    N = sum(case['sizes'])
    if st == 'blocked':
        return list(range(p['bs'] * (N // p['bs'])))
    if st == 'discard':
        return list(range(min(p['d'], N), N))
    if st in ('downsample', 'decimate'):
        return list(range(0, p['q'] * (N // p['q']), p['q']))
    if st == 'rms':
        return list(range(N // _rms_n(case)))
    return list(range(N))


def _out_fsd(case):
    st, p = case['stage'], case['p']
    return {'downsample': p.get('q'), 'decimate': p.get('q'),
            'rms': _rms_n(case) if st == 'rms' else None}.get(st) or 1


def _cat(outs, r):
    return [v for o in outs for v in o['rows'][r]]


def oracle(case, res):
    st, p = case['stage'], case['p']
    if 'raised_allowed' in res:
        return None
    if 'crash' in res:
        what = f'broadcast(auto_th, {case["sib"]})' if st == 'bcast' else st
        return f'{what}{p}: the stage cannot process the stream at all (chunking {case["sizes"][:12]}): {res["crash"]}'
    if res.get('input_changed'):
        return (f'{st}{p}: the stage annotated / changed a chunk it was SENT ({res["input_changed"]}); a sibling stage fed '
                f'with the same chunks can then no longer concatenate them')
    if st == 'bcast':
        if res['ath'] != res['ath_solo']:
            return f'broadcast(auto_th, {case["sib"]}){p}: auto_th emits something else than when it runs alone'
        if res['outs'] != res['solo']:
            return f'broadcast(auto_th, {case["sib"]}){p}: the sibling emits something else than when it runs alone'
        return oracle(_bc_sub(case)[0], res)
    outs, one = res['outs'], res['one']
    if st in ('event_rate', 'edges_rate'):
        return _oracle_events(case, res)
    N = sum(case['sizes'])
    if res.get('n_reset', 1) != 1:
        return f'{st}{p}: the Ellipsis reset message was forwarded {res["n_reset"]} times instead of once'
    nrows = 1 if (st == 'mc_reference' or not case['two']) else _rows(case)
    for r in range(nrows):
        got = _cat(outs, r) if outs else []
        if st == 'auto_th':
            want = res['table'][r]
        else:
            want = _want_ids(case)
        if got != want:
            k = next((i for i, (a, b) in enumerate(zip(got, want)) if a != b), min(len(got), len(want)))
            return (f'{st}{p}: concatenated output differs from the whole-signal definition at output sample {k} '
                    f'(row {r}; {len(got)} samples emitted, {len(want)} expected; chunking {case["sizes"][:12]})')
        if got != (_cat(one, r) if one else []):
            return f'{st}{p}: chunking {case["sizes"][:12]} and the single chunk [{N}] give different concatenated output'
    if 'dtype' in res:
        return f'{st}{p}: emitted dtype {res["dtype"]} (input dtype {_v(case, "dtype", "f8")})'
    if case.get('offgrid'):
        return _oracle_rms_offgrid(case, res)
    if st == 'blocked' and any(o['n'] != p['bs'] for o in outs):
        return f'blocked{p}: emitted block lengths {[o["n"] for o in outs][:8]}'
    if st == 'auto_th' and not (res['th_ok'] and res['th_meta_ok']):
        return f'auto_th{p}: threshold differs from std(first B samples)*n of the whole signal, or differs between blocks'
    if not case['ann']:
        if any(o['ann'] is not None for o in outs):
            return f'{st}: plain input gave annotated output'
        return None
    # annotated input: contiguity, rate, labels, metadata
    fsd = _out_fsd(case)
    ch = _ch(_eff_channel(case), case)
    for k, o in enumerate(outs):
        if o['ann'] is None:
            return f'{st}{p}: output block {k} lost its annotations'
        s0, f, c, m = o['ann']
        if f != fsd:
            return f'{st}{p}: output block {k} has fs != input fs / {fsd}'
        if c != ch:
            return f'{st}{p}: output block {k} has channel labels {c}, input has {ch}'
        if m != 7:
            return f'{st}{p}: output block {k} does not carry the input metadata'
        if k + 1 < len(outs) and outs[k + 1]['ann'] is not None and outs[k + 1]['ann'][0] != s0 + o['n']:
            return (f'{st}{p}: output block {k} starts at s0={s0} with {o["n"]} samples but block {k + 1} starts at '
                    f's0={outs[k + 1]["ann"][0]} (chunking {case["sizes"][:12]}, input s0={case["s0"]})')
    if outs and res.get('concat') != 'ok':
        return f'{st}{p}: pipeline.concat of the consecutive outputs fails: {res.get("concat")}'
    if outs and one and outs[0]['ann'][0] != one[0]['ann'][0]:
        return f'{st}{p}: first output s0 {outs[0]["ann"][0]} depends on the chunking (single chunk: {one[0]["ann"][0]})'
    return None


def _s0_times_n(s0f, n, scale=0.0):
    """n times the emitted s0, as the model's integer (s0 in INPUT samples).  The code computes s0_in / n once and then
    adds window counts, all in floating point: a float within 16 ulp of j / n (j an integer) stands for j / n (as
    harness/C11.py _rate does for rates); any other float for itself"""
    if not s0f:
        return None
    f = Fraction(*s0f)
    x = float(f)
    j = round(f * n)
    # the rounding errors are those of the LARGEST magnitude the running sum went through (|first s0| + the windows
    # emitted so far), not of the possibly much smaller current value (-6.1 + 6 = -0.0999999999999996)
    if abs(float(Fraction(j, n)) - x) <= 16 * float(np.spacing(max(abs(x), abs(scale), 1.0))):
        return Fraction(j)
    return f * n


def _oracle_rms_offgrid(case, res):
    """rms on an annotated stream starting off the window grid: contiguity in the code's own terms, as exact Fractions"""
    p, n = case['p'], _rms_n(case)
    outs, one = res['outs'], res['one']
    tag = f'rms{p} (s0={case["s0"]} = {case["s0"] // n}*n + {case["s0"] % n}, chunking {case["sizes"][:12]})'
    fsd, ch = _out_fsd(case), _ch(_eff_channel(case), case)
    for k, o in enumerate(outs + one):
        if o['ann'] is None or not o.get('s0f'):
            return f'{tag}: an output block lost its annotations / has no numeric s0'
        if o['ann'][1] != fsd:
            return f'{tag}: output fs != input fs / {fsd}'
        if o['ann'][2] != ch or o['ann'][3] != 7:
            return f'{tag}: output block {k} does not carry the input channel labels / metadata'
    f = [Fraction(*o['s0f']) for o in outs]
    if outs and f[0] != Fraction(case['s0'] / n):          # the correctly rounded quotient (exact for the dyadic family)
        return f'{tag}: first output s0 is {float(f[0])!r}, not s0_in / n = {case["s0"]}/{n}'
    exact = _dyadic(case['s0'], n)       # otherwise: EXACT in the code's own terms, the float addition pipeline.concat performs
    for k in range(len(outs) - 1):
        if (f[k + 1] != f[k] + outs[k]['n']) if exact else (float(f[k + 1]) != float(f[k]) + outs[k]['n']):
            return (f'{tag}: output block {k} starts at s0={float(f[k])!r} with {outs[k]["n"]} windows but block {k + 1} '
                    f'starts at s0={float(f[k + 1])!r}')
    if outs and res.get('concat') != 'ok':
        return f'{tag}: pipeline.concat of the consecutive outputs fails: {res.get("concat")}'
    if outs and one and Fraction(*one[0]['s0f']) != f[0]:
        return f'{tag}: first output s0 depends on the chunking'
    return None


def _er_timeline(case):
    """first sample of the Events timeline and ALL events of the stream (whatever block carries them); for the
    composition: where edges starts its spans and the true transitions of the boolean stream"""
    if case['stage'] == 'edges_rate':
        return _edges_lo(case), _true_edges(case)
    return case['lo'], case['events']


def _er_spec(case):
    p = case['p']
    lo, events = _er_timeline(case)
    hi = lo + sum(case['sizes'])
    out, s, step = [], lo, p['stp'] / p.get('den', 1)
    if p.get('den', 1) == 1:
        step = p['stp']
    while hi - s > p['bsz']:
        out.append(sum(1 for e in events if s <= e < s + p['bsz']))
        s += step
    return out


def _er_ahead(case, res=None):
    """events delivered by a block whose span ends at or before them"""
    if case['stage'] == 'edges_rate':
        return [e for ev, a, b in (res or {}).get('blocks', []) for e in ev if e >= b]
    out, lo = [], case['lo']
    for n, evs in zip(case['sizes'], _er_blocks(case)):
        out += [e for e in evs if e >= lo + n]
        lo += n
    return out


def _oracle_events(case, res):
    p = case['p']
    outs, one = res['outs'], res['one']
    got = [c for o in outs for c in o['counts']]
    want = _er_spec(case)
    if got != want:
        k = next((i for i, (a, b) in enumerate(zip(got, want)) if a != b), min(len(got), len(want)))
        ahead = _er_ahead(case, res)
        what = ('edges(%d, detect=%r, initial_state=%d) -> ' % (case['m'], case['detect'], case['init'])
                if case['stage'] == 'edges_rate' else '')
        return (f'{what}event_rate{p}: chunking {case["sizes"][:12]} gives window counts {got[:12]} ({len(got)}), '
                f'the whole stream gives {want[:12]} ({len(want)}); first difference at window {k}'
                + (f'; events delivered at/after the end of their block: {ahead[:8]}' if ahead else ''))
    if got != [c for o in one for c in o['counts']]:
        return f'event_rate{p}: chunking {case["sizes"][:12]} and a single chunk give different output'
    for k, o in enumerate(outs):
        if o['fsd'] != p['stp'] or not o['shape_ok'] or not o['ann_ok']:
            return f'event_rate{p}: block {k} has the wrong rate, shape or annotations'
        if k + 1 < len(outs) and outs[k + 1]['s0x2'] != o['s0x2'] + 2 * len(o['counts']):
            return f'event_rate{p}: block {k + 1} does not start where block {k} ended'
    if outs and res.get('concat') != 'ok':
        return f'event_rate{p}: pipeline.concat of the consecutive outputs fails: {res.get("concat")}'
    # s0_mode is accepted but ignored by the code (always the centre): the first s0 is judged for 'center' only;
    # the property text fixes contiguity and rate, not the origin
    if outs and _v(case, 'mode') in (None, 'center') and outs[0]['s0x2'] != 2 * _er_timeline(case)[0] + p['bsz']:
        return f'event_rate{p}: first s0 is not the centre of the first window'
    return None


def nontrivial(case, res):
    if len(case['sizes']) < 2 or (isinstance(res, dict) and ('raised_allowed' in res or 'crash' in res)):
        return False
    st = case['stage']
    if st in ('transform', 'mc_reference'):
        return False
    if st == 'edges_rate' or 'blocks' in case:
        return bool(_er_ahead(case, res))           # at least one event ahead of the span of its block
    if st == 'bcast':
        return nontrivial(_bc_sub(case)[0], res)
    if case.get('offgrid'):
        return True                                 # >= 2 chunks of a stream that starts off the window grid
    per = _period(case)
    if st == 'event_rate':
        per = 0
    if per:
        acc = 0
        for n in case['sizes'][:-1]:
            acc += n
            if acc % per:
                return True
        return False
    return True


def key(case, res):
    st = case['stage']
    if st == 'bcast':
        return None
    if st == 'downsample' and case.get('ann'):
        return KNOWN_KEYS[st]
    if st == 'decimate' and len(case['sizes']) > 1:
        return KNOWN_KEYS[st]
    if st == 'iirfilter' and case.get('ann'):
        return KNOWN_KEYS[st]
    if st == 'rms' and case.get('ann') and not case.get('two'):
        return KNOWN_KEYS[st]
    if st == 'auto_th' and case['p'].get('fsarg') == 'auto':
        return KNOWN_KEYS[st]
    if st == 'edges_rate' or (st == 'event_rate' and 'blocks' in case and _er_ahead(case)):
        return KNOWN_KEYS['event_rate_ahead']
    if st == 'event_rate' and len(case['sizes']) == 1:
        return KNOWN_KEYS[st]
    return None


# ------------------------------------------------------------------ generators
def compositions(N):
    for cuts in itertools.product([0, 1], repeat=N - 1):
        sizes, run_ = [], 1
        for c in cuts:
            if c:
                sizes.append(run_)
                run_ = 1
            else:
                run_ += 1
        sizes.append(run_)
        yield sizes


def _rand_sizes(rng, N, small):
    sizes, left = [], N
    while left > 0:
        m = rng.choice([1, 1, 2, 3, rng.randint(1, small), rng.randint(1, max(1, N // 2))])
        m = min(m, left)
        sizes.append(m)
        left -= m
    return sizes


def _params(stage, rng, N, exhaustive):
    if stage == 'blocked':
        return {'bs': 3 if exhaustive else rng.choice([1, 2, 3, 4, 5, 7, rng.randint(1, 50)])}
    if stage == 'discard':
        return {'d': 3 if exhaustive else rng.choice([0, 1, 2, N - 1, N, N + 2, rng.randint(0, N + 2)])}
    if stage in ('downsample', 'decimate'):
        return {'q': 3 if exhaustive else rng.choice([1, 2, 3, 4, 5] if stage == 'downsample' else [2, 3, 4, 5])}
    if stage == 'rms':
        return {'n': 3 if exhaustive else rng.choice([1, 2, 3, 4, 5, 6, rng.randint(1, 50)])}
    if stage == 'derivative':
        return {'init': rng.choice([0, 3])}
    if stage == 'iirfilter':
        return {'order': rng.choice([1, 2, 3])}
    if stage == 'transform':
        return {'fn': rng.choice(sorted(_FUNCS))}
    if stage == 'mc_reference':
        return {'matrix': rng.choice([[[1, -1], [0, 1]], [[2, 1], [1, 1]], [[0, 1], [1, 0]]])}
    if stage == 'auto_th':
        return {'B': 4 if exhaustive else max(2, rng.choice([2, 3, N - 1, N, N + 2, rng.randint(2, N + 2)])),
                'nsd': rng.choice([1, 2]), 'mode': rng.choice(['positive', 'negative', 'both']),
                'fsarg': 'value'}
    raise KeyError(stage)


def _divisor(stage, p):
    """output samples per input sample = 1 / divisor"""
    return {'downsample': p.get('q'), 'decimate': p.get('q'), 'rms': p.get('n')}.get(stage) or 1


def _s0_choice(stage, p, sizes, rng):
    """First sample number of an annotated stream.  Besides 0 and positive starts: NEGATIVE starts (pre-stimulus
    streams), chosen so that the counters a stage keeps (output-sample counter s0 + emitted, the s0 of the block it is
    holding, discard / block counters) pass through exactly 0, +-1 and through their own initial value at a chunk
    boundary of THIS chunking (a counter that reaches a sentinel-like value must not be re-initialised)."""
    dv = _divisor(stage, p)
    per = p.get('n', 1) if stage == 'rms' else 1          # rms needs n | s0 (float division of s0)
    bounds, acc = [], 0
    for n in sizes:
        acc += n
        bounds.append(acc)
    P = rng.choice(bounds)                                 # input samples consumed at some chunk boundary
    E = P // dv                                            # output samples emitted by then
    if stage == 'discard':
        E = max(P - p['d'], 0)
    aligned = [-E, -P, 1 - P, -E - 1, 1 - E, -(P // dv) * dv]
    plain = [0, 0, 60, 7, -1, -rng.randint(1, 40), -rng.randint(1, 400)]
    s0 = rng.choice(aligned) if rng.random() < 0.5 else rng.choice(plain)
    return s0 * per


def _case(stage, p, two, ann, sizes, rng, fs=None, s0=None):
    fs = fs or rng.choice(FSS)
    if stage == 'mc_reference':
        two = True
    p = dict(p)
    if s0 is None:
        s0 = _s0_choice(stage, p, sizes, rng)
    if not ann:
        s0 = 0
    if stage == 'auto_th':
        p['fsarg'] = rng.choice(['auto', 'none', 'value']) if ann else 'value'
    return {'stage': stage, 'p': p, 'two': bool(two), 'ann': bool(ann), 's0': s0, 'fs': fs,
            'sizes': list(sizes), 'seed': rng.randint(0, 10 ** 6)}


def _aligned_cases(stage, rng, reps):
    """annotated streams starting at a negative s0 with a chunk boundary exactly where the stage's running counter
    reaches 0 (and one sample before / after it), then arbitrary further chunks"""
    for _ in range(reps):
        N0 = rng.randint(4, 40)
        p = _params(stage, rng, N0, False)
        dv = _divisor(stage, p)
        per = p.get('n', 1) if stage == 'rms' else 1
        k = rng.randint(1, 12)                              # the counter starts at -k (output samples)
        for extra in (0, 1, dv - 1 if dv > 1 else 2):
            first = dv * k + extra + (p['d'] if stage == 'discard' else 0)
            head = rng.choice([[first], _rand_sizes(rng, first, 6)])
            tail = _rand_sizes(rng, rng.randint(1, 3 * dv + 8), 6)
            sizes = head + tail
            if stage == 'auto_th':
                p = dict(p, B=max(2, min(p['B'], sum(sizes))))
            for s0 in sorted({-k * per, -dv * k * per, -first * per, (1 - first) * per}):
                yield _case(stage, p, rng.random() < 0.5, True, sizes, rng, s0=s0)


def _er_case(rng, sizes, bsz, stp, lo=None):
    if lo is None:
        bounds, acc = [], 0
        for n in sizes:
            acc += n
            bounds.append(acc)
        P = rng.choice(bounds)
        # s0 = lo + block_size / 2 counts emitted windows: let it (and the span start) pass through 0
        lo = rng.choice([0, 0, 17, -1, -P, -rng.randint(1, 60), -(bsz // 2) - rng.randint(0, 6),
                         -(bsz // 2) - max(0, (P - bsz - 1) // stp + 1)])
    N = sum(sizes)
    dens = rng.choice([0.05, 0.2, 0.5])
    events = [lo + i for i in range(N) if rng.random() < dens]
    return {'stage': 'event_rate', 'p': {'bsz': bsz, 'stp': stp}, 'lo': lo, 'fs': 1000.0,
            'sizes': list(sizes), 'events': events}


def _dyadic(s0, n):
    """s0 / n is a dyadic rational (exact as a float, and so is every s0 / n + k)"""
    d = Fraction(s0, n).denominator
    return d & (d - 1) == 0


def _rms_offgrid_cases(rng, reps):
    """annotated rms input whose first sample index is k*n + r, r != 0: r = n/2 (where a rounded s0 would tie), 1, n-1,
    random; n even and odd (for r/n not dyadic the float s0 / n is rounded: re-dividing for every emission, as rms did
    before the repair fix-C12-rms, loses exact contiguity)"""
    for i in range(reps):
        n = rng.choice([2, 4, 8, 16, 6, 10, 12, 20, 24, 3, 5, 7, 9, rng.randint(2, 40)])
        rs = [r for r in sorted({n // 2, 1, n - 1, n // 4, 3 * n // 4, rng.randint(1, n - 1)})
              if 0 < r < n]
        if not rs:
            continue
        r = rs[i % len(rs)]
        s0 = rng.choice([0, 0, 1, -1, -2, 5, -rng.randint(1, 50), rng.randint(1, 2000)]) * n + r
        W = rng.randint(2, 9)                                            # complete windows in the stream
        N = W * n + rng.randint(0, n - 1)
        for sizes in ([n] * W + ([N - W * n] if N > W * n else []),     # ONE window per emission
                      _cut_at([3 * n * j for j in range(1, W)], 0, N),  # three windows (an odd number) per emission
                      _cut_at([n + 1, 2 * n + 1 + rng.randint(0, n), N - 1], 0, N),
                      _rand_sizes(rng, N, max(2, n)), [N]):
            if sizes and all(m > 0 for m in sizes):
                c = _case('rms', {'n': n}, rng.random() < 0.4, True, sizes, rng, s0=s0)
                c['offgrid'] = True
                yield c


def _rms_int_cases(rng, reps):
    """integer streams (uint8 / int16 / int32) whose squares overflow their dtype: the reference is the RMS of the exact
    integers in float64"""
    for i in range(reps):
        dt = ['i2', 'u1', 'i4'][i % 3]
        n = rng.choice([1, 2, 3, 4, 5, 8, rng.randint(1, 20)])
        N = rng.randint(n, min(180, 8 * n + 6))
        ann, two = i % 2 == 0, rng.random() < 0.4
        for sizes in ([N], _rand_sizes(rng, N, 6), _cut_at([n * j + 1 for j in range(1, N // n)], 0, N)):
            c = _case('rms', {'n': n}, two, ann, sizes, rng, s0=rng.choice([0, n, -2 * n, 7 * n]))
            c['v'] = {'dtype': dt}
            c['big'] = True
            yield c


def _bcast_cases(rng, reps):
    """the same annotated chunks go to auto_th AND to a sibling stage that carries a remainder (pipeline.broadcast)"""
    for i in range(reps):
        sibst = ['blocked', 'rms', 'downsample'][i % 3]
        N = rng.randint(8, 80)
        ps = _params(sibst, rng, N, False)
        per = ps.get('n', 1) if sibst == 'rms' else 1
        B = rng.choice([2, 3, N // 2, N - 1, rng.randint(2, N)])
        pa = {'B': max(2, B), 'nsd': rng.choice([1, 2]), 'mode': rng.choice(['positive', 'negative', 'both']),
              'fsarg': rng.choice(['auto', 'value'])}
        for sizes in (_rand_sizes(rng, N, 6), _cut_at([max(1, B // 2), B + 1, B + 3], 0, N),
                      [1] * N if N < 30 else _rand_sizes(rng, N, 3)):
            c = _case(sibst, ps, rng.random() < 0.4, True, sizes, rng, s0=rng.choice([0, 3, -5]) * per)
            c.update(stage='bcast', sib=sibst, p={'ath': pa, 'sib': ps})
            yield c


def _cut_at(points, lo, N):
    """chunk sizes of [lo, lo + N) cut at the given absolute positions"""
    cuts = sorted({c for c in points if lo < c < lo + N})
    return [b - a for a, b in zip([lo] + cuts, cuts + [lo + N])]


def _er_ahead_group(rng, variants=3):
    """ONE event multiset on ONE timeline, delivered `variants` times: differently cut into chunks, the events
    differently assigned to the chunks - always to a chunk that starts at or before the event (causal), often to one
    that ends at or before it (as pipeline.edges does: lag of up to m samples)"""
    N = rng.choice([rng.randint(2, 30), rng.randint(10, 120)])
    bsz = rng.choice([1, 2, 3, 5, 10, rng.randint(1, 30)])
    stp = rng.choice([1, 2, 3, 5, 10, rng.randint(1, 30)])
    lo = rng.choice([0, 0, -3, 17, -rng.randint(1, 60)])
    m = rng.choice([1, 2, 3, 5, rng.randint(1, 12)])
    dens = rng.choice([0.05, 0.15, 0.4])
    events = [lo + i for i in range(N + m) if rng.random() < dens]        # some at / beyond the end of the stream
    if events and rng.random() < 0.2:
        events.append(rng.choice(events))                                  # two events at one sample (rising + falling kinds)
    events.sort()
    for v in range(variants):
        mode = rng.choice(['lag', 'lag', 'exact', 'early'])
        if mode == 'exact' and events:
            # block ends exactly at (or one sample next to) event positions / lagged event positions
            pts = [e + rng.choice([0, 0, 1, -1, m, -m]) for e in events if rng.random() < 0.5]
            sizes = _cut_at(pts, lo, N)
        else:
            sizes = _rand_sizes(rng, N, 8)
        if rng.random() < 0.25:
            sizes = _with_zeros(rng, sizes)
        starts, acc = [], lo
        for n in sizes:
            starts.append(acc)
            acc += n
        blocks = [[] for _ in sizes]
        for e in events:
            ok = [j for j, a in enumerate(starts) if a <= e]               # causal: the block starts at or before the event
            if mode == 'early':
                j = rng.choice(ok)
            else:
                d = rng.choice([0, m, m, rng.randint(0, m)])               # reported d samples late: the block that held sample e - d .. e
                y = max(lo, e - d)
                inside = [j for j in ok if starts[j] <= y < starts[j] + sizes[j]]
                j = inside[0] if inside else ok[-1]
                if mode == 'exact':
                    ends = [j for j in ok if starts[j] + sizes[j] == e]    # event == end of the block
                    if ends and rng.random() < 0.7:
                        j = ends[-1]
            blocks[j].append(e)
        yield {'stage': 'event_rate', 'p': {'bsz': bsz, 'stp': stp}, 'lo': lo, 'fs': 1000.0, 'sizes': sizes,
               'events': events, 'blocks': blocks}


def _edges_rate_group(rng, k):
    """a boolean stream meeting the C13 run-length precondition (every completed run longer than min_samples) ->
    edges -> event_rate, under chunkings cut around its edges"""
    m = rng.choice([1, 2, 3, 3, 4, rng.randint(1, 6)])
    init = rng.choice([0, 0, 1])
    bits, state = [], rng.choice([0, 1])
    for _ in range(rng.randint(2, 9)):
        bits += [state] * (m + rng.choice([1, 1, 2, rng.randint(1, 8)]))
        state = 1 - state
    bits += [state] * rng.randint(0, m + 3)                                # the last run may be short
    N = len(bits)
    detect = ['both', 'rising', 'falling', 'both'][k % 4]
    form = 'pd' if k % 3 == 2 else 'plain'
    first = rng.choice([0, 7, -5, -40]) if form == 'pd' else 0
    bsz = rng.choice([1, 2, m, 2 * m + 1, 10, rng.randint(1, 20)])
    stp = rng.choice([1, 2, m, 10, rng.randint(1, 20)])
    base = {'stage': 'edges_rate', 'p': {'bsz': bsz, 'stp': stp}, 'm': m, 'init': init, 'detect': detect, 'bits': bits,
            'form': form, 'first': first, 'fs': 1000.0}
    edges_at = [i for i in range(N) if bits[i] != (bits[i - 1] if i else init)]
    chunkings = [[1] * N, _rand_sizes(rng, N, 6)]
    for d in (m, -m, rng.randint(0, m), rng.randint(-m, m + 1)):
        chunkings.append(_cut_at([e + d for e in edges_at], 0, N))         # a boundary d samples after EVERY edge
    e = rng.choice(edges_at) if edges_at else 0
    for d in range(-m, m + 2):
        chunkings.append(_cut_at([e + d], 0, N))                           # one boundary, every offset around one edge
    chunkings.append(_cut_at([e + m, e + m + rng.randint(1, 12)], 0, N))
    seen = set()
    for sizes in chunkings:
        if tuple(sizes) in seen or len(sizes) < 2:
            continue
        seen.add(tuple(sizes))
        yield dict(base, sizes=sizes)


_MATRICES = {1: [[[2]], [[-1]]],
             2: [[[1, -1], [0, 1]], [[2, 1], [1, 1]], [[0, 1], [1, 0]], [[1, 0], [0, 1]]],
             3: [[[1, -1, 0], [0, 1, -1], [0, 0, 1]], [[2, -1, -1], [-1, 2, -1], [1, 1, 1]]]}
def _with_zeros(rng, sizes):
    """insert zero-length chunks: in front, in the middle (also two in a row), at the end"""
    out = list(sizes)
    for _ in range(rng.randint(1, 3)):
        out.insert(rng.randint(0, len(out)), 0)
    if rng.random() < 0.3:
        out = [0] + out
    if rng.random() < 0.3:
        out = out + [0]
    return out


def _variant_cases(stage, rng, reps):
    """unusual-but-legal argument kinds (see the audit table in the report): dtypes, NumPy / int / float scalars for
    every numeric argument, off-grid seconds arguments (incl. exact .5 ties of round), read-only chunks, zero-length
    chunks, 1 / 2 / 3 channels, falsy / mixed-type / tuple labels, empty / nested / falsy metadata, every keyword of
    auto_th / iirfilter, callable kinds of transform, matrix kinds of mc_reference, a target that overwrites what it
    received, the Ellipsis reset message of blocked / discard"""
    for _ in range(reps):
        N = rng.choice([rng.randint(1, 12), rng.randint(1, 40), rng.randint(1, 150)])
        p = _params(stage, rng, N, False)
        two, ann = rng.random() < 0.5, rng.random() < 0.7
        if stage == 'derivative':
            ann = True
        v = {'dtype': rng.choice(['f8', 'i8', 'i4', 'f4', 'i2' if N < 30 and stage not in ('rms', 'derivative') else 'i8']),
             'pk': rng.choice(['int', 'np', 'np32']), 'fsk': rng.choice(['float', 'int', 'np']),
             's0k': rng.choice(['int', 'np']), 'ro': rng.random() < 0.4, 'clobber': rng.random() < 0.4,
             'lab': rng.randint(0, 3), 'md': rng.randint(0, 3), 'nch': rng.choice([1, 2, 3])}
        sizes = _rand_sizes(rng, N, 6)
        if rng.random() < 0.4:
            sizes = _with_zeros(rng, sizes)
        if stage == 'rms':
            p['off'] = rng.choice([0, 0.3, -0.4, 0.5, -0.5, 0.49])
        if stage == 'derivative':
            p['init'] = rng.choice([0, 3, -1, 2.5, 0.0])
        if stage == 'iirfilter':
            p['btype'] = rng.choice(['lowpass', 'highpass', 'bandpass'])
            p['ftype'] = rng.choice(['butter', 'cheby1', 'ellip', 'bessel'])
        if stage == 'transform':
            p['fn'] = rng.choice(sorted(_FUNCS))
        if stage == 'mc_reference':
            two = True
            p['matrix'] = rng.choice(_MATRICES[v['nch']])
            p['mk'] = rng.choice(['f8', 'i8', 'list', 'f4'])
        if stage == 'auto_th':
            p['off'] = rng.choice([0, 0.3, -0.4, 0.5, -0.5])
            p['nsd'] = rng.choice([1, 2, 1.5, 0.5, 3])
            p['nsdk'] = rng.choice(['py', 'np'])
            p['cur'] = rng.choice([None, None, 3.5, 0.25, -2.5])
            v['cb'] = rng.choice(['list', 'none', 'positional'])
            v['wired'] = p['cur'] is None and v['cb'] != 'none' and rng.random() < 0.5
            v['rail'] = v['dtype'] in ('i2', 'i4', 'i8') and rng.random() < 0.6
        if stage in ('blocked', 'discard') and rng.random() < 0.5:
            v['reset'] = _rand_sizes(rng, rng.randint(1, 12), 4)
        c = _case(stage, p, two, ann, sizes, rng)
        c['v'] = v
        if stage == 'auto_th':
            c['p']['fsarg'] = rng.choice(['auto', 'none', 'value']) if ann else 'value'
            if _ath_B(c) < 2 or (c['p']['cur'] is not None and v['cb'] == 'positional' and False):
                c['p']['off'] = 0
        if stage == 'rms':
            n = _rms_n(c)
            if n < 1:
                c['p']['off'] = 0
                n = _rms_n(c)
            if ann:
                c['s0'] = (c['s0'] // max(1, c['p']['n'])) * n        # rms: the block length divides the first s0
        yield c


def cases(tier, rng):
    quick = tier == 'quick'
    n_small, n_big = (7, 10) if quick else (9, 12)
    for stage in ARRAY_STAGES:
        stateless = stage in ('transform', 'mc_reference')
        for two in (False, True):
            for ann in (False, True):
                if stage == 'derivative' and not ann:
                    continue
                p = _params(stage, rng, n_small, True)
                for sizes in compositions(5 if stateless else n_small):
                    yield _case(stage, p, two, ann, sizes, rng)
        if stage == 'derivative':
            yield _case(stage, {'init': 0}, False, False, [2, 3], rng)
            yield _case(stage, {'init': 0}, True, False, [5], rng)
        if not stateless:
            p = _params(stage, rng, n_big, True)
            if 'q' in p:
                p['q'] = 4
            if 'bs' in p:
                p['bs'] = 4
            per = p.get('n', 1) if stage == 'rms' else 1
            # every chunking of n_big samples, the stream starting at -1 or -2 output samples (and at 0 / positive):
            # with all compositions present, every counter passes through 0 at a chunk boundary in many of them
            for k, sizes in enumerate(compositions(n_big)):
                yield _case(stage, p, False, True, sizes, rng, s0=[-1, -2, 0, -4, 60, -3][k % 6] * per)
        yield from _aligned_cases(stage, rng, (2 if stateless else 8) if quick else (10 if stateless else 120))
        yield from _variant_cases(stage, rng, (60 if stateless else 90) if quick else (400 if stateless else 1500))
        for _ in range((20 if stateless else 120) if quick else (200 if stateless else 3000)):
            N = rng.choice([rng.randint(1, 30), rng.randint(1, 120), rng.randint(1, 400)])
            p = _params(stage, rng, N, False)
            two, ann = rng.random() < 0.5, rng.random() < 0.6
            if stage == 'derivative':
                ann = True
            yield _case(stage, p, two, ann, _rand_sizes(rng, N, 6), rng)
    # event_rate
    for (bsz, stp) in ([(3, 2), (4, 1)] if quick else [(3, 2), (2, 3), (4, 1)]):
        for k, sizes in enumerate(compositions(9 if quick else 11)):
            yield _er_case(rng, sizes, bsz, stp, lo=[0, -2, -3, -bsz // 2 - 1, 17, -9][k % 6])
    for _ in range(150 if quick else 3000):
        N = rng.choice([rng.randint(1, 40), rng.randint(1, 300)])
        yield _er_case(rng, _rand_sizes(rng, N, 8), rng.choice([1, 2, 3, 5, rng.randint(1, 40)]),
                       rng.choice([1, 2, 3, 5, rng.randint(1, 40)]))
    # argument kinds: int / float / NumPy block_size and block_step, FRACTIONAL block_step (documented as float),
    # s0_mode values (keyword and positional), integer Events fs, NumPy event positions, a clobbering target
    for _ in range(120 if quick else 2000):
        N = rng.choice([rng.randint(1, 30), rng.randint(1, 150)])
        sizes = _rand_sizes(rng, N, 8)
        if rng.random() < 0.4:
            sizes = _with_zeros(rng, sizes)            # Events chunks that span zero samples
        c = _er_case(rng, sizes, rng.choice([1, 2, 3, 4, 5, rng.randint(1, 30)]),
                     rng.choice([1, 2, 3, 5, rng.randint(1, 30)]))
        c['v'] = {'bk': rng.choice(['int', 'float', 'np', 'npf']), 'mode': rng.choice([None, 'center', 'left', 'right']),
                  'positional': rng.random() < 0.5, 'fsk': rng.choice(['float', 'int']),
                  'evk': rng.choice(['int', 'np']), 'clobber': rng.random() < 0.4}
        if rng.random() < 0.35:
            c['p']['den'] = 2
            c['p']['stp'] = 2 * rng.randint(0, 12) + 1          # block_step = 0.5, 1.5, 2.5, ...
        yield c
    # causal Events streams: events at or after the end of the block that carries them (as pipeline.edges emits them)
    for _ in range(70 if quick else 1500):
        yield from _er_ahead_group(rng)
    # rms on integer streams whose squares overflow the dtype; auto_th next to a sibling stage on the same chunks
    yield from _rms_int_cases(rng, 30 if quick else 600)
    yield from _bcast_cases(rng, 36 if quick else 700)
    # rms on annotated streams that start off the window grid (s0 = k*n + r)
    yield from _rms_offgrid_cases(rng, 40 if quick else 800)
    # composition: boolean stream -> real edges -> real event_rate
    for k in range(24 if quick else 600):
        yield from _edges_rate_group(rng, k)


def distribution(cases_, results):
    d = {}
    for c in cases_:
        e = d.setdefault(c['stage'], {'cases': 0, 'annotated': 0, 'two_channel': 0, 'max_N': 0, 'max_chunks': 0})
        e['cases'] += 1
        e['annotated'] += int(bool(c.get('ann', True)))
        e['two_channel'] += int(bool(c.get('two')))
        e['max_N'] = max(e['max_N'], sum(c['sizes']))
        e['max_chunks'] = max(e['max_chunks'], len(c['sizes']))
    return d


def search(tier, rng):
    """wider property-level search on the implementation (only run when something already broke)"""
    found = []
    for c in itertools.islice(cases('quick', rng), 0, None, 7):
        try:
            r = impl(c)
        except Exception as e:
            found.append((c, f'unexpected {type(e).__name__}: {e}'))
            continue
        m = oracle(c, r)
        if m:
            found.append((c, m))
        if len(found) >= 3:
            break
    return found


# ====================================================================================================================
# translator tie (added): the index bookkeeping of discard / blocked / downsample / derivative / decimate is REGENERATED
# from the source on every run (translate/pycoro2coq.py -> coq/gen/StagesStepGen.v); coq/Stages/ProofsTie.v proves the
# generated step functions equal to the step functions of Stages/Model.v and restates the C12 theorems over them
# (C12_source_* in coq/Props/C12.v).  A source the translator cannot digest, a generated file that does not compile, a
# failing self-test or a tie proof that no longer goes through is reported by the driver as a broken tie.
GEN = 'gen/StagesStepGen.v'
TIE_STAGES = {'discard': ('check_discard ', 'gcheck_discard '), 'blocked': ('check_blocked ', 'gcheck_blocked '),
              'downsample': ('check_downsample true ', 'gcheck_downsample '),
              'derivative': ('check_derivative ', 'gcheck_derivative '),
              'decimate': ('check_decimate_e true ', 'gcheck_decimate ')}
TRUSTED = TRUSTED + [
    'translate/pycoro2coq.py (coroutine-to-step translator: Python assignment / if / while / augmented assignment / list append '
    'as let / if / fuelled Fixpoint over Z and the block type of Stages/Model.v; x[..., a:b:c] -> getitem, concat -> concat2 / '
    'concat_list, getattr(y, "s0", 0) -> s0_of, isinstance(x, PipelineData) -> match on the annotations, x.s0 = e -> set_s0, '
    '% -> py_mod (None for a zero divisor), truth of len(x) -> py_len_true (a 2-D array has >= 1 channel); objects are values: a '
    'slice / concat result never aliases a variable that is written later; slice steps >= 1). PINNED by their exact text and '
    'mapped to abstract parameters or dropped: the @coroutine decorator; the `is Ellipsis` restart branches of discard and blocked '
    '(dropped: the model has no restart message); derivative: np.full of the initial state -> np_full1, `np.diff(samples) * samples.fs` '
    '-> np_diff_fs with the abstract subtraction; decimate: the cheby1 design, the stability test, lfilter_zi, the `ndim == 2` '
    'reshaping of zf -> abstract zf0, signal.lfilter -> mapAccum of the abstract one-sample recurrence. Self-test on every '
    'translation: the generated definitions, evaluated by coqc, against the real coroutines on 60 chunkings.']


def _tie_cases():
    import random
    rng = random.Random(20261001)
    out = []
    for st, ps in (('discard', [{'d': 0}, {'d': 2}, {'d': 5}, {'d': 40}]), ('blocked', [{'bs': 1}, {'bs': 3}, {'bs': 8}]),
                   ('downsample', [{'q': 1}, {'q': 2}, {'q': 3}, {'q': 5}]), ('derivative', [{'init': 0}, {'init': 3}]),
                   ('decimate', [{'q': 2}, {'q': 3}, {'q': 4}])):
        shapes = [[3, 3, 4], [1, 0, 1, 1, 5, 0, 2], [7], [0, 2, 6, 1], [2, 2, 2, 2, 3], [5, 1, 1, 9]]
        k = 0
        for two in (False, True):
            for ann in (False, True):
                for _ in range(3):
                    p, sizes = ps[k % len(ps)], shapes[k % len(shapes)]
                    k += 1
                    out.append(_case(st, p, two, ann, sizes, rng))
    return out


def _selftest(pycoro2coq):
    """the emitted definitions (evaluated by coqc on the model's executable instance) against the REAL coroutines"""
    import vlib
    terms, used = [], []
    for c in _tie_cases():
        try:
            res = impl(c)
        except Exception as e:                      # the code under test raises: the generated step must say None
            res = {'raised_allowed': f'{type(e).__name__}'}
        if 'crash' in res:
            continue
        t = term(c, res)
        old, new = TIE_STAGES[c['stage']]
        if old not in t:
            raise pycoro2coq.TranslatorGap(f'self-test: no model term for {c}')
        terms.append(t.replace(old, new))
        used.append(c)
    bad = vlib.run_cases(PROP, ['Stages.Model', 'gen.StagesStepGen'], terms, tag='tie')
    if bad:
        raise pycoro2coq.TranslatorGap(
            f'self-test: the generated definition disagrees with the real coroutine on {len(bad)} of {len(terms)} inputs, '
            f'first: {used[bad[0]]}')
    return {'evaluations': len(terms), 'disagreements': 0}


def translate(repo):
    """Regenerate coq/gen/StagesStepGen.v from <repo>/psiaudio/pipeline.py.  Any exception other than a MachineryError
    is reported by the driver as a broken tie (fail closed)."""
    import vlib
    from translate import pycoro2coq
    info = {'gen_files': [GEN], 'source': [os.path.join(repo, 'psiaudio/pipeline.py')], 'gap': None}
    head = ('(* GENERATED on every run by harness/C12.py translate() with translate/pycoro2coq.py from\n'
            f'   {repo}/psiaudio/pipeline.py - do not edit.  One pass of each coroutine from (yield) to (yield). *)\n')
    path = os.path.join(vlib.COQ, GEN)
    try:
        body, tinfo = pycoro2coq.translate(repo)
    except pycoro2coq.TranslatorGap as e:
        # deliberately ill-typed: nothing that depends on the generated definitions can be built from a stale file
        msg = ''.join(ch if ch.isalnum() or ch in " _.,:;[]{}=+-/<>'`" else ' ' for ch in str(e))[:400]
        with open(path, 'w') as f:
            f.write(head + 'From Coq Require Import ZArith String.\n'
                    f'Definition translator_gap : Z :=\n  "{msg}"%string.\n')
        raise
    with open(path, 'w') as f:                                  # always rewritten: always re-checked
        f.write(head + body)
    rc, out = vlib.coq_build('gen/StagesStepGen.vo')
    if rc != 0:
        if not os.path.exists(os.path.join(vlib.COQ, 'Stages/Model.vo')):
            raise vlib.MachineryError('Stages/Model.v does not build:\n' + out[-3000:])
        raise pycoro2coq.TranslatorGap('the generated definitions do not type-check: ' + out[-1200:])
    info.update(functions=tinfo['functions'], notes=tinfo['notes'], selftest=_selftest(pycoro2coq))
    return info


# ---- translator tie, second batch (added): rms, event_rate, transform, mc_reference, iirfilter --------------------------------
TIE_STAGES2 = {'rms': [('check_rms true ', 'gcheck_rms '), ('check_rms_x true ', 'gcheck_rms_x ')],
               'event_rate': [('check_event_rate true ', 'gcheck_event_rate ')],
               'transform': [('check_map ', 'gcheck_transform ')], 'mc_reference': [('check_map ', 'gcheck_mc_reference ')],
               'iirfilter': [('check_iir_e true ', 'gcheck_iirfilter ')]}
TRUSTED = TRUSTED + [
    'translate/pycoro2coq.py, second batch: rms (n = int(round(fs * duration)) -> abstract n; the reshape / astype(double) / '
    'np.mean(d ** 2, axis=-1) ** 0.5 lines pinned -> rms_value with the abstract block value agg; the FLOAT s0 of the mean and the '
    'counter `out_s0 + n_blocks` pinned -> abstract s0div / s0add, instantiated as (s / n, +) and as (s, + n * k) = n times the exact '
    'rational value; data[-1] -> py_last), event_rate (Events.start/.end/.range_samples/get_range_samples/combine_events -> e_lo / '
    'e_hi / get_range / combine_events of the model; half-sample s0 kept doubled; keep = sample >= start + Events(..) -> trim_left; '
    'b.rate() -> event count; PipelineData([rate], s0, fs) -> Rb), transform / mc_reference (function(data) / matrix @ chunk -> '
    'map_blk of an abstract per-sample function), iirfilter (design / stability / lfilter_zi pinned, zi * y[..., :1] -> abstract '
    'finit, lfilter -> mapAccum; the waiting loop on empty chunks -> state None).  x.channel = e -> set_ch; an annotation read on '
    'an array not known to be PipelineData -> None (AttributeError); after x.s0 = / x.channel = the translator tracks the '
    'annotation record of x itself.  Self-test: 60 + 70 inputs.']


def _tie_cases2():
    import random
    rng = random.Random(20261002)
    out = []
    shapes = [[3, 3, 4], [1, 0, 1, 1, 5, 0, 2], [7], [0, 2, 6, 1], [2, 2, 2, 2, 3], [5, 1, 1, 9], [0, 0, 4, 4]]
    for st, ps in (('rms', [{'n': 1}, {'n': 2}, {'n': 3}, {'n': 5}]), ('transform', [{'fn': 'affine'}, {'fn': 'neg'}]),
                   ('mc_reference', [{'matrix': [[1, -1], [0, 1]]}, {'matrix': [[2, 1], [1, 1]]}]),
                   ('iirfilter', [{'order': 1}, {'order': 2}])):
        k = 0
        for two in (False, True):
            for ann in (False, True):
                for _ in range(3):
                    p, sizes = ps[k % len(ps)], shapes[k % len(shapes)]
                    k += 1
                    s0 = None
                    if st == 'rms' and ann:
                        s0 = p['n'] * rng.choice([0, 3, -2])          # on the block grid; off-grid cases below
                    out.append(_case(st, p, two, ann, sizes, rng, s0=s0))
    out += list(itertools.islice(_rms_offgrid_cases(rng, 3), 10))
    for sizes, bsz, stp in (([9], 3, 2), ([2, 3, 4], 3, 1), ([5, 0, 5, 7], 4, 4), ([1, 1, 1, 1, 8], 2, 5), ([20, 3], 7, 3),
                            ([4, 4, 4], 1, 1), ([0, 6, 6], 5, 2), ([30], 10, 10), ([3, 9, 2, 11], 6, 4), ([12, 1], 0, 3),
                            ([7, 7], 8, 1), ([2, 2, 2, 2, 2, 2], 3, 3)):
        out.append(_er_case(rng, sizes, bsz, stp))
    return out


def _selftest(pycoro2coq):                      # replaces the first-batch self-test: both batches
    """the emitted definitions (evaluated by coqc on the model's executable instance) against the REAL coroutines"""
    import vlib
    terms, used = [], []
    for c in _tie_cases() + _tie_cases2():
        try:
            res = impl(c)
        except Exception as e:                      # the code under test raises: the generated step must say None
            res = {'raised_allowed': f'{type(e).__name__}'}
        if 'crash' in res:
            continue
        t = term(c, res) if 'raised_allowed' not in res or c['stage'] != 'event_rate' else None
        if t is None:
            continue
        pairs = [TIE_STAGES[c['stage']]] if c['stage'] in TIE_STAGES else TIE_STAGES2[c['stage']]
        hit = [(old, new) for old, new in pairs if old in t]
        if len(hit) != 1:
            raise pycoro2coq.TranslatorGap(f'self-test: no model term for {c}')
        terms.append(t.replace(*hit[0]))
        used.append(c)
    bad = vlib.run_cases(PROP, ['Stages.Model', 'gen.StagesStepGen'], terms, tag='tie')
    if bad:
        raise pycoro2coq.TranslatorGap(
            f'self-test: the generated definition disagrees with the real coroutine on {len(bad)} of {len(terms)} inputs, '
            f'first: {used[bad[0]]}')
    return {'evaluations': len(terms), 'disagreements': 0}


# ---- translator tie, third batch (added): auto_th ----------------------------------------------------------------------
TIE_STAGES2['auto_th'] = [('check_autoth ', 'gcheck_auto_th ')]
TRUSTED = TRUSTED + [
    'translate/pycoro2coq.py, auto_th: a coroutine that spools before its main loop (`x = (yield)`; pinned set-up; `while <test>: '
    'x = concat((x, (yield)), axis=-1)`; set-up; `while True: ..; x = (yield)`) becomes a three-phase step over the state '
    'option (blk A) + T (inl None: nothing received, inl (Some data): spooling, inr threshold: running).  PINNED: fs read from the '
    'first chunk and baseline_samples = int(np.round(baseline * fs)) -> abstract input; the threshold line '
    '`data[..., :baseline_samples].view(np.ndarray).std() * n` -> abstract thr of the first baseline_samples samples; log.info, '
    'auto_th_cb, the `th` / th_cb lambdas (mode, current_th_cb) -> abstract comparison ge; `result.metadata["auto_th"] = th` dropped '
    '(the harness ignores that metadata key).  Self-test: 60 + 70 + 16 inputs.']
_tie_cases2_batch2 = _tie_cases2


def _tie_cases3():
    import random
    rng = random.Random(20261003)
    out = []
    shapes = [[3, 3, 4], [1, 0, 1, 1, 5, 0, 2], [7], [0, 2, 6, 1], [2, 2, 2, 2, 3], [5, 1, 1, 9], [0, 0, 4, 4], [1, 1]]
    ps = [{'B': 2, 'nsd': 1, 'mode': 'positive'}, {'B': 4, 'nsd': 2, 'mode': 'negative'}, {'B': 7, 'nsd': 1, 'mode': 'both'},
          {'B': 12, 'nsd': 1, 'mode': 'positive'}]
    k = 0
    for two in (False, True):
        for ann in (False, True):
            for _ in range(4):
                p, sizes = dict(ps[k % len(ps)], fsarg='value'), shapes[k % len(shapes)]
                k += 1
                out.append(_case('auto_th', p, two, ann, sizes, rng))
    return out


def _tie_cases2():                               # replaces the second-batch list: second and third batch
    return _tie_cases2_batch2() + _tie_cases3()
