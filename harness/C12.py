"""C12 - streaming pipeline stages are chunk-invariant and keep a contiguous time base.
Model: coq/Stages/Model.v (proofs coq/Stages/Proofs*.v, theorems coq/Props/C12.v).

Every case drives the REAL coroutine of psiaudio.pipeline with one chunking of one stream and records every
object passed to the target: values, .s0, .fs, .channel, .metadata.  Sample values are turned into *recipes*
(position in the stage's one-shot whole-signal result, computed here with ONE call of the same numpy/scipy
primitive and compared bit-exactly), so that the integer model of Stages/Model.v can be compared with `==`."""
import itertools
import os
import numpy as np
from vlib import zlit, zlist, listlit

PROP = 'C12'
REQUIRES = ['Stages.Model']
RULE = ('per stage (blocked, discard, downsample, decimate, rms, derivative, iirfilter, transform, mc_reference, auto_th): '
        'ALL compositions (chunkings) of a stream of N samples (quick: N=7 for 1-D/2-channel x plain/annotated, N=10 for 1-D annotated; '
        'thorough: N=9 resp. 12) with a parameter that does not divide N, then seeded random chunkings of streams up to 400 samples with '
        'random parameters (q 1..5, block sizes 1..50, discard counts 0..N+2, rms block 1..50, filter orders 1..3, baseline 2..N+2), '
        '1-D and 2-channel, plain ndarray and PipelineData; annotated streams start at 0, at positive and at NEGATIVE s0 (pre-stimulus), half of them chosen so that a counter of the stage (output-sample counter, s0 of the held block, discard/block counter) is exactly 0, +-1 or its initial value at a chunk boundary of the chunking, plus dedicated chunkings cut exactly at / next to that point; fs in {1000, 44100, 195312.5}; '
        'event_rate: all compositions of spans of 9 (thorough 11) samples and random spans up to 300 with random events, window 1..40, step 1..40. '
        'Non-trivial: at least two chunks and at least one chunk boundary that is not a multiple of the stage period '
        '(or, for stateful filters/derivative/auto_th, any interior boundary). Distinct = distinct case dictionaries.')
TRUSTED = ['harness/C12.py (stream/chunking generator; recipe evaluation: one one-shot call of lfilter / np.diff / np.mean / std / matmul '
           'on the whole signal and bit-exact lookup of every emitted value in it; canonicalisation of .s0/.fs/.channel/.metadata to integers)',
           'NumPy basic slicing as modelled in coq/Common/PySlice.v; generators resuming where they yielded']
ASSUMPTIONS = ['chunks have >= 1 sample; all chunks of a stream carry the same fs, channel labels and metadata and are contiguous in s0',
               'parameters: q >= 1, block size >= 1, discard count >= 0, rms block >= 1 and dividing the s0 of the first chunk '
               '(rms divides s0 by the block length in floating point), auto_th baseline >= 2 samples (std of 0 or 1 samples is NaN / 0)',
               'scipy.signal.lfilter is the sample-sequential recurrence whose final state zf, passed as zi, continues it exactly '
               '(abstract mapAccum in the proofs; exercised bit-exactly here); lfilter is never called on an empty array by the repaired code',
               'transform is claimed for elementwise functions, mc_reference for square matrices; derivative for annotated input only '
               '(it reads .fs; plain input raises AttributeError in code and model)',
               'event_rate: every event of an Events chunk lies inside the span of that chunk; block_size, block_step >= 1 integers',
               'the first output s0 of downsample/decimate is the input s0 itself (input-rate units); only contiguity is claimed for it']

FSS = [1000.0, 44100.0, 195312.5]
MD = {'k': 1}
LABELS = {None: 0, 'a': 1, 'b': 2}
BAD = -7
ARRAY_STAGES = ['blocked', 'discard', 'downsample', 'decimate', 'rms', 'derivative', 'iirfilter', 'transform',
                'mc_reference', 'auto_th']

KNOWN_KEYS = {
    'downsample': 'downsample:annotated-output-s0-in-input-samples',
    'decimate': 'decimate:remainder-filtered-twice',
    'iirfilter': 'iirfilter:drops-channel-metadata',
    'rms': 'rms:1d-annotated-channel-list-per-block',
    'auto_th': 'auto_th:fs-auto-TypeError',
    'event_rate': 'event_rate:first-chunk-not-processed',
}


# the failing inputs of the six defects repaired by the fix-C12 commits (always run first; also the witnesses
# replayed for a `known:` line should one of the repairs not be taken)
KNOWN_WITNESSES = {
    KNOWN_KEYS['downsample']: {'stage': 'downsample', 'p': {'q': 2}, 'two': False, 'ann': True, 's0': 0, 'fs': 1000.0,
                               'sizes': [3, 3, 4], 'seed': 1},
    KNOWN_KEYS['decimate']: {'stage': 'decimate', 'p': {'q': 3}, 'two': False, 'ann': False, 's0': 0, 'fs': 1000.0,
                             'sizes': [5, 5], 'seed': 1},
    KNOWN_KEYS['iirfilter']: {'stage': 'iirfilter', 'p': {'order': 1}, 'two': True, 'ann': True, 's0': 0, 'fs': 1000.0,
                              'sizes': [2, 3], 'seed': 1},
    KNOWN_KEYS['rms']: {'stage': 'rms', 'p': {'n': 2}, 'two': False, 'ann': True, 's0': 0, 'fs': 1000.0,
                        'sizes': [1, 4, 1, 5], 'seed': 1},
    KNOWN_KEYS['auto_th']: {'stage': 'auto_th', 'p': {'B': 4, 'nsd': 1, 'mode': 'positive', 'fsarg': 'auto'}, 'two': False,
                            'ann': True, 's0': 0, 'fs': 1000.0, 'sizes': [3, 3, 4], 'seed': 1},
    KNOWN_KEYS['event_rate']: {'stage': 'event_rate', 'p': {'bsz': 50, 'stp': 25}, 'lo': 0, 'fs': 1000.0, 'sizes': [200],
                               'events': [10, 30, 80, 190]},
}


def corpus():
    return [dict(c) for c in KNOWN_WITNESSES.values()]


# ------------------------------------------------------------------ data
def _gen(case, seed):
    N = sum(case['sizes'])
    st = case['stage']
    rs = np.random.RandomState(seed % (2 ** 31))
    rows = 2 if case['two'] else 1
    if st in ('blocked', 'discard', 'downsample', 'transform', 'mc_reference', 'rms'):
        X = np.stack([np.arange(N, dtype=float) + 1000 * r + 1 for r in range(rows)])
    elif st == 'derivative':
        X = np.stack([np.cumsum(rs.permutation(N) + 1 + r).astype(float) + case['p']['init'] for r in range(rows)])
    elif st == 'auto_th':
        X = rs.randint(-20, 21, size=(rows, N)).astype(float)
    else:
        X = rs.randint(-50, 51, size=(rows, N)).astype(float)
    return X if case['two'] else X[0]


def _data(case):
    """integer-valued input stream (N,) or (2, N), deterministic in the case; re-drawn (deterministically) until the
    one-shot reference identifies every output sample uniquely and no sample sits on the auto_th threshold"""
    for k in range(50):
        X = _gen(case, case.get('seed', 0) + 7919 * k)
        ref = _reference(case, X)
        if not _unique(case, ref):
            continue
        if case['stage'] == 'auto_th' and X.shape[-1] >= _n_eff_round(case['fs'], case['p']['B']) and X.size:
            th = _ref_threshold(case, X)
            if not (np.min(np.abs(np.abs(X) - th)) >= 1e-9):
                if np.isnan(th):
                    return X
                continue
        return X
    raise RuntimeError('harness: could not draw a stream with a unique reference')


def _wrap(case, x, lo):
    if not case['ann']:
        return x
    from psiaudio.pipeline import PipelineData
    return PipelineData(x, fs=case['fs'], s0=case['s0'] + lo, channel=(['a', 'b'] if case['two'] else None),
                        metadata=dict(MD))


def _chunks(case, X, sizes):
    out, lo = [], 0
    for n in sizes:
        out.append(_wrap(case, X[..., lo:lo + n].copy(), lo))
        lo += n
    return out


def _n_eff(fs, n):
    return int(round(fs * (n / fs)))


def _make(case, target, cb=None):
    from psiaudio import pipeline as P
    st, p = case['stage'], case['p']
    if st == 'blocked':
        return P.blocked(p['bs'], target)
    if st == 'discard':
        return P.discard(p['d'], target)
    if st == 'downsample':
        return P.downsample(p['q'], target)
    if st == 'decimate':
        return P.decimate(p['q'], target)
    if st == 'rms':
        return P.rms(case['fs'], p['n'] / case['fs'], target)
    if st == 'derivative':
        return P.derivative(p['init'], target)
    if st == 'iirfilter':
        return P.iirfilter(case['fs'], p['order'], case['fs'] / 5, None, None, 'lowpass', 'butter', target)
    if st == 'transform':
        return P.transform(_FUNCS[p['fn']], target)
    if st == 'mc_reference':
        return P.mc_reference(np.array(p['matrix'], dtype=float), target)
    if st == 'auto_th':
        fsarg = {'auto': 'auto', 'none': None, 'value': case['fs']}[p['fsarg']]
        return P.auto_th(p['nsd'], p['B'] / case['fs'], target, fs=fsarg, mode=p['mode'], auto_th_cb=cb)
    raise KeyError(st)


_FUNCS = {'affine': lambda d: d * 2 + 1, 'neg': lambda d: -d, 'sqrt': lambda d: np.sqrt(d)}


def _reference(case, X):
    """the stage's whole-signal definition, ONE call of the same primitive; rows x M array (or None)"""
    from scipy import signal
    st, p = case['stage'], case['p']
    N = X.shape[-1]
    X2 = np.atleast_2d(X)
    if st in ('blocked', 'discard', 'downsample'):
        return X2
    if st == 'decimate':
        b, a = signal.cheby1(4, 0.05, 0.8 / p['q'])
        zi = signal.lfilter_zi(b, a)
        return signal.lfilter(b, a, X2, zi=zi[np.newaxis] * np.ones((X2.shape[0], 1)), axis=-1)[0]
    if st == 'iirfilter':
        b, a = signal.iirfilter(p['order'], case['fs'] / 5, None, None, 'lowpass', ftype='butter', fs=case['fs'])
        zi = signal.lfilter_zi(b, a)
        return signal.lfilter(b, a, X2, zi=zi * X2[..., :1], axis=-1)[0]
    if st == 'rms':
        n = _n_eff(case['fs'], p['n'])
        nb = N // n
        d = X2[..., :nb * n].reshape(X2.shape[0], nb, n)
        return np.mean(d ** 2, axis=-1) ** 0.5
    if st == 'derivative':
        pad = np.full((X2.shape[0], 1), float(p['init']))
        return np.diff(np.concatenate([pad, X2], axis=-1)) * case['fs']
    if st == 'transform':
        return _FUNCS[p['fn']](X2)
    if st == 'mc_reference':
        return np.array(p['matrix'], dtype=float) @ X2
    if st == 'auto_th':
        B = _n_eff_round(case['fs'], p['B'])
        if N < B:
            return np.zeros((X2.shape[0], 0))
        th = X[..., :B].std() * p['nsd']
        m = p['mode']
        r = (X2 >= th) if m == 'positive' else (X2 <= -th) if m == 'negative' else ((X2 >= th) | (X2 <= -th))
        return r.astype(float)
    raise KeyError(st)


def _n_eff_round(fs, B):
    return int(np.round((B / fs) * fs))


def _ref_threshold(case, X):
    B = _n_eff_round(case['fs'], case['p']['B'])
    return float(X[..., :B].std() * case['p']['nsd'])


def _lookups(case, ref):
    st = case['stage']
    if st == 'auto_th':
        return None
    if st == 'mc_reference':
        return [{tuple(ref[:, i].tolist()): i for i in range(ref.shape[1])}]
    return [{float(v): i for i, v in enumerate(row)} for row in ref]


def _unique(case, ref):
    st = case['stage']
    if st == 'auto_th':
        return True
    if st == 'mc_reference':
        return len({tuple(ref[:, i].tolist()) for i in range(ref.shape[1])}) == ref.shape[1]
    return all(len(set(row.tolist())) == len(row) for row in ref)


# ------------------------------------------------------------------ canonicalisation of emitted objects
def _fsd(fs_in, fs):
    if fs is None or not fs:
        return -1
    d = int(round(fs_in / fs))
    return d if d >= 1 and fs_in / d == fs else -1


def _s0(v):
    try:
        f = float(v)
    except Exception:
        return -99999
    return int(f) if f == int(f) else -99999


def _md(md):
    if isinstance(md, dict):
        md = {k: v for k, v in md.items() if k != 'auto_th'}
    return 7 if md == MD else 0 if md == {} else -1


def _ch(ch):
    if ch is None:
        return None
    if isinstance(ch, list):
        return [LABELS.get(c, 99) if (c is None or isinstance(c, str)) else 99 for c in ch]
    return [98]


def _encode(case, o, lookups):
    from psiaudio.pipeline import PipelineData
    a = np.asarray(o)
    st = case['stage']
    two = a.ndim == 2
    a2 = np.atleast_2d(a)
    if st == 'auto_th':
        rows = [[int(bool(v)) for v in row] for row in a2]
    elif st == 'mc_reference':
        rows = [[lookups[0].get(tuple(a2[:, i].tolist()), BAD) for i in range(a2.shape[1])]]
    else:
        rows = [[lookups[r].get(float(v), BAD) for v in row] for r, row in enumerate(a2)]
    ann = None
    if isinstance(o, PipelineData):
        ann = [_s0(o.s0), _fsd(case['fs'], o.fs), _ch(o.channel), _md(o.metadata)]
    return {'rows': rows, 'two': bool(two), 'ann': ann, 'n': int(a2.shape[-1])}


def _drive(case, chunks, cb=None):
    outs = []
    cr = _make(case, outs.append, cb)
    for c in chunks:
        cr.send(c)
    return outs


def _impl_array(case):
    from psiaudio import pipeline as P
    X = _data(case)
    ref = _reference(case, X)
    lookups = _lookups(case, ref)
    ths, ths1 = [], []
    allowed = None
    try:
        outs = _drive(case, _chunks(case, X, case['sizes']), ths.append)
        one = _drive(case, _chunks(case, X, [X.shape[-1]]), ths1.append)
    except AttributeError as e:
        if case['stage'] == 'derivative' and not case['ann']:
            return {'raised_allowed': 'AttributeError'}      # plain arrays have no .fs (documented scope)
        raise
    except TypeError as e:
        if case['stage'] == 'auto_th' and case['p'].get('fsarg') == 'auto':
            # NOT allowed by the property: recorded as a value so that the failing input gets its key
            return {'crash': f'TypeError: {e}'[:200]}
        raise
    res = {'outs': [_encode(case, o, lookups) for o in outs],
           'one': [_encode(case, o, lookups) for o in one]}
    if case['ann'] and outs:
        try:
            c = P.concat(outs, axis=-1)
            ok = np.array_equal(np.asarray(c), np.concatenate([np.asarray(o) for o in outs], axis=-1))
            res['concat'] = 'ok' if ok and _s0(c.s0) == _s0(outs[0].s0) else 'concat returned other values or s0'
        except ValueError as e:
            res['concat'] = 'ValueError: ' + str(e)[:200]
    if case['stage'] == 'auto_th':
        N = X.shape[-1]
        B = _n_eff_round(case['fs'], case['p']['B'])
        want = [_ref_threshold(case, X)] if N >= B else []
        res['th_ok'] = bool(ths == want and ths1 == want)
        res['table'] = [[int(v) for v in row] for row in ref] if N >= B else [[] for _ in ref]
        th_objs = {id(o.metadata.get('auto_th')) for o in outs if isinstance(o, P.PipelineData)}
        res['th_meta_ok'] = len(th_objs) <= 1
    return res


# ------------------------------------------------------------------ event_rate
def _events(case):
    from psiaudio.pipeline import Events
    lo = case['lo']
    out = []
    for n in case['sizes']:
        ev = [('rising', e) for e in case['events'] if lo <= e < lo + n]
        out.append(Events(ev, lo, lo + n, case['fs']))
        lo += n
    return out


def _enc_rate(case, o):
    bsz, stp, fs = case['p']['bsz'], case['p']['stp'], case['fs']
    a = np.asarray(o)
    counts = []
    for v in a.reshape(-1):
        c = int(round(float(v) * bsz / fs))
        counts.append(c if c / bsz * fs == float(v) else -1)
    s2 = 2 * float(o.s0)
    return {'counts': counts, 's0x2': int(s2) if s2 == int(s2) else -99999,
            'fsd': stp if fs / stp == o.fs else -1, 'shape_ok': a.ndim == 2 and a.shape[0] == 1,
            'ch': _ch(o.channel), 'md': _md(o.metadata)}


def _impl_events(case):
    from psiaudio import pipeline as P
    import copy
    p = case['p']

    def drive(chs):
        outs = []
        cr = P.event_rate(p['bsz'], p['stp'], outs.append)
        for c in chs:
            cr.send(c)
        return outs
    outs = drive(_events(case))
    one = drive(_events(dict(case, sizes=[sum(case['sizes'])])))
    res = {'outs': [_enc_rate(case, o) for o in outs], 'one': [_enc_rate(case, o) for o in one]}
    if outs:
        try:
            P.concat(outs, axis=-1)
            res['concat'] = 'ok'
        except ValueError as e:
            res['concat'] = 'ValueError: ' + str(e)[:200]
    return res


def impl(case):
    if case['stage'] == 'event_rate':
        return _impl_events(case)
    return _impl_array(case)


# ------------------------------------------------------------------ model terms
def _hdr(case):
    two = 'true' if case['two'] else 'false'
    if not case['ann']:
        return f'(Hdr {two} None)'
    ch = 'Some [1; 2]' if case['two'] else 'None'
    return f'(Hdr {two} (Some (1, {ch}, 7)))'


def _blk(o, r):
    two = 'true' if o['two'] else 'false'
    if o['ann'] is None:
        an = 'None'
    else:
        s0, fsd, ch, md = o['ann']
        chs = 'None' if ch is None else f'(Some {zlist(ch)})'
        an = f'(Some (An {zlit(s0)} {zlit(fsd)} {chs} {zlit(md)}))'
    return f'Blk {zlist(o["rows"][r])} {two} {an}'


def _got(res, r):
    if 'raised_allowed' in res:
        return 'None'
    return '(Some ' + listlit([_blk(o, r) for o in res['outs']]) + ')'


def term(case, res):
    st, p = case['stage'], case['p']
    if 'crash' in res:
        return 'false'
    # C12_MODEL_UNREPAIRED=1 compares with the `rep = false` variants of the model instead (used once, by hand, to
    # validate the `_unrepaired` model functions against the tree before the fix-C12 commits)
    rep = 'false' if os.environ.get('C12_MODEL_UNREPAIRED') else 'true'
    if st == 'event_rate':
        cs, lo = [], case['lo']
        for n in case['sizes']:
            cs.append(f'Ev {zlist([e for e in case["events"] if lo <= e < lo + n])} {zlit(lo)} {zlit(lo + n)}')
            lo += n
        got = listlit([f'Rb {zlist(o["counts"])} {zlit(o["s0x2"])} {zlit(o["fsd"])}' for o in res['outs']])
        return f'check_event_rate {rep} {zlit(p["bsz"])} {zlit(p["stp"])} {listlit(cs)} (Some {got})'
    h, s0, sizes = _hdr(case), zlit(case['s0'] if case['ann'] else 0), zlist(case['sizes'])
    nrows = 1 if 'raised_allowed' in res else (len(res['outs'][0]['rows']) if res['outs'] else 1)
    ts = []
    for r in range(nrows):
        got = _got(res, r)
        if st == 'blocked':
            t = f'check_blocked {zlit(p["bs"])} {h} {s0} {sizes} {got}'
        elif st == 'discard':
            t = f'check_discard {zlit(p["d"])} {h} {s0} {sizes} {got}'
        elif st == 'downsample':
            t = f'check_downsample {rep} {zlit(p["q"])} {h} {s0} {sizes} {got}'
        elif st == 'decimate':
            t = f'check_decimate {rep} {zlit(p["q"])} {h} {s0} {sizes} {got}'
        elif st == 'rms':
            t = f'check_rms {rep} {zlit(_n_eff(case["fs"], p["n"]))} {h} {s0} {sizes} {got}'
        elif st == 'derivative':
            t = f'check_derivative {h} {s0} {sizes} {got}'
        elif st == 'iirfilter':
            t = f'check_iir {rep} {h} {s0} {sizes} {got}'
        elif st in ('transform', 'mc_reference'):
            t = f'check_map {h} {s0} {sizes} {got}'
        elif st == 'auto_th':
            t = f'check_autoth {zlit(_n_eff_round(case["fs"], p["B"]))} {zlist(res["table"][r])} {h} {s0} {sizes} {got}'
        else:
            raise KeyError(st)
        if t not in ts:
            ts.append(t)
    return ' && '.join(f'({t})' for t in ts)


# ------------------------------------------------------------------ the property on the implementation
def _period(case):
    st, p = case['stage'], case['p']
    return {'blocked': p.get('bs'), 'downsample': p.get('q'), 'decimate': p.get('q'),
            'rms': p.get('n')}.get(st, 0) or 0


def _want_ids(case):
    st, p = case['stage'], case['p']
    N = sum(case['sizes'])
    if st == 'blocked':
        return list(range(p['bs'] * (N // p['bs'])))
    if st == 'discard':
        return list(range(min(p['d'], N), N))
    if st in ('downsample', 'decimate'):
        return list(range(0, p['q'] * (N // p['q']), p['q']))
    if st == 'rms':
        return list(range(N // _n_eff(case['fs'], p['n'])))
    return list(range(N))


def _out_fsd(case):
    st, p = case['stage'], case['p']
    return {'downsample': p.get('q'), 'decimate': p.get('q'),
            'rms': _n_eff(case['fs'], p['n']) if st == 'rms' else None}.get(st) or 1


def _cat(outs, r):
    return [v for o in outs for v in o['rows'][r]]


def oracle(case, res):
    st, p = case['stage'], case['p']
    if 'raised_allowed' in res:
        return None
    if 'crash' in res:
        return f'{st}{p}: the stage cannot process the stream at all: {res["crash"]}'
    outs, one = res['outs'], res['one']
    if st == 'event_rate':
        return _oracle_events(case, res)
    N = sum(case['sizes'])
    nrows = 1 if (st == 'mc_reference' or not case['two']) else 2
    for r in range(nrows):
        got = _cat(outs, r) if outs else []
        if st == 'auto_th':
            want = res['table'][r]
        else:
            want = _want_ids(case)
        if got != want:
            k = next((i for i, (a, b) in enumerate(zip(got, want)) if a != b), min(len(got), len(want)))
            return (f'{st}{p}: concatenated output differs from the whole-signal definition at output sample {k} '
                    f'(row {r}; {len(got)} samples emitted, {len(want)} expected; chunking {case["sizes"][:12]})')
        if got != (_cat(one, r) if one else []):
            return f'{st}{p}: chunking {case["sizes"][:12]} and the single chunk [{N}] give different concatenated output'
    if st == 'blocked' and any(o['n'] != p['bs'] for o in outs):
        return f'blocked{p}: emitted block lengths {[o["n"] for o in outs][:8]}'
    if st == 'auto_th' and not (res['th_ok'] and res['th_meta_ok']):
        return f'auto_th{p}: threshold differs from std(first B samples)*n of the whole signal, or differs between blocks'
    if not case['ann']:
        if any(o['ann'] is not None for o in outs):
            return f'{st}: plain input gave annotated output'
        return None
    # annotated input: contiguity, rate, labels, metadata
    fsd = _out_fsd(case)
    ch = [1, 2] if (case['two']) else None
    for k, o in enumerate(outs):
        if o['ann'] is None:
            return f'{st}{p}: output block {k} lost its annotations'
        s0, f, c, m = o['ann']
        if f != fsd:
            return f'{st}{p}: output block {k} has fs != input fs / {fsd}'
        if c != ch:
            return f'{st}{p}: output block {k} has channel labels {c}, input has {ch}'
        if m != 7:
            return f'{st}{p}: output block {k} does not carry the input metadata'
        if k + 1 < len(outs) and outs[k + 1]['ann'] is not None and outs[k + 1]['ann'][0] != s0 + o['n']:
            return (f'{st}{p}: output block {k} starts at s0={s0} with {o["n"]} samples but block {k + 1} starts at '
                    f's0={outs[k + 1]["ann"][0]} (chunking {case["sizes"][:12]}, input s0={case["s0"]})')
    if outs and res.get('concat') != 'ok':
        return f'{st}{p}: pipeline.concat of the consecutive outputs fails: {res.get("concat")}'
    if outs and one and outs[0]['ann'][0] != one[0]['ann'][0]:
        return f'{st}{p}: first output s0 {outs[0]["ann"][0]} depends on the chunking (single chunk: {one[0]["ann"][0]})'
    return None


def _er_spec(case):
    p = case['p']
    lo, hi = case['lo'], case['lo'] + sum(case['sizes'])
    out, s = [], lo
    while hi - s > p['bsz']:
        out.append(sum(1 for e in case['events'] if s <= e < s + p['bsz']))
        s += p['stp']
    return out


def _oracle_events(case, res):
    p = case['p']
    outs, one = res['outs'], res['one']
    got = [c for o in outs for c in o['counts']]
    want = _er_spec(case)
    if got != want:
        return (f'event_rate{p}: chunking {case["sizes"][:12]} gives window counts {got[:12]} ({len(got)}), '
                f'the whole span gives {want[:12]} ({len(want)})')
    if got != [c for o in one for c in o['counts']]:
        return f'event_rate{p}: chunking {case["sizes"][:12]} and a single chunk give different output'
    for k, o in enumerate(outs):
        if o['fsd'] != p['stp'] or not o['shape_ok']:
            return f'event_rate{p}: block {k} has the wrong rate or shape'
        if k + 1 < len(outs) and outs[k + 1]['s0x2'] != o['s0x2'] + 2 * len(o['counts']):
            return f'event_rate{p}: block {k + 1} does not start where block {k} ended'
    if outs and res.get('concat') != 'ok':
        return f'event_rate{p}: pipeline.concat of the consecutive outputs fails: {res.get("concat")}'
    if outs and outs[0]['s0x2'] != 2 * case['lo'] + p['bsz']:
        return f'event_rate{p}: first s0 is not the centre of the first window'
    return None


def nontrivial(case, res):
    if len(case['sizes']) < 2 or (isinstance(res, dict) and ('raised_allowed' in res or 'crash' in res)):
        return False
    st = case['stage']
    if st in ('transform', 'mc_reference'):
        return False
    per = _period(case)
    if st == 'event_rate':
        per = 0
    if per:
        acc = 0
        for n in case['sizes'][:-1]:
            acc += n
            if acc % per:
                return True
        return False
    return True


def key(case, res):
    st = case['stage']
    if st == 'downsample' and case.get('ann'):
        return KNOWN_KEYS[st]
    if st == 'decimate' and len(case['sizes']) > 1:
        return KNOWN_KEYS[st]
    if st == 'iirfilter' and case.get('ann'):
        return KNOWN_KEYS[st]
    if st == 'rms' and case.get('ann') and not case.get('two'):
        return KNOWN_KEYS[st]
    if st == 'auto_th' and case['p'].get('fsarg') == 'auto':
        return KNOWN_KEYS[st]
    if st == 'event_rate' and len(case['sizes']) == 1:
        return KNOWN_KEYS[st]
    return None


# ------------------------------------------------------------------ generators
def compositions(N):
    for cuts in itertools.product([0, 1], repeat=N - 1):
        sizes, run_ = [], 1
        for c in cuts:
            if c:
                sizes.append(run_)
                run_ = 1
            else:
                run_ += 1
        sizes.append(run_)
        yield sizes


def _rand_sizes(rng, N, small):
    sizes, left = [], N
    while left > 0:
        m = rng.choice([1, 1, 2, 3, rng.randint(1, small), rng.randint(1, max(1, N // 2))])
        m = min(m, left)
        sizes.append(m)
        left -= m
    return sizes


def _params(stage, rng, N, exhaustive):
    if stage == 'blocked':
        return {'bs': 3 if exhaustive else rng.choice([1, 2, 3, 4, 5, 7, rng.randint(1, 50)])}
    if stage == 'discard':
        return {'d': 3 if exhaustive else rng.choice([0, 1, 2, N - 1, N, N + 2, rng.randint(0, N + 2)])}
    if stage in ('downsample', 'decimate'):
        return {'q': 3 if exhaustive else rng.choice([1, 2, 3, 4, 5] if stage == 'downsample' else [2, 3, 4, 5])}
    if stage == 'rms':
        return {'n': 3 if exhaustive else rng.choice([1, 2, 3, 4, 5, 6, rng.randint(1, 50)])}
    if stage == 'derivative':
        return {'init': rng.choice([0, 3])}
    if stage == 'iirfilter':
        return {'order': rng.choice([1, 2, 3])}
    if stage == 'transform':
        return {'fn': rng.choice(sorted(_FUNCS))}
    if stage == 'mc_reference':
        return {'matrix': rng.choice([[[1, -1], [0, 1]], [[2, 1], [1, 1]], [[0, 1], [1, 0]]])}
    if stage == 'auto_th':
        return {'B': 4 if exhaustive else max(2, rng.choice([2, 3, N - 1, N, N + 2, rng.randint(2, N + 2)])),
                'nsd': rng.choice([1, 2]), 'mode': rng.choice(['positive', 'negative', 'both']),
                'fsarg': 'value'}
    raise KeyError(stage)


def _divisor(stage, p):
    """output samples per input sample = 1 / divisor"""
    return {'downsample': p.get('q'), 'decimate': p.get('q'), 'rms': p.get('n')}.get(stage) or 1


def _s0_choice(stage, p, sizes, rng):
    """First sample number of an annotated stream.  Besides 0 and positive starts: NEGATIVE starts (pre-stimulus
    streams), chosen so that the counters a stage keeps (output-sample counter s0 + emitted, the s0 of the block it is
    holding, discard / block counters) pass through exactly 0, +-1 and through their own initial value at a chunk
    boundary of THIS chunking (a counter that reaches a sentinel-like value must not be re-initialised)."""
    dv = _divisor(stage, p)
    per = p.get('n', 1) if stage == 'rms' else 1          # rms needs n | s0 (float division of s0)
    bounds, acc = [], 0
    for n in sizes:
        acc += n
        bounds.append(acc)
    P = rng.choice(bounds)                                 # input samples consumed at some chunk boundary
    E = P // dv                                            # output samples emitted by then
    if stage == 'discard':
        E = max(P - p['d'], 0)
    aligned = [-E, -P, 1 - P, -E - 1, 1 - E, -(P // dv) * dv]
    plain = [0, 0, 60, 7, -1, -rng.randint(1, 40), -rng.randint(1, 400)]
    s0 = rng.choice(aligned) if rng.random() < 0.5 else rng.choice(plain)
    return s0 * per


def _case(stage, p, two, ann, sizes, rng, fs=None, s0=None):
    fs = fs or rng.choice(FSS)
    if stage == 'mc_reference':
        two = True
    p = dict(p)
    if s0 is None:
        s0 = _s0_choice(stage, p, sizes, rng)
    if not ann:
        s0 = 0
    if stage == 'auto_th':
        p['fsarg'] = rng.choice(['auto', 'none', 'value']) if ann else 'value'
    return {'stage': stage, 'p': p, 'two': bool(two), 'ann': bool(ann), 's0': s0, 'fs': fs,
            'sizes': list(sizes), 'seed': rng.randint(0, 10 ** 6)}


def _aligned_cases(stage, rng, reps):
    """annotated streams starting at a negative s0 with a chunk boundary exactly where the stage's running counter
    reaches 0 (and one sample before / after it), then arbitrary further chunks"""
    for _ in range(reps):
        N0 = rng.randint(4, 40)
        p = _params(stage, rng, N0, False)
        dv = _divisor(stage, p)
        per = p.get('n', 1) if stage == 'rms' else 1
        k = rng.randint(1, 12)                              # the counter starts at -k (output samples)
        for extra in (0, 1, dv - 1 if dv > 1 else 2):
            first = dv * k + extra + (p['d'] if stage == 'discard' else 0)
            head = rng.choice([[first], _rand_sizes(rng, first, 6)])
            tail = _rand_sizes(rng, rng.randint(1, 3 * dv + 8), 6)
            sizes = head + tail
            if stage == 'auto_th':
                p = dict(p, B=max(2, min(p['B'], sum(sizes))))
            for s0 in sorted({-k * per, -dv * k * per, -first * per, (1 - first) * per}):
                yield _case(stage, p, rng.random() < 0.5, True, sizes, rng, s0=s0)


def _er_case(rng, sizes, bsz, stp, lo=None):
    if lo is None:
        bounds, acc = [], 0
        for n in sizes:
            acc += n
            bounds.append(acc)
        P = rng.choice(bounds)
        # s0 = lo + block_size / 2 counts emitted windows: let it (and the span start) pass through 0
        lo = rng.choice([0, 0, 17, -1, -P, -rng.randint(1, 60), -(bsz // 2) - rng.randint(0, 6),
                         -(bsz // 2) - max(0, (P - bsz - 1) // stp + 1)])
    N = sum(sizes)
    dens = rng.choice([0.05, 0.2, 0.5])
    events = [lo + i for i in range(N) if rng.random() < dens]
    return {'stage': 'event_rate', 'p': {'bsz': bsz, 'stp': stp}, 'lo': lo, 'fs': 1000.0,
            'sizes': list(sizes), 'events': events}


def cases(tier, rng):
    quick = tier == 'quick'
    n_small, n_big = (7, 10) if quick else (9, 12)
    for stage in ARRAY_STAGES:
        stateless = stage in ('transform', 'mc_reference')
        for two in (False, True):
            for ann in (False, True):
                if stage == 'derivative' and not ann:
                    continue
                p = _params(stage, rng, n_small, True)
                for sizes in compositions(5 if stateless else n_small):
                    yield _case(stage, p, two, ann, sizes, rng)
        if stage == 'derivative':
            yield _case(stage, {'init': 0}, False, False, [2, 3], rng)
            yield _case(stage, {'init': 0}, True, False, [5], rng)
        if not stateless:
            p = _params(stage, rng, n_big, True)
            if 'q' in p:
                p['q'] = 4
            if 'bs' in p:
                p['bs'] = 4
            per = p.get('n', 1) if stage == 'rms' else 1
            # every chunking of n_big samples, the stream starting at -1 or -2 output samples (and at 0 / positive):
            # with all compositions present, every counter passes through 0 at a chunk boundary in many of them
            for k, sizes in enumerate(compositions(n_big)):
                yield _case(stage, p, False, True, sizes, rng, s0=[-1, -2, 0, -4, 60, -3][k % 6] * per)
        yield from _aligned_cases(stage, rng, (2 if stateless else 8) if quick else (10 if stateless else 120))
        for _ in range((20 if stateless else 120) if quick else (200 if stateless else 3000)):
            N = rng.choice([rng.randint(1, 30), rng.randint(1, 120), rng.randint(1, 400)])
            p = _params(stage, rng, N, False)
            two, ann = rng.random() < 0.5, rng.random() < 0.6
            if stage == 'derivative':
                ann = True
            yield _case(stage, p, two, ann, _rand_sizes(rng, N, 6), rng)
    # event_rate
    for (bsz, stp) in ([(3, 2), (4, 1)] if quick else [(3, 2), (2, 3), (4, 1)]):
        for k, sizes in enumerate(compositions(9 if quick else 11)):
            yield _er_case(rng, sizes, bsz, stp, lo=[0, -2, -3, -bsz // 2 - 1, 17, -9][k % 6])
    for _ in range(150 if quick else 3000):
        N = rng.choice([rng.randint(1, 40), rng.randint(1, 300)])
        yield _er_case(rng, _rand_sizes(rng, N, 8), rng.choice([1, 2, 3, 5, rng.randint(1, 40)]),
                       rng.choice([1, 2, 3, 5, rng.randint(1, 40)]))


def distribution(cases_, results):
    d = {}
    for c in cases_:
        e = d.setdefault(c['stage'], {'cases': 0, 'annotated': 0, 'two_channel': 0, 'max_N': 0, 'max_chunks': 0})
        e['cases'] += 1
        e['annotated'] += int(bool(c.get('ann', True)))
        e['two_channel'] += int(bool(c.get('two')))
        e['max_N'] = max(e['max_N'], sum(c['sizes']))
        e['max_chunks'] = max(e['max_chunks'], len(c['sizes']))
    return d


def search(tier, rng):
    """wider property-level search on the implementation (only run when something already broke)"""
    found = []
    for c in itertools.islice(cases('quick', rng), 0, None, 7):
        try:
            r = impl(c)
        except Exception as e:
            found.append((c, f'unexpected {type(e).__name__}: {e}'))
            continue
        m = oracle(c, r)
        if m:
            found.append((c, m))
        if len(found) >= 3:
            break
    return found
